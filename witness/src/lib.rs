//! Compile-time witnesses for C16 clause 1 (`Send + Sync`), decided by rustc's trait solver.
//! Every `compile_fail` witness has a compiling twin that differs only in the offending line,
//! so a witness whose path is merely wrong cannot pass.
//!
//! Run with `cargo +nightly test --doc --offline` (nightly honours the error code).

/// Owned, exported value types are `Send + Sync + 'static`.
/// ```
/// fn req<T: Send + Sync + 'static>() {}
/// req::<asefile::AsepriteFile>();
/// req::<asefile::Tileset>();
/// req::<asefile::TilesetsById>();
/// req::<asefile::ColorPalette>();
/// req::<asefile::ColorPaletteEntry>();
/// req::<asefile::ExternalFilesById>();
/// req::<asefile::ExternalFile>();
/// req::<asefile::Tag>();
/// req::<asefile::Slice>();
/// req::<asefile::SliceKey>();
/// req::<asefile::Slice9>();
/// req::<asefile::UserData>();
/// req::<asefile::Tile>();
/// req::<asefile::TileSize>();
/// req::<asefile::ExternalTilesetReference>();
/// req::<asefile::PixelFormat>();
/// req::<asefile::LayerFlags>();
/// ```
pub struct OwnedTypesAreSendSync;

/// Borrowing handles are `Send + Sync` for every lifetime.
/// ```
/// fn req<T: Send + Sync>() {}
/// req::<asefile::Frame<'static>>();
/// req::<asefile::Layer<'static>>();
/// req::<asefile::Cel<'static>>();
/// req::<asefile::Tilemap<'static>>();
/// req::<asefile::LayersIter<'static>>();
/// req::<&'static asefile::AsepriteFile>();
/// ```
pub struct HandlesAreSendSync;

/// Twin (compiles): the same requirement on the plain type.
/// ```
/// fn req<T: Send + Sync + 'static>() {}
/// req::<std::sync::Arc<asefile::AsepriteFile>>();
/// ```
/// Witness (must NOT compile): wrapped in `Rc` the requirement fails with E0277 - the
/// requirement is therefore real and the positive witnesses above are not vacuous.
/// ```compile_fail,E0277
/// fn req<T: Send + Sync + 'static>() {}
/// req::<std::rc::Rc<asefile::AsepriteFile>>();
/// ```
pub struct RequirementCanFail;

/// A shared file can be used from several threads at once (type-level only; nothing here asserts values).
/// ```
/// fn share(f: &asefile::AsepriteFile) {
///     std::thread::scope(|s| {
///         s.spawn(|| f.num_frames());
///         s.spawn(|| f.num_layers());
///     });
/// }
/// let _ = share;
/// ```
pub struct SharedAcrossThreads;

/// The sprite cannot be mutated through a shared reference: no `&self` accessor hands out `&mut`.
/// Twin (compiles):
/// ```
/// fn f(a: &asefile::AsepriteFile) -> &[asefile::Slice] { a.slices() }
/// let _ = f;
/// ```
/// Witness (must NOT compile, E0308 mismatched types: `&[Slice]` is not `&mut [Slice]`):
/// ```compile_fail,E0308
/// fn f(a: &asefile::AsepriteFile) -> &mut [asefile::Slice] { a.slices() }
/// let _ = f;
/// ```
pub struct NoMutationThroughSharedRef;

/// The `util` module exists only with the `utils` feature (context for C18; this crate builds asefile
/// without features). Twin (compiles):
/// ```
/// use asefile::AsepriteFile;
/// let _ = std::mem::size_of::<AsepriteFile>();
/// ```
/// Witness (must NOT compile without the feature, E0432/E0433 unresolved path):
/// ```compile_fail,E0432
/// use asefile::util::extrude_border;
/// ```
pub struct UtilIsFeatureGated;
