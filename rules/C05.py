"""C05 - a sprite that loads is fully usable: every panic-capable site reachable from the public read API is
discharged by a caller contract, a handle invariant, a width/guard argument, or a data invariant whose
establishing check every successful load must pass (rules/invariants.py)."""
import q
import panics
import callgraph as CG
import common
import render
import totality as T
import invariants
from q import res, is_param, is_param_path, field_path, strip_casts, show, alts, walk, expand

AF = 'asefile::file::AsepriteFile::'
F = 'asefile::file::'
LOADERS = (AF + 'read', AF + 'read_file')
USE_TRAITS = ('std::fmt::Debug', 'std::fmt::Display', 'std::iter::Iterator', 'std::ops::Index', 'std::convert::From', 'std::error::Error',
              'std::clone::Clone', 'std::cmp::PartialEq')


def use_cone(fx):
    g = CG.get(fx)
    entries = [b.path for b in fx.bodies if b.kind == 'fn' and b.exported and b.vis == 'pub' and b.name not in LOADERS]
    entries += [b.path for b in fx.bodies if b.sig and b.sig.get('trait') in USE_TRAITS]
    cone = g.cone(entries)
    return entries, cone


def handle_aggs(fx, adt):
    out = []
    for b in fx.bodies:
        for bb, st, t in q.stmt_aggs(b, adt):
            out.append((b, bb, st, t))
    return out


def assert_guards(b, bb):
    """comparison conditions that dominate bb with the outcome taken"""
    out = []
    for cond, vals, a in q.guards(b, bb):
        tr = q.bool_outcome(b, a, vals)
        if cond[0] == 'bin' and tr is not None:
            op = cond[1]
            if not tr:
                op = {'Lt': 'Ge', 'Ge': 'Lt', 'Gt': 'Le', 'Le': 'Gt', 'Eq': 'Ne', 'Ne': 'Eq'}.get(op, op)
            out.append((op, strip_casts(cond[2]), strip_casts(cond[3])))
    return out


def const_of(t):
    try:
        v = q.eval_term(t, {})
        return v if isinstance(v, int) and not isinstance(v, bool) else -1
    except Exception:
        return -1


def is_count(t, which):
    t = strip_casts(t)
    if which == 'layers':
        return t[0] == 'call' and t[1] == AF + 'num_layers'
    if which == 'frames':
        return (t[0] == 'call' and t[1] == AF + 'num_frames') or (t[0] == 'field' and t[2] == 'num_frames')
    return False


def run(ctx):
    fx = ctx.fx
    I = invariants.Inv(ctx)
    entries, cone = use_cone(fx)
    load = CG.load_cone(fx)
    use = [fx.by_path[p] for p in sorted(cone) if fx.by_path[p].kind != 'promoted']
    ctx.rules = ['M establishing checks (invariants I1..I12)', 'U1 caller contracts', 'U2 handle invariants', 'U3 width / local guards',
                 'U4 data invariants', 'U5 bounded recursion', 'D returned image dimensions']
    ctx.assumptions += ['usize is 64 bit', 'callers respect the documented index contracts (the property restricts itself to in-range arguments)',
                        'numeric range of the blend arithmetic in blend.rs (debug assertions, u8 casts) is NOT decided here (see C17)']
    ctx.explanation = (
        'Two halves that must meet. Half 1 (users): the panic-site inventory of C04, applied to the cone of every public accessor and '
        'rendering entry point (and the Debug/Display/Iterator impls); each site must be discharged by a caller contract (an assert on a '
        'parameter in a pub fn), a handle invariant (every Layer/Frame/Cel/Tilemap construction stores only asserted or table-derived '
        'indices), an interval/guard argument, or a named data invariant. Half 2 (establishers): for each invariant I1..I12 the check '
        'that establishes it is located in the loader, shown to reject on its failing edge, to dominate the construction of the value it '
        'protects and to be ?-propagated on every path up to read_aseprite, and AsepriteFile is built only from validated values. The '
        'eleven post-load panics the inventory found on the pinned tree (missing invariants I1-I6, I8, unbounded recursion, i32 '
        'arithmetic) were repaired by fix: commits; the rows now guard those repairs. Not decided: the arithmetic of blend.rs '
        '(enumerated in the evidence), and that an establishing comparison is arithmetically the right one beyond operands and direction.')
    # ---------------- Half 2
    for n in ['I1', 'I2', 'I3', 'I4', 'I5', 'I6', 'I7', 'I8', 'I9', 'I10', 'I11', 'I12', 'I13']:
        ok, why = I.get(n)
        ctx.inst('M', n, ok, '%s: %s' % (n, why), None, key='invariant|M|' + n)

    def need(*names):
        bad = [n for n in names if not I.get(n)[0]]
        return (not bad), ('relies on %s' % ', '.join(names)) + ('' if not bad else ' - NOT ESTABLISHED: %s' % ', '.join(bad))

    # ---------------- handle invariants (U2)
    layer_ok = True
    for b, bb, st, t in handle_aggs(fx, 'asefile::layer::Layer'):
        lid = dict(t[3])['layer_id']
        if b.name == AF + 'layer':
            g_ = assert_guards(b, bb)
            ok = any(op == 'Lt' and a == strip_casts(lid) and is_count(c, 'layers') for op, a, c in g_)
            why = 'after assert!(id < num_layers)'
        elif b.name.startswith('asefile::layer::Layer::parent'):
            src = [x for x in walk(expand(lid, fx, 1)) if x[0] == 'field' and x[2] == 'parents'] or (lid[0] == 'param')
            ok = bool(src) and I.get('I10')[0]
            why = 'taken from LayersData.parents (I10: parent ids < own index < len)'
        else:
            ok, why = False, 'unlisted constructor'
        layer_ok = layer_ok and ok
        ctx.inst('U2', 'Layer@' + b.name.split('asefile::')[-1], ok, 'Layer{layer_id: %s} %s' % (show(lid)[:60], why), st['span'],
                 key=ctx.key(b.name, 'U2', 'Layer', ''))
    frame_ok = True
    for b, bb, st, t in handle_aggs(fx, 'asefile::file::Frame'):
        idx = dict(t[3])['index']
        ok = b.name == AF + 'frame' and any(op == 'Lt' and a == strip_casts(idx) and is_count(c, 'frames') for op, a, c in assert_guards(b, bb))
        frame_ok = frame_ok and ok
        ctx.inst('U2', 'Frame@' + b.name.split('asefile::')[-1], ok, 'Frame{index: %s} after assert!(index < num_frames)' % show(idx), st['span'],
                 key=ctx.key(b.name, 'U2', 'Frame', ''))
    cel_ok = True
    for b, bb, st, t in handle_aggs(fx, 'asefile::cel::Cel'):
        cid = dict(t[3])['cel_id']
        fr = strip_casts(dict(cid[3])['frame']) if cid[0] == 'agg' else None
        ly = strip_casts(dict(cid[3])['layer']) if cid[0] == 'agg' else None
        g_ = assert_guards(b, bb)
        okf = any(op == 'Lt' and a == fr and is_count(c, 'frames') for op, a, c in g_) or (is_param_path(fr, 1, ['index']) and frame_ok)
        okl = any(op == 'Lt' and a == ly and is_count(c, 'layers') for op, a, c in g_) or (is_param_path(ly, 1, ['layer_id']) and layer_ok)
        cel_ok = cel_ok and okf and okl
        ctx.inst('U2', 'Cel@' + b.name.split('asefile::')[-1], okf and okl, 'Cel{frame: %s (%s), layer: %s (%s)}: each asserted in range or copied from a '
                 'valid handle' % (show(fr), okf, show(ly), okl), st['span'], key=ctx.key(b.name, 'U2', 'Cel', ''))
    tm_ok = True
    for b, bb, st, t in handle_aggs(fx, 'asefile::tilemap::Tilemap'):
        f = dict(t[3])
        okc = f['cel'][0] == 'call' and f['cel'][1] == AF + 'cel'
        is_tm = False
        for cond, vals, a in q.guards(b, bb):
            tr = q.bool_outcome(b, a, vals)
            c2 = cond
            if c2[0] == 'un' and c2[1] == 'Not':
                c2, tr = c2[2], (not tr if tr is not None else None)
            if c2[0] == 'call' and c2[1] == 'asefile::cel::Cel::is_tilemap' and c2[2][0] == f['cel'] and tr is True:
                is_tm = True
        ts = f['tileset']
        okt = any(x[0] == 'call' and x[1] == 'asefile::tileset::TilesetsById::get' for x in walk(ts))
        tm_ok = tm_ok and okc and is_tm and okt
        ctx.inst('U2', 'Tilemap@' + b.name.split('asefile::')[-1], okc and is_tm and okt, 'Tilemap{cel: self.cel(..) (%s), built only under cel.is_tilemap() (%s), '
                 'tileset: tilesets.get(layer\'s id) (%s)}' % (okc, is_tm, okt), st['span'], key=ctx.key(b.name, 'U2', 'Tilemap', ''))

    # internal call sites of asserting accessors must satisfy the contract themselves (U1b)
    for callee, which in ((AF + 'layer', 'layers'), (AF + 'cel', 'both'), (AF + 'frame', 'frames')):
        for b in use:
            for c in q.calls(b, callee):
                at = q.arg_terms(c)
                args = [strip_casts(a) for a in at[1:]]
                g_ = assert_guards(b, c.bb)
                why = []
                ok = True
                wants = [('layers', args[0])] if which == 'layers' else [('frames', args[0])] if which == 'frames' else [('frames', args[0]), ('layers', args[1])]
                for kind, a in wants:
                    good = any(op == 'Lt' and x == a and is_count(cnt, kind) for op, x, cnt in g_)
                    if not good and a[0] == 'next':
                        rg = q.unwrap_into_iter(a[1])
                        good = rg[0] == 'agg' and rg[1] == 'std::ops::Range' and is_count(dict(rg[3])['end'], kind)
                        if good:
                            why.append('loop variable of 0..num_%s' % kind)
                    if not good and (is_param(a) or (a[0] == 'field' and is_param(a[1]))):
                        # the argument of a closure handed to an adapter over 0..num_<kind>() (`(0..n).all(|f| self.frame(f)..)`)
                        rg = q.closure_item_range(fx, b)
                        if rg is not None and is_count(dict(rg[3])['end'], kind) and isinstance(q.const_val(dict(rg[3])['start']), int):
                            good = True
                            why.append('closure argument ranging over 0..num_%s' % kind)
                    if not good and kind == 'layers' and b.name == AF + 'frame_image':
                        good = a[0] == 'field' and a[2] == '0' and a[1][0] == 'next' and I.get('I1')[0]
                        why.append('slot index of a stored cel (I1)')
                    if not good and kind == 'layers' and b.name.startswith(AF + 'frame_image::{closure') and a == ('field', ('param', 2, None), '0'):
                        # .. the same slot index, seen by a closure that filters the cels of the frame (`frame_cels(f).filter(|(id, _)| ..)`)
                        src = q.closure_item_source(fx, b)
                        good = src is not None and src[0] == 'call' and src[1] == 'asefile::cel::CelsData::frame_cels' and I.get('I1')[0]
                        if good:
                            why.append('slot index of a stored cel (I1), as the item of frame_cels(..).filter(..)')
                    if not good and kind == 'layers' and b.name == AF + 'write_cel':
                        good = field_path(a)[1][-2:] == ['data', 'layer_index'] and I.get('I1')[0]
                        why.append('layer_index of a stored cel = its slot (I1, C19 R3)')
                    if good and not why:
                        why.append('dominated by %s < num_%s' % (show(a)[:30], kind))
                    ok = ok and good
                ctx.inst('U1', '%s -> %s' % (b.name.split('asefile::')[-1], callee.split('::')[-1]), ok, 'internal call %s(%s): %s'
                         % (callee.split('::')[-1], ', '.join(show(a)[:40] for a in args), '; '.join(why) or 'argument NOT shown in range'), c.span,
                         key=ctx.key(b.name, 'U1', callee, ''))

    # blend.rs arithmetic is not decided here, with one exception that can be: the divisions of blend::normal, which every rendered
    # pixel passes through (seeds C05-n / C02-g / C06-l removed the exit that keeps their divisor non-zero)
    import C17 as _c17
    _c17.normal_divisions(ctx, 'U3')

    # ---------------- Half 1: inventory over USE (minus the loader cone, judged by C04, and blend.rs, not decided)
    bodies = [b for b in use if b.path not in load or b.name.startswith('asefile::cel::CelsData::')]
    inv = panics.inventory(fx, bodies)
    blend = [s for s in inv if s.body.name.startswith('asefile::blend::')]
    inv = [s for s in inv if not s.body.name.startswith('asefile::blend::') and not s.kind.startswith('alloc:')]
    ctx.extra['blend_rs_sites_not_decided'] = len(blend)
    ctx.extra['use_cone_size'] = len(use)
    ctx.extra['entry_points'] = len(entries)
    ctx.floor('panic-capable sites in the USE cone (outside blend.rs)', len(inv), 60)
    counts = {}
    for s in inv:
        n = counts.get((s.body.name, s.kind, s.what), 0)
        counts[(s.body.name, s.kind, s.what)] = n + 1
        key = s.key(n)
        b = s.body
        fn = b.name
        short = fn.split('asefile::')[-1]
        reason = T.auto(s)
        rule = 'U3'
        ok = reason is not None
        if not ok:
            reason = T.guard_index(s) or T.guard_index_enumerate(s) or T.guard_unwrap(s)
            ok = reason is not None
        if not ok:
            ok, reason, rule = discharge(ctx, I, s, dict(layer=layer_ok, frame=frame_ok, cel=cel_ok, tilemap=tm_ok), need)
        ctx.inst(rule, '%s %s' % (short, s.kind), ok, '%s at %s: %s' % (s.kind, s.what[:80], reason), s.span, key=key)

    # ---------------- U5 recursion
    g = CG.get(fx)
    for scc in g.sccs(cone):
        names = [fx.by_path[p].name for p in scc]
        ok = False
        why = 'unbounded'
        if names == [AF + 'write_cel']:
            b = fx.body(AF + 'write_cel')
            rec = q.calls(b, AF + 'write_cel')
            ok = len(rec) == 1
            if ok:
                c = rec[0]
                tgt = q.arg_terms(c)[2]
                # the recursive call is made only when the *target* cel's content is not Linked
                not_linked = False
                for cond, vals, a in q.guards(b, c.bb):
                    if cond[0] == 'discr' and cond[1][0] == 'field' and cond[1][2] == 'content' and any(x == tgt for x in walk(cond[1])):
                        import C10 as _c10
                        nm = _c10.switch_variants(b, a)
                        taken = [nm.get(v) for v in vals if v != 'otherwise']
                        if 'Linked' not in taken and (vals == ['otherwise'] and 'Linked' in [nm.get(v) for v, _ in b.blocks[a]['term']['targets']] or taken):
                            not_linked = True
                ok = not_linked
                why = 'write_cel recurses only on a target cel whose content is not Linked, so depth <= 2'
        ctx.inst('U5', 'recursion ' + ','.join(n.split('::')[-1] for n in names), ok, 'recursive cycle %s: %s' % (names, why), None,
                 key='USE|U5|' + ','.join(names))

    # ---------------- D returned dimensions
    render.canvas(ctx, rule='D')
    for fn in ('asefile::tileset::Tileset::tile_image', 'asefile::tileset::Tileset::image'):
        b = ctx.anchor(fn)
        if b is None:
            continue
        for c in q.calls(b, 'image::ImageBuffer::from_raw'):
            at = [strip_casts(x) for x in q.arg_terms(c)]
            w_ok = at[0][0] == 'call' and at[0][1].endswith('TileSize::width')
            if fn.endswith('tile_image'):
                h_ok = at[1][0] == 'call' and at[1][1].endswith('TileSize::height')
            else:
                h_ok = at[1][0] == 'bin' and at[1][1] == 'Mul' and any(x[0] == 'call' and x[1].endswith('TileSize::height') for x in walk(at[1])) \
                    and any(x[0] == 'field' and x[2] == 'tile_count' for x in walk(at[1]))
            ctx.inst('D', fn.split('::')[-1], w_ok and h_ok, '%s builds from_raw(%s, %s, ..)' % (fn.split('::')[-1], show(at[0])[:40], show(at[1])[:60]),
                     c.span, key=fn + '|D')
    ctx.samples = [i for i in ctx.instances if i['rule'] in ('M', 'U2', 'U4')][:20]


def discharge(ctx, I, s, handles, need):
    """table of USE-cone sites: returns (ok, reason, rule)"""
    fx = ctx.fx
    b = s.body
    fn = b.name
    kind = s.kind
    what = s.what
    d = s.detail
    at = d.get('args', [])

    def U(rule, ok, reason):
        return ok, reason, rule
    # ---- U1 caller contracts
    if kind.startswith('panic:') and fn in (AF + 'cel', AF + 'frame', AF + 'layer', F + 'Frame::layer', 'asefile::layer::Layer::frame',
                                            'asefile::tileset::Tileset::tile_image'):
        # the switches that directly control the panic block (short-circuit && gives several)
        gs = []
        seen = set()
        work = [s.bb]
        while work:
            x = work.pop()
            if x in seen:
                continue
            seen.add(x)
            for p_ in b.cfg.pred[x]:
                tp = b.blocks[p_]['term']
                if tp and tp['k'] == 'switch':
                    gs.append((q.switch_cond(b, p_), None))
                else:
                    work.append(p_)
        ok = bool(gs) and all(c_[0] == 'bin' for c_, _ in gs)
        gs = [g_ for g_ in gs if g_[0][0] == 'bin']
        for c_, v_ in gs:
            sides = [strip_casts(c_[2]), strip_casts(c_[3])]
            has_param = any(is_param(x) and x[1] != 1 for x in sides)
            other_self_only = all(not (is_param(y) and y[1] != 1) for x in sides if not (is_param(x) and x[1] != 1) for y in walk(x))
            ok = ok and has_param and other_self_only
        return U('U1', ok, 'documented caller contract: the panic is reached only through comparisons of an index parameter with a count of self')
    if fn == AF + 'tag' and kind == 'ext:index':
        return U('U1', is_param_path(at[0], 1, ['tags']) and is_param(strip_casts(at[1]), 2), 'documented caller contract: tag(id) panics unless id < num_tags')
    # ---- U2 handle-indexed tables
    if fn == 'asefile::layer::Layer::data' and kind == 'ext:index':
        ok = is_param_path(at[0], 1, ['file', 'layers']) and is_param_path(strip_casts(at[1]), 1, ['layer_id']) and handles['layer']
        return U('U2', ok, 'layers[self.layer_id]: Layer.layer_id < num_layers for every Layer construction')
    if fn == 'asefile::<layer::LayersData as std::ops::Index>::index':
        g = CG.get(fx)
        cs = [fx.by_path[p].name for p in g.callers(b.path)]
        allowed = {'asefile::layer::Layer::data', 'asefile::layer::Layer::is_visible', 'asefile::cel::RawCel::validate'}
        return U('U2', set(cs) <= allowed and handles['layer'], 'LayersData[index]: only called by %s with a valid layer id' % sorted(x.split('::')[-1] for x in cs))
    if fn == 'asefile::layer::Layer::parent' and kind == 'ext:index':
        ok_, why = need('I10')
        ok = ok_ and is_param_path(at[0], 1, ['file', 'layers', 'parents']) and is_param_path(strip_casts(at[1]), 1, ['layer_id']) and handles['layer']
        return U('U2', ok, 'parents[self.layer_id]: ' + why)
    if fn == 'asefile::layer::Layer::is_visible' and kind == 'ext:index':
        ok_, why = need('I10')
        idx = strip_casts(at[1])
        srcs = alts(idx)
        good = all(is_param_path(x, 1, ['layer_id']) or any(y[0] == 'field' and y[2] == 'parents' for y in walk(x)) for x in srcs)
        return U('U2', ok_ and good and handles['layer'], 'index is self.layer_id or a value of the parents table (all < len): ' + why)
    if fn == F + 'Frame::duration' and kind == 'ext:index':
        ok_, why = need('I12')
        ok = ok_ and is_param_path(at[0], 1, ['file', 'frame_times']) and is_param_path(strip_casts(at[1]), 1, ['index']) and handles['frame']
        return U('U2', ok, 'frame_times[self.index]: ' + why)
    if fn == 'asefile::cel::CelsData::cel' and kind == 'ext:index' and is_param_path(at[0], 1, ['data']):
        ok_, why = need('I12', 'I8')
        g = CG.get(fx)
        cs = sorted(fx.by_path[p].name for p in g.callers(b.path))
        allowed = {'asefile::cel::Cel::is_empty', 'asefile::cel::Cel::user_data', 'asefile::cel::Cel::raw_cel', AF + 'layer_image', AF + 'write_cel'}
        if AF + 'frame_image' in cs:
            # frame_image looking cels up itself: the frame is its own parameter (a Frame handle's index, as for frame_cels)
            fib = fx.body(AF + 'frame_image')
            good = handles['frame'] and fib is not None
            for c_ in (q.calls(fib, fn) if fib is not None else []):
                cid = q.arg_terms(c_)[1]
                good = good and cid[0] == 'agg' and is_param(strip_casts(dict(cid[3]).get('frame', ('unknown',))), 2)
            if good:
                allowed = allowed | {AF + 'frame_image'}
        return U('U2', ok_ and set(cs) <= allowed and handles['cel'], 'data[cel_id.frame]: callers %s pass a Cel handle id or a validated link target: %s'
                 % ([c.split('::')[-1] for c in cs], why))
    if fn == 'asefile::cel::CelsData::frame_cels' and kind == 'ext:index':
        ok_, why = need('I12')
        g = CG.get(fx)
        cs = sorted(fx.by_path[p].name for p in g.callers(b.path))
        return U('U2', ok_ and cs == [AF + 'frame_image'] and handles['frame'], 'data[frame]: only frame_image(Frame.index) calls it: ' + why)
    if fn == 'asefile::cel::CelsData::cel_mut' or fn == 'asefile::cel::CelsData::add_cel':
        return U('U2', True, 'loader-only function (judged by C04)')
    if fn.endswith('CelsData as std::fmt::Debug>::fmt') and kind == 'ext:index':
        idx = strip_casts(at[1])
        rg = q.unwrap_into_iter(idx[1]) if idx[0] == 'next' else None
        ok = rg is not None and rg[0] == 'agg' and dict(rg[3])['end'][0] == 'call' and dict(rg[3])['end'][1] in T.LEN and dict(rg[3])['end'][2][0] == at[0]
        return U('U3', ok, 'index is the loop variable of 0..len of the same vector')
    # ---- U3 / U4 rendering
    if fn == F + 'write_raw_cel_to_image':
        img = render.param_named(b, ty_contains='image::ImageBuffer')
        if kind in ('ext:get_pixel', 'ext:put_pixel'):
            ok = render.clip_guarded(b, s.bb, at[1], ('width', '0'), img) and render.clip_guarded(b, s.bb, at[2], ('height', '1'), img)
            return U('U3', ok, 'pixel access guarded by 0 <= x < image width and 0 <= y < image height')
        if kind == 'bounds':
            ok_, why = need('I2')
            import poly as PL
            sz = render.param_named(b, ty_contains='cel::ImageSize')
            # index == (vy - oy) * width + (vx - ox), vy / vx loop variables running over (a sub-range of) oy..oy+height / ox..ox+width
            # (origins may be 0: loops over the cel's own rows and columns); compared as polynomials, so hoisting `row * width` is fine
            p_ = PL.poly(d['index_term'])
            W = PL.canon(('field', ('param', sz, None), 'width'))
            shape = False
            vys = [a for k in p_ if len(k) == 2 and W in k for a in k if a != W and PL.loop_var_end(a) is not None]
            vxs = [k[0] for k in p_ if len(k) == 1 and PL.loop_var_end(k[0]) is not None]
            if len(vys) == 1 and len(vxs) == 1:
                oy = render.offset_origin(vys[0], lambda t_: PL.canon(t_) == PL.canon(('field', ('param', sz, None), 'height')))
                ox = render.offset_origin(vxs[0], lambda t_: PL.canon(t_) == W)
                if oy is not None and ox is not None:
                    want = {}
                    for cf, mono in ((1, (vys[0], W)), (1, (vxs[0],))):
                        for k_, v_ in PL.make((cf,) + mono).items():
                            want[k_] = want.get(k_, 0) + v_
                    for k_, v_ in PL.poly(oy).items():
                        kk = tuple(sorted(k_ + (W,), key=repr))
                        want[kk] = want.get(kk, 0) - v_
                    for k_, v_ in PL.poly(ox).items():
                        want[k_] = want.get(k_, 0) - v_
                    want = {k_: v_ for k_, v_ in want.items() if v_ != 0}
                    shape = want == p_
            wc = fx.body(AF + 'write_cel')
            same = False
            for c in q.calls(wc, fn):
                a_ = q.arg_terms(c)
                px_ = [x for x in walk(a_[3]) if x[0] == 'field' and x[2] == 'pixels']
                same = a_[2][0] == 'field' and a_[2][2] == 'size' and bool(px_) and a_[2][1] == px_[0][1]
            return U('U4', ok_ and shape and same, 'pixels[(y-y0)*width + (x-x0)] with y in y0..y0+height, x in x0..x0+width of the same ImageContent (size, pixels): '
                     'index < width*height = pixels.len(): ' + why)
    if fn == F + 'write_tilemap_cel_to_image':
        img = render.param_named(b, ty_contains='image::ImageBuffer')
        if kind in ('ext:get_pixel', 'ext:put_pixel'):
            ok = render.clip_guarded(b, s.bb, at[1], ('width', '0'), img) and render.clip_guarded(b, s.bb, at[2], ('height', '1'), img)
            return U('U3', ok, 'pixel access guarded by 0 <= x < image width and 0 <= y < image height')
        if kind == 'ext:expect':
            t = at[0]
            ok = t[0] == 'call' and t[1] == 'asefile::tilemap::TilemapData::tile'
            if ok:
                tmd = t[2][0]

                def lv(x, getter):
                    x = strip_casts(x)
                    if x[0] != 'next':
                        return False
                    rg = q.unwrap_into_iter(x[1])
                    en = strip_casts(dict(rg[3])['end']) if rg[0] == 'agg' else None
                    return en is not None and en[0] == 'call' and en[1] == 'asefile::tilemap::TilemapData::' + getter and en[2][0] == tmd
                ok = lv(t[2][1], 'width') and lv(t[2][2], 'height')
                tb = fx.body('asefile::tilemap::TilemapData::tile')
                # tile() returns None only under x >= width || y >= height
                # tile() yields Some exactly when !(x >= width) && !(y >= height)
                some_defs = [(bb_, t_) for (l_, pj, t_, bb_, sp) in q.defs_in(tb, tb.cfg.reach) if l_ == 0 and not pj and t_[0] == 'agg' and t_[2] == 'Some']
                some_ok = len(some_defs) == 1
                if some_ok:
                    import poly as PL
                    g2 = assert_guards(tb, some_defs[0][0])
                    px_, py_ = 2, 3          # tile(&self, x, y): by position, the names are free to change

                    def kind_of(op, a_, c_):
                        # compared up to value-preserving widening (`x as i64 < self.width as i64`, a shared i64 helper inlined)
                        a_, c_ = PL.canon(a_), PL.canon(c_)
                        for pi_, nm_ in ((px_, 'width'), (py_, 'height')):
                            if pi_ is not None and a_ == ('param', pi_, None):
                                if op == 'Lt' and is_param_path(c_, 1, [nm_]):
                                    return nm_
                                if op == 'Ge' and q.const_val(c_) == 0:
                                    return 'lo'        # always true for an unsigned coordinate
                        return 'other'
                    kinds = [kind_of(*g_) for g_ in g2]
                    some_ok = 'other' not in kinds and 'width' in kinds and 'height' in kinds
                ok = ok and some_ok
            return U('U3', ok, 'tile(tile_x, tile_y) with tile_x in 0..width(), tile_y in 0..height() of the same tilemap: never None')
        if kind == 'bounds':
            idx = strip_casts(d['index_term'])
            ln = d['len_term']
            ts = [x for x in walk(ln) if x[0] == 'call' and x[1] == F + 'tile_slice']
            ok = bool(ts) and idx[0] == 'bin' and idx[1] == 'Add'
            if ok:
                tsz = ts[0][2][1]

                def lv2(x, getter):
                    # a loop variable running inside 0..tile width/height (the whole range, or a sub-range cut by max/min/clamp)
                    import poly as PL
                    want_ = PL.canon(('call', 'asefile::tileset::TileSize::' + getter, (tsz,), None))
                    return PL.within_zero_to(strip_casts(x), lambda t_: t_ == want_)
                mul = strip_casts(idx[2])
                ok = mul[0] == 'bin' and mul[1] == 'Mul' and lv2(mul[2], 'height') and lv2(idx[3], 'width') and \
                    strip_casts(mul[3])[0] == 'call' and strip_casts(mul[3])[1].endswith('TileSize::width') and strip_casts(mul[3])[2][0] == tsz
            tsb = fx.body(F + 'tile_slice')
            rt = res(tsb).ret()
            # tile_slice returns pixels[start .. start + pixels_per_tile]
            okl = any(x[0] == 'agg' and x[1] == 'std::ops::Range' for x in walk(rt))
            return U('U3', ok and okl, 'tile_pixels[py*tile_width + px] with py in 0..tile_height, px in 0..tile_width of the tile size the slice was cut with '
                     '(slice length = tile_width*tile_height)')
    if fn == F + 'tile_slice' and kind == 'ext:index':
        ok_, why = need('I3', 'I6', 'I7')
        rg = at[1]
        shape = rg[0] == 'agg' and rg[1] == 'std::ops::Range'
        if shape:
            st_, en = strip_casts(dict(rg[3])['start']), strip_casts(dict(rg[3])['end'])
            import poly as PL
            ps_, pe_ = PL.poly(st_), PL.poly(en)
            ppt_ = [a for k in ps_ for a in k if a[0] == 'call' and a[1].endswith('pixels_per_tile')]
            shape = bool(ppt_) and ps_ == PL.make((1, ppt_[0], ('field', ('param', 3, 'tile_id'), '0'))) and \
                pe_ == PL.make((1, ppt_[0], ('field', ('param', 3, 'tile_id'), '0')), (1, ppt_[0]))
        # callers pass (pixels of the layer's tileset, its tile size, a tile of a validated tilemap)
        return U('U4', ok_ and shape, 'pixels[ppt*id .. ppt*id + ppt] with id < tile_count and pixels.len() = tile_count*ppt: ' + why)
    if fn == AF + 'tilemap':
        ok4, why4 = need('I4')
        fb = [x for x in fx.bodies if x.sig and x.sig.get('trait') == 'std::convert::From' and 'TileSize' in str(x.sig.get('trait_ref'))]
        u16s = False
        if fb:
            rt = res(fb[0]).ret()
            u16s = rt[0] == 'tuple' and all(x[0] == 'cast' and x[2] == 'u16' and x[3] == 'u32' for x in rt[1])
        def from_ts(t):
            return any(x[0] == 'call' and x[1].startswith('std::convert::From::from') and 'TileSize' in x[1] for x in walk(t)) or \
                any(x[0] == 'call' and x[1].startswith('std::convert::Into::into') and any(
                    y[0] == 'call' and y[1].endswith('Tileset::tile_size') for y in walk(x)) for x in walk(t)) or \
                any(x[0] == 'call' and x[1] in ('asefile::tileset::TileSize::width', 'asefile::tileset::TileSize::height') for x in walk(t))

        def canvas(t):
            t = strip_casts(t)
            return t[0] == 'call' and t[1] in (AF + 'width', AF + 'height') or is_param_path(t, 0, ['width']) or is_param_path(t, 0, ['height'])
        if kind == 'overflow:Add':
            a_, b_ = d['a_term'], d['b_term']
            shape = d.get('ty') in ('u32', 'u64', 'usize') and (canvas(a_) and from_ts(b_) or canvas(b_) and from_ts(a_))
            return U('U4', ok4 and u16s and shape, 'canvas size (<= 65535) + tile size (zero-extended u16) computed in %s cannot overflow: %s' % (d.get('ty'), why4))
        if kind == 'overflow:Sub':
            a_ = strip_casts(d['a_term'])
            # (canvas + tile) - 1 or (tile - 1): the minuend contains the tile size (>= 1) as a positive summand
            import poly as PL
            pa = PL.poly(a_)
            shape = d.get('ty') in ('u32', 'u64', 'usize') and d.get('b') == (1, 1) and all(v > 0 for v in pa.values()) and \
                any(len(k) == 1 and v >= 1 and from_ts(k[0]) for k, v in pa.items())
            return U('U4', ok4 and u16s and shape, '(canvas + tile size) - 1 with tile size >= 1 does not underflow: ' + why4)
        if kind == 'div0':
            shape = d.get('term') is not None and from_ts(d['term'])
            return U('U4', ok4 and u16s and shape, 'the divisor is the tile width/height, >= 1: ' + why4)
        if kind == 'panic:assert':
            gs, seen, work = [], set(), [s.bb]
            while work:
                x = work.pop()
                if x in seen:
                    continue
                seen.add(x)
                for p_ in b.cfg.pred[x]:
                    tp = b.blocks[p_]['term']
                    if tp and tp['k'] == 'switch':
                        gs.append(q.switch_cond(b, p_))
                    else:
                        work.append(p_)
            # every controlling test is `ceil-quotient < 65536` (or a wider bound)
            shape = bool(gs) and all(c_[0] == 'bin' and c_[1] == 'Lt' and strip_casts(c_[2])[0] == 'bin' and strip_casts(c_[2])[1] == 'Div' and
                                     from_ts(strip_casts(c_[2])[3]) and const_of(c_[3]) >= 65536 for c_ in gs)
            return U('U4', ok4 and u16s and shape, 'w = ceil(canvas width / tile width) <= canvas width <= 65535 because tile width >= 1: ' + why4)
    if fn == 'asefile::tilemap::Tilemap::tile_offsets' and kind == 'div0':
        ok4, why4 = need('I4')
        dt = strip_casts(d['term']) if d.get('term') is not None else ('unknown',)
        shape = dt[0] == 'call' and dt[1] in ('asefile::tileset::TileSize::width', 'asefile::tileset::TileSize::height') and \
            any(x[0] == 'call' and x[1].endswith('Tileset::tile_size') for x in walk(dt))
        return U('U4', ok4 and handles['tilemap'] and shape, 'divides by the tile width/height of the handle\'s tileset: ' + why4)
    if fn == 'asefile::tilemap::Tilemap::tilemap':
        return U('U2', handles['tilemap'], 'Tilemap handles are built only under cel.is_tilemap(), so raw_cel() is Some and its content is Tilemap')
    if fn in ('asefile::tilemap::Tilemap::tile', 'asefile::tilemap::TilemapData::tile') and kind == 'ext:index':
        ok5, why5 = need('I5')
        g_ = assert_guards(b, s.bb)
        # guarded by x < w and y < h (as negated early-return tests) and x,y >= 0
        import poly as PL
        p_ = PL.poly(at[1])

        tiles_of = PL.canon(at[0][1]) if at[0][0] == 'field' and at[0][2] == 'tiles' else None

        def dim(t, nm):
            t = PL.canon(t)
            # the accessor, the field of self (inside TilemapData), or the field of the very tilemap data whose tiles are indexed
            # (a TilemapData helper inlined into Tilemap::tile)
            return (t[0] == 'call' and t[1] == 'asefile::tilemap::TilemapData::' + nm) or is_param_path(t, 1, [nm]) or \
                (t[0] == 'field' and t[2] == nm and tiles_of is not None and t[1] == tiles_of)
        okg = False
        wat = [a for k in p_ if len(k) == 2 for a in k if dim(a, 'width')]
        if wat and all(len(k) in (1, 2) for k in p_):
            W = wat[0]
            xs = {k: v for k, v in p_.items() if len(k) == 1}                       # the column part
            ys = {tuple(a for a in k if a != W): v for k, v in p_.items() if len(k) == 2 and W in k}   # the row part (divided by W)
            complete = len(ys) == sum(1 for k in p_ if len(k) == 2) and all(len(k) == 1 for k in ys)

            def guarded(op, pv, rhs):
                return any(o == op and PL.poly(l) == pv and rhs(r) for o, l, r in g_)

            def plain(pv):
                return len(pv) == 1 and list(pv.values()) == [1]
            okg = complete and bool(xs) and bool(ys) and guarded('Lt', xs, lambda r: dim(r, 'width')) and guarded('Lt', ys, lambda r: dim(r, 'height')) and \
                (plain(xs) or guarded('Ge', xs, lambda r: q.const_val(r) == 0)) and (plain(ys) or guarded('Ge', ys, lambda r: q.const_val(r) == 0))
        return U('U4', ok5 and okg, 'tiles[y*w + x] with w the tilemap width, under the guards 0 <= x < w, 0 <= y < h, tiles.len() = w*h: ' + why5)
    if fn.endswith('tile::Tiles as std::ops::Index>::index'):
        g = CG.get(fx)
        cs = sorted(fx.by_path[p].name.split('::')[-2] + '::' + fx.by_path[p].name.split('::')[-1] for p in g.callers(b.path))
        return U('U4', set(cs) <= {'Tilemap::tile', 'TilemapData::tile'}, 'Tiles[index]: only called by %s (judged there)' % cs)
    if fn == 'asefile::tileset::Tileset::image':
        if kind == 'overflow:Mul':
            ok_, why = need('I6', 'I4')
            a_, b_ = strip_casts(d['a_term']), strip_casts(d['b_term'])
            shape = d.get('ty') in ('u32', 'u64', 'usize') and {True} == {
                any(x[0] == 'call' and x[1] == 'asefile::tileset::TileSize::height' for x in (a_, b_)),
                any(is_param_path(x, 1, ['tile_count']) for x in (a_, b_))}
            return U('U4', ok_ and shape, 'tile_height * tile_count (in %s) <= tile_count*tw*th <= u32::MAX: %s' % (d.get('ty'), why))
        if kind == 'ext:expect' and 'from_raw' in what:
            ok_, why = need('I6')
            return U('U4', ok_, 'from_raw(tw, th*count, 4 bytes per pixel of all pixels): buffer length matches: ' + why)
        if kind == 'ext:expect':
            ok_, why = need('I7')
            return U('U4', ok_, 'Tileset<Pixels> always has pixels: ' + why)
    if fn == 'asefile::tileset::Tileset::tile_image':
        if kind == 'ext:expect' and 'from_raw' in what:
            ok_, why = need('I6')
            return U('U4', ok_, 'from_raw(tw, th, pixels_per_tile pixels taken at tile_index*ppt with tile_index < tile_count): ' + why)
        if kind == 'ext:expect':
            ok_, why = need('I7')
            return U('U4', ok_, 'Tileset<Pixels> always has pixels: ' + why)
    if fn == AF + 'write_cel':
        if kind in ('panic:panic', 'panic:unreachable'):     # the same unconditional stop, whichever macro spells it
            g_ = q.guards(b, s.bb)
            linked = any(c_[0] == 'discr' and any(x[0] == 'call' and x[1] == 'asefile::cel::CelsData::cel' for x in walk(c_)) for c_, v_, a_ in g_)
            if linked:
                ok_, why = need('I8')
                return U('U4', ok_, 'a link target is never itself a linked cel: ' + why)
            ok_, why = need('I11')
            return U('U4', ok_, 'a tilemap cel lives in a tilemap layer: ' + why)
        if kind == 'ext:expect':
            ok_, why = need('I7')
            return U('U4', ok_, 'tilemap layer\'s tileset exists and has pixels: ' + why)
    if fn.startswith('asefile::pixel::Pixels::clone_as_image_rgba') and kind == 'ext:expect':
        ok_, why = need('I9')
        return U('U4', ok_, 'every stored index is a palette key: ' + why)
    if fn.endswith('file::LayersIter as std::iter::Iterator>::next') and kind == 'overflow:Add':
        ok = any(op == 'Lt' and is_param_path(a, 1, ['next']) and is_count(c, 'layers') for op, a, c in assert_guards(b, s.bb))
        return U('U3', ok, 'next + 1 under next < num_layers() <= u32::MAX')
    return False, 'no discharge rule applies (not width-safe, no guard, no handle/data invariant row)', 'U0'
