"""C12 - memory while loading is bounded by the bytes supplied: no allocation size in the loader cone is controlled
by a declared-only file field beyond a fixed cap."""
import q
import panics
import intervals as IV
import callgraph as CG
import common
import effects
import totality as T
import iorules
import C04 as _c04
from q import res, is_param, is_param_path, field_path, strip_casts, show, alts, walk, expand

CAP = 32 << 20          # half of the property's 64 MiB constant
LENLIKE = ('std::vec::Vec::len', 'core::slice::len', 'std::collections::HashMap::capacity', 'std::collections::HashMap::len',
           'std::vec::Vec::capacity', 'std::string::String::len')
GROW = ('std::vec::Vec::push', 'std::collections::HashMap::insert', 'std::vec::Vec::extend', 'std::string::String::push',
        'std::string::String::push_str', 'std::vec::Vec::insert', 'std::vec::Vec::extend_from_slice')


def fallback_elem_size(fx, site):
    """element size when the call is generic over the element type: the largest instantiation known to the crate"""
    tys = site.detail.get('elem_types') or []
    t0 = tys[0] if tys else ''
    best = None
    for a in fx.j['adts']:
        nm = a['path'].split('::')[-1].split('<')[0]
        if nm and nm in t0 and a.get('size'):
            best = max(best or 0, a['size'])
    # Option<RawCel<P>> etc.: look for locals of a concrete instantiation
    for b in fx.bodies:
        for l in b.locals:
            if l.get('size') and t0 and t0.replace('P', 'pixel::RawPixels') == l['ty']:
                best = max(best or 0, l['size'])
    return best


def closure_allocs(fx, body, site):
    """fixed-size heap allocations made by the element-producing closure of resize_with (executed once per element)"""
    if not site.detail['callee'].endswith('resize_with'):
        return 0
    c = body.call_at(site.bb)
    tot = 0
    for a in q.arg_terms(c):
        if a[0] == 'closure':
            cb = fx.by_path.get(a[1])
            if cb is not None:
                for cc in q.calls(cb):
                    if cc.callee in ('std::boxed::Box::new', 'alloc::boxed::Box::new', 'alloc::alloc::exchange_malloc', 'std::boxed::box_new_uninit', 'std::boxed::Box::new_uninit') and cc.fn:
                        sz = [x for x in cc.fn.get('arg_sizes', []) if x]
                        tot += sz[0] if sz else 128
                    if cc.callee.endswith('exchange_malloc'):
                        v = q.const_val(q.arg_terms(cc)[0])
                        tot += v if isinstance(v, int) else 128
                # capacity reserved per element (Vec::with_capacity(K), vec![x; K], reserve(K) ...)
                for s2 in panics.inventory(fx, [cb]):
                    if s2.kind.startswith('alloc:'):
                        rng = s2.detail.get('size_range')
                        esz = s2.detail.get('elem_size') or fallback_elem_size(fx, s2) or 128
                        tot += rng[1] * esz if rng is not None else CAP + 1
    return tot


def run(ctx):
    fx = ctx.fx
    cone = CG.load_cone(fx)
    load = [fx.by_path[p] for p in sorted(cone) if fx.by_path[p].kind != 'promoted']
    ctx.rules = ['T allocation sinks: bounded-constant / input-justified / declared-only', 'G growth sinks sit in progress-making loops']
    ctx.assumptions += ['usize is 64 bit', 'flate2 expands at most ~1032:1 (deflate limit), inside the property\'s 8192 bytes per input byte',
                        'amortised Vec/HashMap growth is at most a constant factor over the number of elements pushed']
    ctx.explanation = (
        'Taint analysis from declared sizes to allocation sinks, value-independent and hence decided from the code. Every allocation '
        'sink in the loader cone (Vec::with_capacity, vec![x; n], resize/resize_with/reserve, HashMap::with_capacity, '
        'String::with_capacity, read_to_end) gets a byte bound = interval of the size argument (with inter-procedural parameter ranges '
        'and dominating constant guards such as .min(CAP)) x element size from rustc\'s layout. A sink is bounded-constant (<= 32 MiB, '
        'and not accumulated across iterations of an input-driven loop), input-justified (size is the length/capacity of data already '
        'in memory, or the buffer is filled through a bounded reader whose delivered length is compared with the request, or it is a '
        'read_to_end on a take()/zlib wrapper that grows with delivered data), or declared-only - a finding. Growth sinks (push / insert '
        '/ collect) must sit in loops that make progress on the input or are bounded. The sum of the bounded-constant sinks outside '
        'loops is reported. Not decided: the exact constant, allocator overhead, flate2\'s internal buffers.')
    inv = [s for s in panics.inventory(fx, load) if s.kind.startswith('alloc:')]
    ctx.floor('allocation sinks in the LOAD cone', len(inv), 12)
    total_const = 0
    counts = {}
    for s in inv:
        n = counts.get((s.body.name, s.kind, s.what), 0)
        counts[(s.body.name, s.kind, s.what)] = n + 1
        key = s.key(n)
        d = s.detail
        b = s.body
        L = b.cfg.loop_of(s.bb)
        callee = d['callee']
        verdict = None
        why = ''
        if callee in ('std::io::Read::read_to_end', 'std::io::Read::read_to_string'):
            c = b.call_at(s.bb)
            recv = q.arg_terms(c)[0]
            wrapped = recv[0] == 'call' and recv[1] in ('std::io::Read::take', 'flate2::read::ZlibDecoder::new')
            verdict = 'input-justified' if wrapped else 'declared-only'
            why = 'read_to_end on %s grows with the bytes actually delivered' % (recv[1].split('::')[-2] if wrapped else 'the RAW input (unbounded)')
        else:
            st = d.get('size_term')
            rng = d.get('size_range')
            esz = d.get('elem_size')
            if not esz:
                esz = fallback_elem_size(fx, s) or 128
            lenlike = st is not None and strip_casts(st)[0] == 'call' and strip_casts(st)[1] in LENLIKE
            if lenlike and L is not None and not any(isinstance(x, tuple) and x and x[0] in ('next', 'phi') for x in walk(st)):
                # the length of one collection reserved again on every iteration of a loop over another: the product of two counts that
                # are each backed by input is not (seed C12-m: a row of num_layers slots per frame - 4096 layers x 6000 frames in a
                # 190 KB file reserve 2.3 GB).  Justified is the length of what the iteration itself consumes (it contains the loop item)
                verdict = 'declared-only'
                why = 'size %s does not depend on the loop item but is reserved on every iteration: quadratic in the input' % show(st)[:70]
            elif lenlike:
                verdict = 'input-justified'
                why = 'size is the length/capacity of a collection already in memory (%s)' % show(st)[:70]
            elif rng is not None and rng[1] * (esz + closure_allocs(fx, b, s)) <= CAP:
                bytes_ = rng[1] * (esz + closure_allocs(fx, b, s))
                # inside a loop: is the allocated object accumulated in parser state?
                cls = _c04.classify_loop(fx, b, L)[0] if L is not None else None
                fn_len_checked = b.name in ('asefile::reader::AseReader::take_bytes', 'asefile::reader::AseReader::read_vec',
                                            'asefile::reader::AseReader::unzip', 'asefile::reader::AseReader::string',
                                            'asefile::reader::AseReader::skip_reserved')
                # .. the reservation is tied to the requested length (min(requested, CAP), or a local sized by it): on success the buffer
                # holds exactly that many bytes, so what the caller keeps is backed by delivered data.  A reservation that ignores the
                # request (seed C12-o: min(usize::MAX, 1 MiB) for every inflated cel, 1 MiB kept per 1x1 cel) is not
                tied = st is not None and any(is_param(x) and x[1] >= 2 for x in walk(st))
                if fn_len_checked and (tied or b.name.endswith(('::string', '::skip_reserved'))):
                    verdict = 'input-justified'
                    why = 'transient buffer of at most %d bytes that is filled with delivered bytes or dropped (exact read / length check)' % bytes_
                elif fn_len_checked:
                    verdict = 'declared-only'
                    why = ('%d bytes reserved on every call whatever length is requested, and handed to the caller with the data: kept once per cel / '
                           'tileset, not backed by input' % bytes_)
                else:
                    verdict = 'bounded-constant'
                    why = 'at most %d elements x %d bytes = %d bytes' % (rng[1], esz, bytes_)
                    total_const += bytes_
            else:
                verdict = 'declared-only'
                per = closure_allocs(fx, b, s)
                why = 'size %s (range %s) x %d bytes%s is controlled by a declared file field with no cap (limit %d bytes)' % (
                    show(st)[:70] if st else '?', rng, esz, (' + %d bytes allocated per element by the filling closure' % per) if per else '', CAP)
        # in-place growth of persistent state (resize/reserve on a location rooted at a parameter) happens once per call:
        # multiply by the trip bounds of the loops that enclose the call chain from read_aseprite
        if verdict == 'bounded-constant' and callee.split('::')[-1] in ('resize', 'resize_with', 'reserve', 'reserve_exact'):
            c = b.call_at(s.bb)
            recv = q.arg_terms(c)[0]
            if effects.root_of(recv)[0] is not None:
                g = CG.get(fx)
                entry = [x.path for x in fx.bodies if x.name == CG.LOAD_ENTRY]
                chain = g.path(entry[0], b.path) if entry else None
                mult = 1
                loops = []
                if chain:
                    for caller, callee_p in zip(chain, chain[1:]):
                        cb = fx.by_path[caller]
                        for cc in q.calls(cb):
                            lb = cc.local_body()
                            if lb is not None and lb.path == callee_p:
                                for L2 in cb.cfg.loops_containing(cc.bb):
                                    cls2, why2 = _c04.classify_loop(fx, cb, L2)
                                    if cls2 == 'bounded':
                                        mult *= 65535
                                        loops.append('%s: %s' % (cb.name.split('::')[-1], why2[:50]))
                                    elif cls2 == 'input-driven':
                                        mult *= 1 << 32
                                        loops.append('%s: %s' % (cb.name.split('::')[-1], why2[:50]))
                                break
                if bytes_ * mult > CAP:
                    verdict = 'declared-only'
                    total_const -= bytes_
                    why = ('in-place growth of parser state by up to %d bytes per call, repeated under %s: up to %d bytes in total from a few '
                           'declared bytes per call' % (bytes_, loops, bytes_ * mult))
        ok = verdict in ('bounded-constant', 'input-justified')
        ctx.inst('T', '%s %s' % (b.name.split('asefile::')[-1], s.kind), ok, '%s: %s - %s' % (s.what[:70], verdict, why), s.span, key=key)
    ctx.extra['sum_of_bounded_constant_sinks_bytes'] = total_const
    ctx.inst('T', 'sum', total_const <= (64 << 20), 'sum of bounded-constant sinks = %d bytes (must stay below the 64 MiB constant of the statement)'
             % total_const, None, key='LOAD|T|sum')
    # ---------- T (cont.): copies.  A clone of something that owns heap memory duplicates data already in memory for a few input
    # bytes (seed C12-r gave every linked cel its own copy of the source image: 60 links x 4 MB from a 6 KB file).  In the loader only
    # reference-counted handles and plain small values are cloned
    def plain(ty):
        ty = ty.replace('std::', '').replace('option::', '').replace('sync::', '')
        if ty.startswith(('Option<Arc<', 'Arc<', '&')) or ty in ('u8', 'u16', 'u32', 'u64', 'usize', 'i8', 'i16', 'i32', 'i64', 'isize', 'bool', 'char', '()'):
            return True
        a_ = fx.adts.get('asefile::' + ty.split('<')[0]) or fx.adts.get(ty.split('<')[0])
        if a_ is not None and (a_.get('size') or 1 << 30) <= 32:
            ftys = [f_['ty'] for v_ in a_.get('variants', []) for f_ in v_.get('fields', [])]
            return not any(k_ in t_ for t_ in ftys for k_ in ('Vec<', 'String', 'HashMap', 'Box<', 'IntMap'))
        return False
    ncl = 0
    for b in load:
        for c in q.calls(b):
            if q.callee_name(c).split('::')[-1] != 'clone' or 'Clone' not in (c.callee + str((c.fn or {}).get('res'))):
                continue
            ncl += 1
            tys = (c.fn or {}).get('args') or ['?']
            okc = plain(tys[0])
            ctx.inst('T', '%s clone' % b.name.split('asefile::')[-1], okc, 'clone of %s in the loader: %s' % (tys[0], 'a handle or a plain small value' if okc else
                     'a value that may own heap memory is duplicated - memory no input bytes stand for'), c.span, key=ctx.key(b.name, 'T', 'clone', tys[0]))
    ctx.floor('clone calls in the LOAD cone', ncl, 3)
    # the "progress on the input" argument for the growth loops rests on reads that FAIL at the end of the input: a primitive that returns
    # a default there (seed C12-t, "like Aseprite's own leniency") lets a `first..=last` loop build a million entries from nothing
    import C01 as _c01p
    _c01p.reader_primitives(ctx, 'G')
    # length checks that make the transient buffers "justified"
    iorules.take_bytes_length_check(ctx, 'T')
    # ---------- T (cont.): collect() into a plain collection reserves the iterator's lower size bound up front.  For a range over a
    # declared count (`(0..n).map(..).collect::<Vec<_>>()`) that is n elements before a single one is read (seed C12-k); collecting
    # into Result<_>/Option<_> goes through an adapter whose lower bound is 0, and iterators over data already in memory are justified
    EXACT = ('map', 'enumerate', 'rev', 'cloned', 'copied', 'inspect', 'zip', 'into_iter', 'by_ref', 'peekable')
    WIDTH = {'byte': 255, 'word': 65535, 'short': 65535}
    for b in load:
        for c in q.calls(b, 'std::iter::Iterator::collect'):
            dty = c.dest['ty']
            if dty.startswith(('std::result::Result<', 'std::option::Option<')):
                continue
            src = q.arg_terms(c)[0]
            while src[0] == 'call' and src[1].split('::')[-1] in EXACT and src[2]:
                src = src[2][0]
            verdict, why = 'input-justified', 'iterates data already in memory (%s)' % show(src)[:60]
            if src[0] == 'agg' and src[1] in ('std::ops::Range', 'std::ops::RangeInclusive'):
                end = strip_casts(dict(src[3]).get('end', ('unknown',)))
                reads = [x for x in walk(end) if isinstance(x, tuple) and x and x[0] == 'call' and x[1].startswith(common.READER)]
                kc = q.const_val(end)
                if isinstance(kc, int):
                    bound = kc
                elif reads and all(x[1].split('::')[-1] in WIDTH for x in reads) and end in reads:
                    bound = max(WIDTH[x[1].split('::')[-1]] for x in reads)
                else:
                    bound = None
                esz = ([x for x in (c.fn.get('arg_sizes') or []) if x] or [128])[-1]
                if bound is not None and bound * max(esz, 128) <= CAP:
                    verdict, why = 'bounded-constant', 'at most %d elements reserved' % bound
                else:
                    verdict, why = 'declared-only', 'reserves one element per step of a range whose end %s is a declared count with no cap' % show(end)[:60]
            elif src[0] == 'call' and src[1].split('::')[-1] in ('filter', 'filter_map', 'flat_map', 'flatten', 'take_while', 'skip_while', 'scan', 'map_while'):
                verdict, why = 'input-justified', 'adapter %s has lower size bound 0: grows with the elements produced' % src[1].split('::')[-1]
            ok = verdict != 'declared-only'
            ctx.inst('T', '%s collect' % b.name.split('asefile::')[-1], ok, 'collect into %s: %s - %s' % (dty[:50], verdict, why), c.span,
                     key=ctx.key(b.name, 'T', 'collect', ''))

    # ---------- G growth sinks
    ng = 0
    for b in load:
        for c in q.calls(b):
            if c.callee not in GROW and c.callee != 'std::iter::Iterator::collect':
                continue
            L = b.cfg.loop_of(c.bb)
            if L is None:
                continue
            ng += 1
            cls, why = _c04.classify_loop(fx, b, L)
            ok = cls in ('memory', 'bounded', 'input-driven')
            ctx.inst('G', '%s %s' % (b.name.split('asefile::')[-1], c.callee.split('::')[-1]), ok, 'growth by one element per iteration of a loop that is %s (%s)'
                     % (cls, why[:90]), c.span, key=ctx.key(b.name, 'G', c.callee, '' if ok else cls), nontrivial=True)
    ctx.floor('growth sinks in loops', ng, 8)
    ctx.samples = [i for i in ctx.instances if i['rule'] == 'T'][:18]
