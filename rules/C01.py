"""C01 - decoded structure equals what the file encodes (structural clauses).

L1 layout: every decoder consumes the spec's byte layout (fields, widths, signedness, optional parts under the right
   flag bits, repeat counts from the right count fields) - path sets of the CFG vs tables/spec_layout.json.
L2 read->field: every stored attribute has exactly one origin: the read at the spec position, value-preserving.
L3 field->getter: every public accessor returns the stored field, value-preserving.
O1 file order (no reordering of layers/tags/slices/keys), O2 frame table, O3 chunk dispatch, O4 lookups/iteration.
"""
import q
import spec as SP
import layout
import effects
import common
import totality as T
import callgraph as CG
from q import res, is_param, is_param_path, field_path, strip_casts, show, alts, walk, expand

REORDER = ('sort', 'sort_by', 'sort_by_key', 'sort_unstable', 'sort_unstable_by', 'sort_unstable_by_key', 'reverse', 'swap',
           'swap_remove', 'insert', 'remove', 'dedup', 'dedup_by', 'dedup_by_key', 'retain', 'retain_mut', 'rev', 'rotate_left',
           'rotate_right', 'drain', 'truncate', 'pop', 'split_off')
ORDERED_FIELDS = ('layers', 'tags', 'slices', 'keys')

DISPATCH = {
    'ColorProfile': 'asefile::color_profile::parse_chunk', 'Palette': 'asefile::palette::parse_chunk',
    'Layer': 'asefile::layer::parse_chunk', 'Cel': 'asefile::cel::parse_chunk',
    'ExternalFiles': 'asefile::external_file::ExternalFile::parse_chunk', 'Tags': 'asefile::tags::parse_chunk',
    'Slice': 'asefile::slice::parse_chunk', 'UserData': 'asefile::user_data::parse_userdata_chunk',
    'OldPalette04': 'asefile::palette::parse_old_chunk_04', 'OldPalette11': 'asefile::palette::parse_old_chunk_11',
    'Tileset': 'asefile::tileset::Tileset::parse_chunk',
}


# kinds whose decoder is skipped on purpose under a condition checked elsewhere
CONDITIONAL_BY_DESIGN = {'OldPalette04': 'ignored once a palette is present (precedence rule, C11 P2)',
                         'OldPalette11': 'ignored once a palette is present (precedence rule, C11 P2)'}


def dispatch_always_decodes(ctx, rule, exempt=()):
    """every chunk of a decoded kind is handed to its decoder: inside the dispatch arm no non-error path reaches the end of the
    arm without passing through the decoder call (so the decoder's refusals apply to every chunk, in every frame)"""
    import C10 as _c10
    pf = ctx.anchor('asefile::parse::parse_frame')
    if pf is None:
        return
    arms = common.dispatch_arms(pf)
    if arms is None:
        ctx.fail(pf.name + '|%s|no-dispatch' % rule, 'no ChunkType dispatch found in parse_frame')
        return
    errb = q.error_blocks(pf)
    n = 0
    for kind, s, reg, sw in arms:
        if kind not in DISPATCH or kind in CONDITIONAL_BY_DESIGN or kind in exempt:
            continue
        decs = [c for c in q.calls(pf) if c.bb in reg and q.callee_name(c) == DISPATCH[kind]]
        if len(decs) != 1:
            continue        # reported by the dispatch rule
        tgt = decs[0].bb
        seen, work, leak = set(), [s], None
        while work:
            x = work.pop()
            if x in seen or x == tgt or x in errb or pf.blocks[x]['cleanup']:
                continue
            if x not in reg:
                leak = x
                break
            seen.add(x)
            work.extend(pf.cfg.succ[x])
        n += 1
        ctx.inst(rule, kind + '#always', leak is None, '%s chunk: %s' % (kind, 'every path through the arm calls %s' % DISPATCH[kind].split('asefile::')[-1]
                 if leak is None else 'some path leaves the arm WITHOUT decoding the chunk (its refusals and contents are skipped)'),
                 decs[0].span, key='%s|%s|%s|always' % (pf.name, rule, kind))
    ctx.floor('dispatch arms examined for unconditional decoding', n, 9 - len(exempt))


def framing_rejections(ctx, rule, bindings=None):
    """chunk framing accepts every conformant chunk (see the comment in the body)"""
    fx = ctx.fx
    if bindings is None:
        import rule as R
        import spec as _SP
        spec = _SP.load_spec()
        tmp = R.Ctx('tmp', fx, 'quick')
        tmp.root = getattr(ctx, 'root', None)
        bindings, _ = layout.check_layout(tmp, spec, 'asefile::parse::Chunk::read', spec['decoders']['asefile::parse::Chunk::read'], rule='tmp')
    # chunk framing accepts every conformant chunk: the only sizes rejected are those below the 6 byte chunk header and those
    # beyond what the frame still holds.  A tighter test (`<= 6`: seed C01-h, an upper cap, an alignment demand) makes a
    # well-formed file with such a chunk unloadable; what happens to a *malformed* size is C04/C16's business, not this rule's
    cr = ctx.anchor('asefile::parse::Chunk::read')
    if cr is not None:
        view = fx.inlined_view(cr.name, ['asefile::parse::check_chunk_bytes']) or cr
        HEADER = 6
        nrej = 0

        def is_size(t):
            t = layout.unwrap_value(q.expand(t, fx, 2, layout.noinl(fx)))[0]
            return layout.is_read_term(t) and bindings.get(t[3], ('', ''))[1] == 'chunk_size'
        for sw in q.switches_on(view, lambda d: True):
            tm = view.blocks[sw]['term']
            if tm['ty'] != 'bool':
                continue
            cond = q.switch_cond(view, sw)
            succs = view.cfg.succ[sw]
            errs = [s_ for s_ in succs if q.arm_always_err(view, s_)]
            if len(errs) != 1 or len(succs) != 2:
                continue
            vals = q.edge_value(view, sw, errs[0])
            hs = q.holds_both(cond, q.bool_outcome(view, sw, vals if isinstance(vals, list) else [vals]))
            hs = [(op, l, r_) for op, l, r_ in hs if is_size(l)]
            if not hs:
                if any(is_size(x) for x in walk(cond) if isinstance(x, tuple) and x and x[0] in ('call', 'cast', 'field')):
                    nrej += 1
                    ctx.inst(rule, 'framing#unknown-rejection', False, 'Chunk::read rejects on a condition over the chunk size that is neither '
                             '`size < 6` nor `size > bytes left`: %s' % show(cond)[:100], tm.get('span'), key=cr.name + '|%s|framing|unknown' % rule)
                continue
            nrej += 1
            op, l, r_ = hs[0]
            k = q.const_fold(r_)
            if k is not None:
                below = {'Lt': k, 'Le': k + 1}.get(op)
                ok = below == HEADER
                what = 'sizes below %s' % below if below is not None else 'sizes %s %s' % (op, k)
                ctx.inst(rule, 'framing#min-size', ok, 'Chunk::read rejects %s; a conformant chunk may be as small as its %d byte header, so exactly '
                         'the sizes below %d may be rejected' % (what, HEADER, HEADER), tm.get('span'), key=cr.name + '|%s|framing|min' % rule)
            else:
                # against the bytes the frame still holds: only "more than is left" may be rejected
                avail = any(isinstance(x, tuple) and len(x) == 3 and x[0] == 'param' and view.locals[x[1]]['ty'].replace(' ', '') in ('&muti64', 'i64')
                            for x in walk(r_)) and not any(x[0] in ('bin', 'const') for x in walk(r_) if isinstance(x, tuple) and x)
                ok = op == 'Gt' and avail
                ctx.inst(rule, 'framing#available', ok, 'Chunk::read rejects size %s %s; only size > bytes left in the frame may be rejected'
                         % (op, show(r_)[:60]), tm.get('span'), key=cr.name + '|%s|framing|avail' % rule)
        ctx.floor('framing rejections on the chunk size', nrej, 2)


def no_reordering(ctx, rule, elem_types=('layer::LayerData', 'tags::Tag', 'slice::Slice', 'slice::SliceKey', 'parse::Chunk')):
    """no sort / reverse / insert / remove / rev .. anywhere in the crate on the collections whose order is the file's order"""
    fx = ctx.fx
    nre = 0
    scanned = 0
    for b in fx.bodies:
        if b.kind == 'promoted':
            continue
        for c in q.calls(b):
            scanned += 1
            nm = c.callee.split('::')[-1]
            if nm in REORDER and (c.callee.startswith('std::vec::Vec::') or c.callee.startswith('core::slice::')
                                  or c.callee.startswith('std::iter::Iterator::') or c.callee.startswith('std::slice::')):
                at = q.arg_terms(c)
                names = set()
                for x in walk(at[0]):
                    if isinstance(x, tuple) and x[0] == 'field':
                        names.add(x[2])
                hit = (names & set(ORDERED_FIELDS)) if len(elem_types) >= 4 else set()
                aty = c.args[0]['p']['ty'] if c.args and c.args[0]['k'] in ('copy', 'move') else ''
                for et in elem_types:
                    if ('<%s>' % et) in aty or ('[%s]' % et) in aty or ('<%s,' % et) in aty:
                        hit = hit | {et}
                if hit:
                    nre += 1
                    ctx.inst(rule, b.name, False, '%s is applied to %s: file order of %s is no longer preserved'
                             % (c.callee, show(at[0])[:100], sorted(hit)), c.span, key=ctx.key(b.name, rule, c.callee, ''))
    ctx.inst(rule, 'crate', nre == 0, 'no sort/reverse/insert/remove/rev/... on layers, tags, slices or slice keys in %d call sites '
             'scanned' % scanned, None, key='crate|%s|none' % rule)


def frame_duration_store(ctx, rule, bindings=None):
    """every successfully parsed frame stores its own header duration at its own index - unconditionally: whatever the file header's
    deprecated `speed` field holds can then never show (seed C07-i kept the default for frames whose duration field is 0)"""
    fx = ctx.fx
    if bindings is None:
        import rule as R
        import spec as _SP
        spec = _SP.load_spec()
        tmp = R.Ctx('tmp', fx, 'quick')
        tmp.root = getattr(ctx, 'root', None)
        bindings, _ = layout.check_layout(tmp, spec, 'asefile::parse::parse_frame', spec['decoders']['asefile::parse::parse_frame'], rule='tmp')
    pf = ctx.anchor('asefile::parse::parse_frame')
    if pf is not None:
        E = effects.get(fx)
        ws = [w for w in E.writes(pf) if effects.root_of(w[0])[1][:1] == ['frame_times'] and w[3][0] == pf.name]
        ctx.floor('frame_times writes in parse_frame', len(ws), 1)
        for loc, val, kind, site in ws:
            idx = None
            for x in walk(loc):
                if x[0] == 'call' and x[1] in effects.LOC_THROUGH:
                    idx = strip_casts(x[2][1])
            ok_i = idx is not None and is_param(idx) and pf.locals[idx[1]]['ty'] == 'u16'
            v, bad = layout.unwrap_value(expand(val, fx, 3, layout.noinl(fx)))
            ok_v = layout.is_read_term(v) and bindings.get(v[3], ('', ''))[1] == 'duration' and not bad
            always = q.must_pass(pf, 0, site[1])
            ctx.inst(rule, 'frame_times#store', ok_i and ok_v and always, 'frame_times[%s] = %s, %s; must be frame_times[frame_id] = frame header duration on every successful path'
                     % (show(idx), show(val), 'unconditionally' if always else 'ONLY CONDITIONALLY'), site[2], key=pf.name + '|%s|store' % rule)


def tables_accumulate(ctx, rule):
    """the tables that collect entities across chunks (layers, slices, external files, tilesets, the cel grid) are only ever grown
    while frames are parsed: push / insert / resize, never a whole-field assignment that would drop what earlier chunks put there
    (seed C01-q rebuilt the external-file map from each chunk's entry list "in one go": only the last chunk's files survived)"""
    fx = ctx.fx
    pf = ctx.anchor('asefile::parse::parse_frame')
    if pf is None:
        return
    E = effects.get(fx)
    pis = [i for i in range(1, pf.arg_count + 1) if pf.locals[i]['ty'].replace(' ', '') == '&mutparse::ParseInfo']
    if not pis:
        ctx.fail(pf.name + '|%s|no-parse-info' % rule, 'parse_frame has no &mut ParseInfo parameter')
        return
    grown = {}
    bad = []
    for w in E.writes(pf):
        root, path = effects.root_of(w[0])
        if root != pis[0] or not path or path[0] not in ('layers', 'slices', 'external_files', 'tilesets', 'framedata'):
            continue
        grown.setdefault(path[0], set()).add(w[2])
        if w[2] == 'assign' and '[]' not in path and len(path) <= (2 if path[0] == 'framedata' else 1):
            bad.append((path, w[3]))
    for path, site in bad:
        ctx.inst(rule, 'ParseInfo.%s' % '.'.join(path), False, 'ParseInfo.%s is reassigned as a whole in %s while chunks are parsed: entities of earlier chunks are dropped'
                 % ('.'.join(path), site[0].split('::')[-1]), site[2], key=ctx.key(pf.name, rule, 'accumulate', path[0]))
    ctx.inst(rule, 'accumulating tables', not bad, 'tables written while parsing: %s; none is reassigned as a whole' % {k: sorted(v) for k, v in sorted(grown.items())},
             pf.span, key=pf.name + '|%s|accumulate' % rule)
    ctx.floor('accumulating tables written by parse_frame', len(grown), 5)


def reader_primitives(ctx, rule):
    """byte / word / short / dword / long are single exact little-endian reads of their width on self.input, returned unchanged (so they
    fail - not return a default - when the input ends: seed C12-t)"""
    fx = ctx.fx
    # ---------------- L0: the reader primitives themselves (width, signedness, endianness, STRING = WORD length + bytes)
    PRIM = {'byte': ('read_u8', None), 'word': ('read_u16', 'LittleEndian'), 'short': ('read_i16', 'LittleEndian'),
            'dword': ('read_u32', 'LittleEndian'), 'long': ('read_i32', 'LittleEndian')}
    for k, (bo, endian) in PRIM.items():
        pb = ctx.anchor(common.READER + k, 'reader primitive')
        if pb is None:
            continue
        cs = [c for c in q.calls(pb) if c.callee.startswith('byteorder::ReadBytesExt::')]
        ok = len(cs) == 1 and cs[0].callee.endswith('::' + bo) and is_param_path(q.arg_terms(cs[0])[0], 1, ['input']) and \
            (endian is None or any(endian in a for a in cs[0].fn.get('args', [])))
        t = res(pb).ok_ret()
        ok = ok and t[0] == 'call' and t[1].endswith(bo)
        if not ok and not cs:
            # second spelling, without the byteorder crate: one read_exact into a [u8; N] on self.input, then T::from_le_bytes of that
            # buffer (N = size of T by typing), for byte() element 0 of a [u8; 1]
            ty_ = bo[len('read_'):]
            rx = [c for c in q.calls(pb) if q.callee_name(c) == 'std::io::Read::read_exact']
            ok2 = len(rx) == 1 and is_param_path(q.arg_terms(rx[0])[0], 1, ['input'])
            if ok2:
                buf = q.arg_terms(rx[0])[1]
                if ty_ == 'u8':
                    ok2 = t[0] == 'index' and t[1] == buf and q.const_val(t[2]) == 0 and any(l_['ty'] == '[u8; 1]' for l_ in pb.locals)
                else:
                    want_fn = 'core::num::<impl %s>::from_le_bytes' % ty_
                    fns = [o_['fn'].get('orig') for c_ in q.calls(pb) for o_ in c_.args if o_.get('k') == 'const' and isinstance(o_.get('fn'), dict)] + \
                          [(c_.fn or {}).get('orig') for c_ in q.calls(pb)]
                    conv = [f_ for f_ in fns if f_ and f_.endswith('_bytes')]
                    ok2 = conv == [want_fn] and t[0] == 'call' and t[1].endswith('from_le_bytes') and len(t[2]) == 1 and t[2][0] == buf
            ok = ok2
            ctx.inst(rule, 'reader.' + k, ok, '%s() = %s of one read_exact on self.input; must be %s::from_le_bytes of exactly that buffer' % (k, show(t)[:80], ty_),
                     pb.span, key=pb.name + '|%s' % rule)
            continue
        ctx.inst(rule, 'reader.' + k, ok, '%s() = %s%s on self.input, returned unchanged; must be %s %s' % (
            k, [c.callee.split('::')[-1] for c in cs], [a for c in cs for a in c.fn.get('args', []) if 'Endian' in a], bo, endian or ''),
            pb.span, key=pb.name + '|%s' % rule)


def reader_string(ctx, rule):
    """STRING = little-endian WORD length, exactly that many bytes, String::from_utf8 of them as read"""
    fx = ctx.fx
    sb_ = ctx.anchor(common.READER + 'string', 'reader primitive')
    if sb_ is not None:
        # the length is the little-endian WORD, read directly or through the sibling primitive word() (itself checked above)
        cs = [c for c in q.calls(sb_) if c.callee.startswith(('byteorder::', 'std::io::Read::')) or q.callee_name(c).startswith(common.READER)]
        names = [q.callee_name(c).split('::')[-1] for c in cs]
        ok = (names == ['read_u16', 'read_exact'] and any('LittleEndian' in a for a in cs[0].fn.get('args', []))) or \
            (names == ['word', 'read_exact'] and is_param(q.arg_terms(cs[0])[0], 1))
        if ok:
            buf = q.arg_terms(cs[1])[1]
            ln = buf[2][1] if buf[0] == 'call' and buf[1].endswith('from_elem') else None
            ok = ln is not None and strip_casts(ln)[0] == 'call' and strip_casts(ln)[3] == (sb_.name, cs[0].bb) and \
                all(layout.value_preserving(a, b_) for a, b_ in q.casts_on(ln)[0])
            t = res(sb_).ok_ret()
            ok = ok and t[0] == 'call' and t[1] == 'std::string::String::from_utf8' and t[2][0] == buf
            # .. of them as read: nothing else touches the buffer between the read and the decoding (seeds C01-r / C10-r stripped
            # trailing NUL bytes "for exporters that count the terminator"), so no loop and no call besides the plumbing of these three
            plumbing = {'std::ops::DerefMut::deref_mut', 'std::ops::Deref::deref', 'std::ops::FromResidual::from_residual', 'std::ops::Try::branch',
                        'std::vec::from_elem', 'std::string::String::from_utf8', 'std::convert::From::from', 'std::convert::Into::into',
                        'std::result::Result::map_err', 'std::result::Result::map'}
            others = sorted({q.callee_name(c) for c in q.calls(sb_) if c not in cs and q.callee_name(c) not in plumbing
                             and not q.callee_name(c).startswith('std::convert::From::from')})
            ok = ok and not others and not sb_.cfg.loops
        ctx.inst(rule, 'reader.string', ok, 'string() reads %s; must be a little-endian WORD length, exactly that many bytes, String::from_utf8 of them'
                 % names, sb_.span, key=sb_.name + '|%s' % rule)


def run(ctx):
    fx = ctx.fx
    spec = SP.load_spec()
    ctx.rules = ['L0 reader primitives', 'L1 layout', 'L2 read->field', 'L3 field->getter', 'O1 no reordering', 'O2 frame table', 'O3 chunk dispatch',
                 'O4 lookups and iteration']
    ctx.assumptions.append('tables/spec_layout.json transcribes the Aseprite file-format specification correctly')
    ctx.explanation = (
        'Static layout check. For each of the 14 decoder bodies the set of non-error CFG paths is enumerated (loops unrolled '
        '0/1/2 times, reader-taking helpers inlined, nothing executed); each path yields its sequence of reader-primitive '
        'calls, normalised to byte layouts (unused reads merge into skipped bytes), labelled with the decisions it took on '
        'file fields (flag bits, matched values, loop counts). The same labelled sequences are generated from the '
        'hand-transcribed spec table and the two sets must be equal. A provenance analysis then shows every stored struct '
        'field has exactly one origin - the read bound to the like-named spec field - through value-preserving casts only, '
        'and every public getter returns that stored field. Further: no call in the crate reorders layers/tags/slices/keys, '
        'frame durations are stored/read at the frame\'s own index, every chunk code reaches the decoder of its kind on its '
        'own payload, name lookups scan forward. Decides widths, signedness, order, optionality and wiring for all inputs; '
        'does not decide that values survive std (UTF-8 decoding) or HashMap contents.')
    reader_primitives(ctx, 'L0')
    reader_string(ctx, 'L0')
    sk = ctx.anchor(common.READER + 'skip_reserved', 'reader primitive')
    if sk is not None:
        cs = [c for c in q.calls(sk) if c.callee == 'std::io::Read::read_exact']
        ok = len(cs) == 1
        if ok:
            buf = q.arg_terms(cs[0])[1]
            ok = buf[0] == 'call' and buf[1].endswith('from_elem') and is_param(buf[2][1], 2)
        ctx.inst('L0', 'reader.skip_reserved', ok, 'skip_reserved(n) consumes exactly n bytes with read_exact', sk.span, key=sk.name + '|L0')

    bindings = {}
    spans = {}
    for fn, sname in spec['decoders'].items():
        bnd, sp_ = layout.check_layout(ctx, spec, fn, sname)
        for k, v in bnd.items():
            bindings.setdefault(k, v)
        spans.update(sp_)
    ctx.floor('decoders compared', len(spec['decoders']), 14)
    ctx.floor('read sites bound to spec fields', len(bindings), 100)
    nst = 0
    ngt = 0
    done = set()
    for fn, sname in spec['decoders'].items():
        if fn == 'asefile::palette::parse_old_chunk_11':
            pass
        nst += layout.check_stores(ctx, spec, fn, sname, bindings)
        if sname not in done:
            ngt += layout.check_getters(ctx, spec, sname)
            done.add(sname)
    ctx.floor('stored-field bindings', nst, 55)
    layout.tile_words(ctx, 'L2')
    ctx.floor('getter bindings', ngt, 23)

    # ---------------- O1: nothing reorders the ordered collections
    no_reordering(ctx, 'O1')
    # how the collections are filled: push / collect in decode order
    tg = ctx.anchor('asefile::tags::parse_chunk')
    if tg is not None:
        ps = q.calls(tg, 'std::vec::Vec::push')
        ctx.floor('tag pushes', len(ps), 1)
        for c in ps:
            L = tg.cfg.loop_of(c.bb)
            ok = L is not None
            ctx.inst('O1', 'tags#push', ok, 'tags are appended with Vec::push inside the decode loop', c.span, key=tg.name + '|O1|push')
    sl = ctx.anchor('asefile::slice::parse_chunk')
    if sl is not None:
        t = expand(res(sl).ok_ret(), fx, 1, layout.NOINL)
        keys = dict(t[3]).get('keys') if t[0] == 'agg' else None
        ok = keys is not None and keys[0] == 'call' and keys[1] == 'std::iter::Iterator::collect' and \
            keys[2][0][0] == 'call' and keys[2][0][1] == 'std::iter::Iterator::map' and \
            any(x[0] == 'agg' and x[1] == 'std::ops::Range' for x in walk(keys[2][0][2][0]))
        if not ok and keys is not None and keys[0] == 'call' and keys[1] in ('std::vec::Vec::new', 'std::vec::Vec::with_capacity'):
            # second spelling: an empty Vec filled with push() inside the ascending decode loop, one push per iteration
            ps = [c for c in q.calls(sl, 'std::vec::Vec::push') if q.arg_terms(c)[0] == keys]
            okp = len(ps) == 1
            if okp:
                L = sl.cfg.loop_of(ps[0].bb)
                it = None
                if L is not None:
                    for bi in sorted(L['body']):
                        cc = sl.call_at(bi)
                        if cc is not None and q.callee_name(cc) == 'std::iter::Iterator::next':
                            it = q.unwrap_into_iter(q.arg_terms(cc)[0])
                okp = L is not None and it is not None and it[0] == 'agg' and it[1] == 'std::ops::Range' and \
                    all(sl.cfg.dominates(ps[0].bb, x) for x, _ in L['back_edges']) and \
                    any(x[0] == 'call' and x[1].endswith('SliceKey::read') for x in walk(q.arg_terms(ps[0])[1]))
            ok = okp
        ctx.inst('O1', 'slice keys', ok, 'Slice.keys = %s (must be collect() of a forward range map)' % show(keys)[:120], sl.span,
                 key=sl.name + '|O1|keys')

    # ---------------- O2: frame table
    frame_duration_store(ctx, 'O2', bindings)
    pf = fx.body('asefile::parse::parse_frame')
    ra = ctx.anchor('asefile::parse::read_aseprite')
    if ra is not None:
        cs = q.calls(ra, 'asefile::parse::parse_frame')
        ctx.floor('parse_frame calls', len(cs), 1)
        for c in cs:
            at = [expand(x, fx, 3, layout.noinl(fx)) for x in q.arg_terms(c)]
            fi = at[1]
            ok = fi[0] == 'next' and any(x[0] == 'agg' and x[1] == 'std::ops::Range' and q.const_val(dict(x[3])['start']) == 0
                                         and layout.is_read_term(dict(x[3])['end'])
                                         and bindings.get(dict(x[3])['end'][3], ('', ''))[1] == 'frames' for x in walk(fi))
            ctx.inst('O2', 'frame loop', ok, 'parse_frame is called with frame id %s; must be the loop variable of 0..num_frames'
                     % show(fi)[:120], c.span, key=ra.name + '|O2|loop')
        # frame_times default + length
        pn = ctx.anchor('asefile::parse::ParseInfo::new')
        if pn is not None:
            for bb, st, t in q.stmt_aggs(pn, 'asefile::parse::ParseInfo'):
                ft = dict(t[3]).get('frame_times')
                ok = ft is not None and ft[0] == 'call' and ft[1].endswith('from_elem') and is_param(ft[2][0], 2) \
                    and is_param(strip_casts(ft[2][1]), 1)
                ctx.inst('O2', 'frame_times#init', ok, 'frame_times = %s; must be vec![default_frame_time; num_frames]' % show(ft),
                         st['span'], key=pn.name + '|O2|init')
            for c in q.calls(ra, pn.name):
                at = [expand(x, fx, 3, layout.noinl(fx)) for x in q.arg_terms(c)]
                ok = all(layout.is_read_term(x) for x in at) and bindings.get(at[0][3], ('', ''))[1] == 'frames' \
                    and bindings.get(at[1][3], ('', ''))[1] == 'speed'
                ctx.inst('O2', 'ParseInfo::new args', ok, 'ParseInfo::new(%s, %s); must be (header frames, header speed)'
                         % (show(at[0]), show(at[1])), c.span, key=ra.name + '|O2|new-args')
    fd = ctx.anchor('asefile::file::Frame::duration')
    if fd is not None:
        t = res(fd).ret()
        inner, bad = layout.unwrap_value(t)
        ok = inner[0] == 'call' and inner[1] == 'std::ops::Index::index' and is_param_path(inner[2][0], 1, ['file', 'frame_times']) \
            and is_param_path(strip_casts(inner[2][1]), 1, ['index']) and not bad
        ctx.inst('O2', 'Frame::duration', ok, 'returns %s; must be file.frame_times[self.index]' % show(t), fd.span, key=fd.name + '|O2')
    fr = ctx.anchor('asefile::file::AsepriteFile::frame')
    if fr is not None:
        for bb, st, t in q.stmt_aggs(fr, 'asefile::file::Frame'):
            ok = is_param(dict(t[3]).get('file'), 1) and is_param(dict(t[3]).get('index'), 2)
            ctx.inst('O2', 'AsepriteFile::frame', ok, 'Frame{file: %s, index: %s}; must be (self, index)'
                     % (show(dict(t[3]).get('file')), show(dict(t[3]).get('index'))), st['span'], key=fr.name + '|O2')

    # ---------------- O3: chunk dispatch: each kind -> its decoder, on the chunk's own payload
    import C07
    C07.chunk_count_selection(ctx, 'O3')
    layout.loop_counts_exact(ctx, spec, 'L1')
    # (Tags: the decoded value is stored for frame 0 only, by design - whether later Tags chunks are decoded at all does not
    # change any reported value; C15 demands it for the refusal)
    dispatch_always_decodes(ctx, 'O3', exempt=('Tags',))
    if pf is not None:
        import C10 as _c10
        arms = common.dispatch_arms(pf)
        if arms is not None:
            n = 0
            for kind, s, reg, sw in arms:
                d = q.switch_cond(pf, sw)
                if kind not in DISPATCH:
                    continue
                decs = [c for c in q.calls(pf) if c.bb in reg and q.callee_name(c) in DISPATCH.values()]
                ok = len(decs) == 1 and q.callee_name(decs[0]) == DISPATCH[kind]
                detail = [q.callee_name(c) for c in decs]
                if ok:
                    a0 = q.arg_terms(decs[0])[0]
                    base, ns = field_path(a0)
                    # same chunk object as the one whose type is matched
                    cbase, cns = field_path(d[1])
                    ok = ns[-1:] == ['data'] and cns[-1:] == ['chunk_type'] and base == cbase
                    detail.append('payload=%s' % show(a0)[:80])
                n += 1
                ctx.inst('O3', kind, ok, '%s chunk -> %s; must call %s on this chunk\'s own data' % (kind, detail, DISPATCH[kind]),
                         pf.blocks[s]['term'].get('span'), key='%s|O3|%s' % (pf.name, kind))
            ctx.floor('decoded chunk kinds dispatched', n, 11)
        else:
            ctx.fail(pf.name + '|O3|no-dispatch', 'no ChunkType dispatch found in parse_frame')
    cr = ctx.anchor('asefile::parse::Chunk::read')
    if cr is not None:
        for bb, st, t in q.stmt_aggs(cr, 'asefile::parse::Chunk'):
            f = dict(t[3])
            ct = f.get('chunk_type')
            ok = ct is not None and ct[0] == 'call' and ct[1] == 'asefile::parse::parse_chunk_type' and layout.is_read_term(ct[2][0]) \
                and bindings.get(ct[2][0][3], ('', ''))[1] == 'chunk_type'
            if not ok and ct is not None and fx.body('asefile::parse::parse_chunk_type') is None and \
                    all(a[0] == 'agg' and a[2] is not None and (a[1] or '').endswith('ChunkType') for a in alts(ct)):
                # the code -> kind table written inline (or in a renamed helper that was inlined): the variants are chosen by a
                # match on the chunk header's type word (the table itself is C15's rule T1)
                for sw in q.switches_on(cr, lambda d: True):
                    inner_, bad_ = layout.unwrap_value(q.switch_cond(cr, sw))
                    if layout.is_read_term(inner_) and bindings.get(inner_[3], ('', ''))[1] == 'chunk_type' and not bad_:
                        ok = True
            ctx.inst('O3', 'Chunk.chunk_type', ok, 'Chunk.chunk_type = %s; must be parse_chunk_type(chunk header type word)' % show(ct),
                     st['span'], key=cr.name + '|O3|type')
            dt = f.get('data')
            rx = q.calls(cr, 'asefile::reader::AseReader::read_exact')
            rv_ = q.calls(cr, 'asefile::reader::AseReader::read_vec')
            ok = dt is not None and ((len(rx) == 1 and q.arg_terms(rx[0])[1] == dt) or
                                     (len(rv_) == 1 and dt[0] == 'call' and dt[3] == (cr.name, rv_[0].bb)))
            ctx.inst('O3', 'Chunk.data', ok, 'Chunk.data = %s; must be the payload buffer read for this chunk' % show(dt)[:100], st['span'],
                     key=cr.name + '|O3|data')

    framing_rejections(ctx, 'O3', bindings)

    # palette entries are among the stored attributes: ids of new-format entries, cumulative packet offsets and component scaling of
    # the two legacy chunk kinds (C11's decoder rules, run here as L2; seed C01-j advanced the legacy offset by the packet length)
    import C11 as _c11r
    import rule as _R
    _c11r.decoders(_R.View(ctx, {'L1': 'L1', 'P1': 'L2', 'P2': 'L2', 'P3': 'L2'}))

    # every chunk kind of the format is known to the dispatch: the code -> kind table equals the spec's 14 codes, each producing its own
    # kind, unknown codes refused (a kind dropped from the table - seed C01-l removed the deprecated Mask chunk - makes a conformant
    # file with such a chunk unloadable)
    import C15 as _c15m
    import rule as _R2
    _c15m.matchers(_R2.View(ctx, {'T1': 'O3', 'T2': 'O3', 'T3': 'O3'}), bindings, only=('asefile::parse::parse_chunk_type',))

    import C09 as _c09p
    import rule as _R9
    _c09p.parent_search(_R9.View(ctx, {'V4': 'O1', 'V5': 'O1'}))     # every legal layer forest is accepted: the parent of a layer is ANY nearest shallower one (seed C01-m wanted level - 1 exactly)
    common.arm_state_independence(ctx, 'O3')
    tables_accumulate(ctx, 'O3')
    # a legal header / a legal forest must load: the pixel-ratio refusal (a zero ratio byte means 1:1, seed C01-s) and the layer-count
    # cap (65536 layers are legal, seed C01-t) are judged by the rules that own them, under this property's O3
    import C15 as _c15o
    import C09 as _c09o
    import rule as _Ro
    _c15o.pixel_ratio(_Ro.View(ctx, {'T4': 'O3'}))
    _c09o.layer_cap(_Ro.View(ctx, {'V8': 'O3'}))
    common.rejection_inventory(ctx, 'O3')

    # ---------------- O4 lookups / iteration
    lb = ctx.anchor('asefile::file::AsepriteFile::layer_by_name')
    if lb is not None:
        cs = q.calls(lb, 'asefile::file::AsepriteFile::layer')
        t_ = res(lb).ret()
        if not cs and t_[0] == 'call' and t_[1] == 'std::iter::Iterator::find' and len(alts(t_)) == 1:
            # second spelling: self.layers().find(..) - the forward iterator over all layers (LayersIter is judged below)
            src = t_[2][0]
            ok = src[0] == 'call' and src[1] == 'asefile::file::AsepriteFile::layers' and is_param(src[2][0], 1)
            ctx.inst('O4', 'layer_by_name', ok, 'returns %s; must scan self.layers() forward with find(..)' % show(t_)[:100], lb.span, key=lb.name + '|O4')
        else:
            ctx.floor('layer() calls in layer_by_name', len(cs), 1)
        for c in cs:
            it = q.arg_terms(c)[1]
            rng = [x for x in walk(it) if x[0] == 'agg' and x[1] == 'std::ops::Range']
            ok = it[0] == 'next' and len(rng) == 1 and q.const_val(dict(rng[0][3])['start']) == 0 and \
                not any(x[0] == 'call' and x[1].split('::')[-1] in ('rev', 'skip', 'step_by') for x in walk(it))
            ctx.inst('O4', 'layer_by_name', ok, 'scans layer ids %s (must be the ascending range 0..num_layers, no rev/skip)' % show(it)[:100],
                     c.span, key=lb.name + '|O4')
    tb = ctx.anchor('asefile::file::AsepriteFile::tag_by_name')
    if tb is not None:
        t = res(tb).ret()
        ok = t[0] == 'call' and t[1] == 'std::iter::Iterator::find' and t[2][0][0] == 'call' and t[2][0][1] == 'core::slice::iter' \
            and is_param_path(t[2][0][2][0], 1, ['tags'])
        ctx.inst('O4', 'tag_by_name', ok, 'returns %s; must be self.tags.iter().find(..) (forward scan)' % show(t)[:120], tb.span, key=tb.name + '|O4')
    for fn, fld in (('asefile::file::AsepriteFile::get_tag', 'tags'),):
        gb = ctx.anchor(fn)
        if gb is not None:
            t = res(gb).ret()
            ok = t[0] == 'call' and t[1] == 'core::slice::get' and is_param_path(t[2][0], 1, [fld]) and is_param(strip_casts(t[2][1]), 2)
            if not ok:
                # second spelling: `if id >= self.num_tags() { None } else { Some(self.tag(id)) }` - None exactly at and beyond the count
                # (a `>` there panics for id == count: seed C01-n), Some(the strict accessor of the same id) below it
                def is_cnt(x):
                    x = strip_casts(x)
                    return (x[0] == 'call' and x[1] == 'asefile::file::AsepriteFile::num_' + fld and is_param(x[2][0], 1)) or \
                        (x[0] == 'call' and x[1] in T.LEN and is_param_path(x[2][0], 1, [fld]))
                ds = [(t_, bb_) for (l_, pj_, t_, bb_, sp_) in q.defs_in(gb, gb.cfg.reach) if l_ == 0 and not pj_]
                none_ok = some_ok = 0
                for t_, bb_ in ds:
                    facts = q.facts_at(gb, bb_)
                    if t_[0] == 'agg' and t_[2] == 'None':
                        none_ok += any(op == 'Ge' and is_param(l_, 2) and is_cnt(r_) for op, l_, r_ in facts)
                    elif t_[0] == 'agg' and t_[2] == 'Some':
                        pl = dict(t_[3])['0']
                        strict = pl[0] == 'call' and pl[1] == 'asefile::file::AsepriteFile::' + fld[:-1] and is_param(pl[2][0], 1) and is_param(strip_casts(pl[2][1]), 2)
                        some_ok += strict and any(op == 'Lt' and is_param(l_, 2) and is_cnt(r_) for op, l_, r_ in facts)
                ok = len(ds) == 2 and none_ok == 1 and some_ok == 1
            ctx.inst('O4', fn.split('::')[-1], ok, 'returns %s; must be self.%s.get(id)' % (show(t)[:100], fld), gb.span, key=fn + '|O4')
    li = ctx.anchor('asefile::<file::LayersIter as std::iter::Iterator>::next')
    if li is not None:
        E = effects.get(fx)
        ws = [w for w in E.writes(li) if effects.root_of(w[0]) == (1, ['next'])]
        ctx.floor('LayersIter.next stores', len(ws), 1)
        for loc, val, kind, site in ws:
            ok = val[0] == 'bin' and val[1] == 'Add' and is_param_path(val[2], 1, ['next']) and q.const_val(val[3]) == 1
            guarded = any(op == 'Lt' and is_param_path(l_, 1, ['next']) and r_[0] == 'call' and r_[1].endswith('num_layers')
                          for op, l_, r_ in q.facts_at(li, site[1]))
            ctx.inst('O4', 'LayersIter::next', ok and guarded, 'next := %s %s; must be next + 1 under next < num_layers'
                     % (show(val), 'under the bound test' if guarded else 'NOT under the bound test'), site[2], key=li.name + '|O4')
        for bb, st, t in q.stmt_aggs(li, 'asefile::layer::Layer') + [(None, None, x) for x in []]:
            pass
        ls = q.calls(li, 'asefile::file::AsepriteFile::layer')
        for c in ls:
            ok = is_param_path(q.arg_terms(c)[1], 1, ['next'])
            ctx.inst('O4', 'LayersIter::next#item', ok, 'yields layer(%s); must be layer(self.next)' % show(q.arg_terms(c)[1]), c.span,
                     key=li.name + '|O4|item')
        # the adapter methods of Iterator (skip, step_by, nth, zip ..) are std's, built on next(): the impl overrides nothing that moves
        # the cursor.  An own `nth`/`advance_by`/`fold`.. is a second cursor rule that has to agree with next() (seed C01-i: an `nth`
        # that jumps to the absolute index); a `size_hint` may be added only if it never writes the cursor
        prefix = li.name[:-len('next')]
        for ob in fx.bodies:
            if ob.kind == 'promoted' or not ob.name.startswith(prefix) or ob.name == li.name or '{closure' in ob.name:
                continue
            meth = ob.name[len(prefix):]
            wr = [w for w in E.writes(ob) if effects.root_of(w[0])[0] == 1]
            calls_next = bool(q.calls(ob, li.name))
            ok = meth == 'size_hint' and not wr and not calls_next
            ctx.inst('O4', 'LayersIter::' + meth, ok, 'impl Iterator for LayersIter overrides %s%s; only next() (and a read-only size_hint) may be defined, '
                     'everything else must be the std adapter built on next()' % (meth, ' and moves the cursor there' if wr or calls_next else ''), ob.span,
                     key=ob.name + '|O4|override')
    nl = ctx.anchor('asefile::file::AsepriteFile::num_layers')
    if nl is not None:
        t = res(nl).ret()
        inner, bad = layout.unwrap_value(t) if t[0] == 'cast' else (t, [])
        inner = strip_casts(t)
        ok = inner[0] == 'call' and inner[1] == 'std::vec::Vec::len' and is_param_path(inner[2][0], 1, ['layers', 'layers'])
        ctx.inst('O4', 'num_layers', ok, 'returns %s; must be self.layers.layers.len()' % show(t), nl.span, key=nl.name + '|O4')
    nt = ctx.anchor('asefile::file::AsepriteFile::num_tags')
    if nt is not None:
        inner = strip_casts(res(nt).ret())
        ok = inner[0] == 'call' and inner[1] == 'std::vec::Vec::len' and is_param_path(inner[2][0], 1, ['tags'])
        ctx.inst('O4', 'num_tags', ok, 'returns %s; must be self.tags.len()' % show(inner), nt.span, key=nt.name + '|O4')
    ld = ctx.anchor('asefile::layer::Layer::data')
    if ld is not None:
        t = expand(res(ld).ret(), fx, 1)
        ok = t[0] == 'call' and t[1] == 'std::ops::Index::index' and is_param_path(t[2][0], 1, ['file', 'layers', 'layers']) \
            and is_param_path(strip_casts(t[2][1]), 1, ['layer_id'])
        ctx.inst('O4', 'Layer::data', ok, 'Layer::data = %s; must be file.layers.layers[self.layer_id]' % show(t), ld.span, key=ld.name + '|O4')
    ctx.extra['read_sites_bound'] = len(bindings)
    ctx.samples = [i for i in ctx.instances if i['rule'] in ('L1', 'L2', 'L3')][:18]
