"""C07 - neutral encoding choices do not change the result: non-interference of the ignorable parts of the encoding."""
import q
import spec as SP
import layout
import schedule
import effects
import common
import callgraph as CG
import render
import C15 as _c15
import C11 as _c11
import C10 as _c10
from q import res, is_param, is_param_path, field_path, strip_casts, show, alts, walk, expand

PX = 'asefile::pixel::'


def run(ctx):
    fx = ctx.fx
    spec = SP.load_spec()
    S = schedule.get(fx)
    ctx.rules = ['N1 ignorable fields are dead', 'N2 chunk-local buffers', 'N3 ignorable chunk kinds', 'N4 chunk-count selection',
                 'N5 pixel ratio', 'N6 trailing bytes', 'N7 palette precedence', 'N8 raw/zlib siblings', 'N9 cel order']
    ctx.assumptions.append('zlib level independence is flate2\'s contract (not analysed)')
    ctx.explanation = (
        'Non-interference is decided statically: the ignorable parts of the encoding are shown not to flow into anything the API '
        'reports. (1) every read the spec table marks ignored is consumed (layout equality) and its value has no use at all; (2) every '
        'chunk decoder takes only the byte slice of the chunk being dispatched and builds its own reader on it, the chunk buffer has '
        'exactly chunk_size - 6 bytes, so bytes a decoder does not consume cannot shift anything; (3) cel-extra/mask/path arms write '
        'no parser state and the colour-profile arm writes only a field nobody reads; (4) the chunk count is the new field unless it is '
        '0, else the old one; (5) the pixel-ratio refusal accepts a zero component (truth table); (6) read_aseprite touches the reader '
        'nowhere after the frames loop and never uses the header file size; (7) palette precedence (as C11); (8) raw and zlib cel '
        'decoders are siblings differing only in take_bytes vs unzip, both feeding from_bytes and CelContent::Raw; (9) cels are '
        'stored by slot and duplicates rejected. Not decided: equality of whole-API observations as such - only absence of flows '
        'that could make them differ.')
    # ---------- N1
    bindings = {}
    spans = {}
    for fn, sname in spec['decoders'].items():
        bnd, sp_ = layout.check_layout(ctx, spec, fn, sname, rule='N1')
        for k, v in bnd.items():
            bindings.setdefault(k, v)
        spans.update(sp_)
    nign = 0
    for site, (struct, name) in sorted(bindings.items(), key=lambda kv: repr(kv)):
        if not name.startswith('ign:'):
            continue
        b = fx.body(site[0])
        c = b.call_at(site[1]) if b is not None else None
        if c is None:
            continue
        kind = q.callee_name(c).split('::')[-1]
        if kind == 'skip_reserved':
            used = False
        else:
            used = S.value_used(b, c)
        nign += 1
        ctx.inst('N1', '%s %s' % (struct, name), not used, 'ignorable field(s) "%s" read by %s(): value %s' % (
            name[4:], kind, 'reaches nothing' if not used else 'IS USED'), c.span, key='%s|N1|%s|%s' % (site[0], struct, name))
    ctx.floor('ignorable reads', nign, 22)

    # ---------- N2 chunk-local buffers
    pf = ctx.anchor('asefile::parse::parse_frame')
    import C01 as _c01
    n = 0
    for kind, dec in sorted(_c01.DISPATCH.items()):
        db = ctx.anchor(dec)
        if db is None:
            continue
        n += 1
        sig = db.sig['inputs']
        no_reader = not any('AseReader' in t for t in sig)
        slice_in = sig[0].replace(' ', '') == '&[u8]'
        news = q.calls(db, 'asefile::reader::AseReader::new')
        own = len(news) == 1 and is_param(q.arg_terms(news[0])[0], 1)
        ctx.inst('N2', dec, no_reader and slice_in and own, '%s(%s): takes only the chunk\'s byte slice (%s), no frame-level reader (%s), builds '
                 'its own reader on it (%s)' % (dec.split('::')[-1], ', '.join(sig), slice_in, no_reader, own), db.span, key=dec + '|N2')
    ctx.floor('chunk decoders with chunk-local input', n, 11)
    cr = ctx.anchor('asefile::parse::Chunk::read')
    if cr is not None:
        rx = q.calls(cr, 'asefile::reader::AseReader::read_exact') + q.calls(cr, 'asefile::reader::AseReader::read_vec')
        ctx.floor('payload reads in Chunk::read', len(rx), 1)
        for c in rx:
            at = q.arg_terms(c)
            ln = at[1]
            if ln[0] == 'call' and ln[1].endswith('from_elem'):
                ln = ln[2][1]
            ok = ln[0] == 'bin' and ln[1] == 'Sub' and common.is_read(strip_casts(ln[2]), ('dword',)) and q.const_val(ln[3]) == 6 \
                and bindings.get(strip_casts(ln[2])[3], ('', ''))[1] == 'chunk_size'
            ctx.inst('N2', 'Chunk::read', ok, 'chunk payload length = %s; must be exactly chunk_size - 6 bytes' % show(ln)[:120], c.span,
                     key=cr.name + '|N2|buffer')

    # ---------- N3 ignorable chunk kinds
    if pf is not None:
        E = effects.get(fx)
        pi = [i for i in range(1, pf.arg_count + 1) if pf.locals[i]['ty'].replace(' ', '') == '&mutparse::ParseInfo']
        arms = common.dispatch_arms(pf)
        if arms is None:
            ctx.fail(pf.name + '|N3|no-dispatch', 'no ChunkType dispatch found in parse_frame')
        if arms is not None and pi:
            seen = 0
            for kind, s, reg, sw in arms:
                ws = [w for w in E.writes(pf, blocks=reg) if effects.root_of(w[0])[0] == pi[0]]
                paths = sorted({tuple(effects.root_of(w[0])[1]) for w in ws})
                if kind in ('CelExtra', 'Mask', 'Path'):
                    seen += 1
                    decs = [c for c in q.calls(pf) if c.bb in reg and q.callee_name(c).startswith('asefile::') and not q.callee_name(c).startswith('asefile::<')]
                    ctx.inst('N3', kind, not ws and not decs, '%s chunk: writes %s, crate calls %s (must be none)' % (kind, paths, [q.callee_name(c) for c in decs]),
                             pf.blocks[s]['term'].get('span'), key='%s|N3|%s' % (pf.name, kind))
                if kind == 'ColorProfile':
                    seen += 1
                    ctx.inst('N3', kind, paths == [('color_profile',)], 'ColorProfile chunk writes %s; must be only parse_info.color_profile' % paths,
                             pf.blocks[s]['term'].get('span'), key='%s|N3|%s' % (pf.name, kind))
            ctx.floor('ignorable chunk arms', seen, 4)
        # nobody reads ParseInfo.color_profile
        readers = []
        for body in fx.bodies:
            if body.kind == 'promoted':
                continue
            for bi, blk in enumerate(body.blocks):
                if blk['cleanup'] or bi not in body.cfg.reach:
                    continue
                ops = []
                for st in blk['stmts']:
                    if st['k'] == 'assign':
                        ops += q.rv_operands(st['rv'])
                        ops += [{'k': 'copy', 'p': p} for p in q.rv_places(st['rv'])]
                t = blk['term']
                if t and t['k'] == 'call':
                    ops += t['args']
                if t and t['k'] == 'switch':
                    ops.append(t['discr'])
                for op in ops:
                    if op['k'] in ('copy', 'move') and any(e['k'] == 'field' and e.get('n') == 'color_profile' for e in op['p']['p']):
                        readers.append((body.name, t.get('span') if t else body.span))
        ctx.inst('N3', 'color_profile field', not readers, 'ParseInfo.color_profile is read at %s (must be nowhere)' % readers[:3], None,
                 key='crate|N3|color_profile-readers')

    common.rejection_inventory(ctx, 'N3')
    import C01 as _c01f
    _c01f.framing_rejections(ctx, 'N3')             # a payload-less (ignorable) chunk is a chunk (seed C07-m)
    common.arm_state_independence(ctx, 'N3')      # where a writer puts a chunk relative to chunks of other kinds does not matter
    # ---------- N4 chunk count selection
    chunk_count_selection(ctx, 'N4', bindings)
    # .. and the frame's own duration field is what Frame::duration reports, whatever the deprecated header `speed` holds
    import C01 as _c01
    _c01.frame_duration_store(ctx, 'N1', bindings)
    flag_conversions(ctx, 'N1')

    # ---------- N5 pixel ratio
    _c15.pixel_ratio(ctx, rule='N5')

    # ---------- N6 trailing bytes
    ra = ctx.anchor('asefile::parse::read_aseprite')
    if ra is not None:
        pcs = q.calls(ra, 'asefile::parse::parse_frame')
        if pcs:
            L = ra.cfg.loop_of(pcs[0].bb)
            after = set()
            if L is not None:
                for x, y in L['exits']:
                    after |= ra.cfg.reachable_from(y)
                after -= L['body']
            late = [c for c in q.calls(ra) if c.bb in after and S.call_kind(ra, c) in ('prim', 'helper')]
            ctx.inst('N6', 'read_aseprite', L is not None and not late, 'reader calls after the frames loop: %s (must be none: trailing bytes are '
                     'never looked at)' % [q.callee_name(c) for c in late], ra.span, key=ra.name + '|N6')
        else:
            ctx.fail(ra.name + '|N6|no-loop', 'read_aseprite no longer calls parse_frame')

    # the public loaders do not look at the input (or the file's size on disk) themselves: trailing bytes cannot reach a check
    import iorules as _io
    _io.entry_points(ctx, 'N6')

    # ---------- N7
    _c11.precedence(ctx, rule='N7')

    # ---------- N8 raw vs zlib siblings
    sib = {}
    for fn, prim in ((PX + 'RawPixels::from_raw', 'take_bytes'), (PX + 'RawPixels::from_compressed', 'unzip')):
        b = ctx.anchor(fn)
        if b is None:
            continue
        t = expand(res(b).ret(), fx, 1, layout.noinl(fx) + (PX + 'RawPixels::from_bytes',))
        fb = [x for x in walk(t) if x[0] == 'call' and x[1] == PX + 'RawPixels::from_bytes']
        ok = False
        shape = None
        for x in fb:
            src, pfm = x[2][0], x[2][1]
            if src[0] == 'call' and src[1] == 'asefile::reader::AseReader::' + prim and is_param(src[2][0], 1) and is_param(pfm, 2):
                sz = src[2][1]
                ok = common.is_byte_size(fx, sz, 2, 3)
                shape = show(sz)
        sib[fn] = (ok, shape)
        ctx.inst('N8', fn, ok, '%s = from_bytes(%s(output_size(format, count)), format): %s' % (fn.split('::')[-1], prim, 'yes' if ok else show(t)[:160]),
                 b.span, key=fn + '|N8')
    for fn, inner in (('asefile::cel::parse_raw_cel', PX + 'RawPixels::from_raw'), ('asefile::cel::parse_compressed_cel', PX + 'RawPixels::from_compressed')):
        b = fx.body(fn)
        if b is None:
            continue          # written inline / as an associated function: the arm shape is judged by C15.cel_arm_source below
        t = expand(res(b).ok_ret(), fx, 1, layout.noinl(fx) + (inner, 'asefile::cel::ImageSize::parse', 'asefile::cel::ImageSize::pixel_count'))
        ok = t[0] == 'agg' and t[2] == 'ImageContent'
        if ok:
            f = dict(t[3])
            sz, px = f.get('size'), f.get('pixels')
            ok = sz[0] == 'call' and sz[1] == 'asefile::cel::ImageSize::parse' and px[0] == 'call' and px[1] == inner and is_param(px[2][1], 2) \
                and px[2][2][0] == 'call' and px[2][2][1] == 'asefile::cel::ImageSize::pixel_count' and px[2][2][2][0] == sz
        ctx.inst('N8', fn, ok, '%s = ImageContent{size: ImageSize::parse(r), pixels: %s(r, format, size.pixel_count())}: %s'
                 % (fn.split('::')[-1], inner.split('::')[-1], 'yes' if ok else show(t)[:160]), b.span, key=fn + '|N8')

    # the two image arms of CelContent::parse are siblings: same ImageSize::parse + pixel_count, differing only in from_raw / from_compressed
    cp = ctx.anchor('asefile::cel::CelContent::parse')
    if cp is not None:
        sws = q.switches_on(cp, lambda d: is_param(strip_casts(d), 3))
        if len(sws) == 1:
            tb = q.switch_table(cp, sws[0])
            for v, s_ in sorted(tb['values'].items()):
                if v not in (0, 2):
                    continue
                srcs = [_c15.cel_arm_source(fx, _c15.variant_of(a)[1]) for rt in tb['arms'][s_]['ret'] for a in alts(rt) if not q.is_err_term(a)]
                ok = srcs == [_c15.CEL_VIA[v]]
                ctx.inst('N8', 'cel type %d' % v, ok, 'cel type %d decodes ImageContent{size: ImageSize::parse(r), pixels: %s(r, format, size.pixel_count())}: %s'
                         % (v, _c15.CEL_VIA[v].split('::')[-1], 'yes' if ok else srcs), tb['span'], key=cp.name + '|N8|%d' % v)
        else:
            ctx.fail(cp.name + '|N8|no-switch', 'CelContent::parse: no single match on the cel type')
        # .. and which of the two applies is decided by the stored cel type alone, not by a look at the data (seed C07-r treated a
        # type-2 cel whose payload does not start with one of three common zlib headers as raw: streams of other levels were misread)
        import rule as _Rm
        _c15.matchers(_Rm.View(ctx, {"T1": "N8", "T2": "N8", "T3": "N8"}), bindings, only=('asefile::cel::CelContent::parse',))

    # cel chunks in any order: the frame's cels are visited by slot (seed C07-t walked them in arrival order) and a cel's record goes to
    # the cel it follows (seed C07-s attached it to the last slot of the row)
    import rule as _Rn9
    render.order(_Rn9.View(ctx, {'K2': 'N9'}))
    _c10.run(_Rn9.View(ctx, {k_: 'N9' for k_ in ('S1', 'S2', 'S3', 'S4', 'S5', 'S6', 'S7', 'S8')}))

    # ---------- N9
    render.duplicate_cel(ctx, rule='N9')
    render.cel_rows_grow_only(ctx, rule='N9')
    import iorules
    rb = [b_ for b_ in fx.bodies if b_.name.startswith('asefile::reader::AseReader::')]
    iorules.exact_reads_only(ctx, rb, 'N2', error_mapping_ok=True)
    iorules.take_bytes_length_check(ctx, 'N2')
    ctx.samples = [i for i in ctx.instances if i['rule'] in ('N1', 'N2', 'N3', 'N4', 'N6', 'N8')][:18]


def flag_conversions(ctx, rule, only=None, floor=True):
    fx = ctx.fx
    # undefined bits of a flags word are ignorable too: hand-written code turns a file word into a flags value only through a masking
    # conversion (from_bits_truncate; from_bits with the None case refused) - from_bits_retain lets them show in the getter (seed C07-k)
    nconv = 0
    for body in [fx.by_path[p_] for p_ in sorted(CG.load_cone(fx)) if fx.by_path[p_].kind != 'promoted' and (only is None or fx.by_path[p_].name in only)]:
        for c in q.calls(body):
            last = q.callee_name(c).split('::')[-1]
            if c.macros or last not in ('from_bits_truncate', 'from_bits_retain', 'from_bits'):
                continue
            nconv += 1
            ok = last == 'from_bits_truncate'
            if last == 'from_bits':
                import totality as _T
                ok = bool(_T.option_required(body, lambda a0, c=c: any(x[0] == 'call' and x[3] == (body.name, c.bb) for x in alts(a0))))
            ctx.inst(rule, '%s -> %s' % (body.name.split('asefile::')[-1], last), ok, '%s converts a file word with %s; undefined bits must be masked off '
                     '(from_bits_truncate) or refused (from_bits(..) with None -> Err)' % (body.name.split('asefile::')[-1], last), c.span,
                     key=ctx.key(body.name, rule, 'flags-conv', last))
        # .. also when handed on as a function value (`reader.dword().map(TilesetFlags::from_bits_truncate)`)
        for c in q.calls(body):
            if c.macros:
                continue
            for a_ in c.args:
                fnv = a_.get('fn') if a_.get('k') == 'const' else None
                nm_ = (fnv.get('res') or fnv.get('orig') or '') if isinstance(fnv, dict) else ''
                last = nm_.split('::')[-1]
                if last in ('from_bits_truncate', 'from_bits_retain'):
                    nconv += 1
                    ctx.inst(rule, '%s -> %s (fn value)' % (body.name.split('asefile::')[-1], last), last == 'from_bits_truncate',
                             '%s converts a file word with %s; undefined bits must be masked off' % (body.name.split('asefile::')[-1], last), c.span,
                             key=ctx.key(body.name, rule, 'flags-conv-value', last))
    if floor:
        ctx.floor('flag-word conversions in the loader', nconv, 2)


def chunk_count_selection(ctx, rule, bindings=None):
    """the number of chunks read for a frame is the new (32 bit) count unless that is 0, else the zero-extended old count"""
    fx = ctx.fx
    if bindings is None:
        import rule as R
        spec = SP.load_spec()
        tmp = R.Ctx('tmp', fx, 'quick')
        tmp.root = getattr(ctx, 'root', None)
        bindings, _ = layout.check_layout(tmp, spec, 'asefile::parse::parse_frame', spec['decoders']['asefile::parse::parse_frame'], rule='tmp')
    pf = ctx.anchor('asefile::parse::parse_frame')
    if pf is not None:
        cs = q.calls(pf, 'asefile::parse::Chunk::read_all')
        ctx.floor('Chunk::read_all calls', len(cs), 1)
        for c in cs:
            op = c.args[0]
            l = op['p']['l'] if op['k'] in ('copy', 'move') else None
            # follow copies to the user local
            l = _c11.root_local(pf, op) if l is not None else None
            defs = _c11.local_defs(pf, l) if l is not None else []

            def names_of(ds):
                out = set()
                for t_, _bb in ds:
                    inner_, _ = layout.unwrap_value(expand(t_, fx, 3, layout.noinl(fx)))
                    out.add(bindings.get(inner_[3], ('', ''))[1] if layout.is_read_term(inner_) else None)
                return out
            if names_of(defs) != {'old_chunks', 'new_chunks'}:
                # the selected value may reach the call through a struct field or a helper's return slot: look for the local that
                # is assigned exactly the two candidate reads and whose value is what the call receives
                want = set(alts(q.arg_terms(c)[0]))
                for l2 in range(len(pf.locals)):
                    ds2 = _c11.local_defs(pf, l2)
                    if len(ds2) == 2 and names_of(ds2) == {'old_chunks', 'new_chunks'} and {t_ for t_, _ in ds2} == want:
                        defs = ds2
                        break
            got = {}
            for t, bb in defs:
                t = expand(t, fx, 3, layout.noinl(fx))
                inner, bad = layout.unwrap_value(t)
                nm = bindings.get(inner[3], ('', ''))[1] if layout.is_read_term(inner) else show(inner)
                zero_test = None
                for cond, vals, a in q.guards(pf, bb):
                    cond = expand(cond, fx, 3, layout.noinl(fx))
                    # `match new { 0 => old, n => n }`: a switch directly on the read value
                    sub0, _ = layout.unwrap_value(cond)
                    if layout.is_read_term(sub0) and bindings.get(sub0[3], ('', ''))[1] == 'new_chunks':
                        explicit = [vv for vv, _ in pf.blocks[a]['term']['targets']]
                        if vals == [0]:
                            zero_test = True
                        elif vals == ['otherwise'] and 0 in explicit:
                            zero_test = False
                        continue
                    # a comparison of the new field with a constant, in any spelling that means `== 0` / `!= 0` for an unsigned value
                    # (`== 0`, `< 1`, `<= 0`, `!(> 0)`, mirrored).  Only the test on the new field is accepted: `old == 0xFFFF -> new,
                    # else old` is the file format's wording but not the same function (old = 0, new = N reads no chunk; seed C07-g)
                    for op_, l_, r_ in q.holds_both(cond, q.bool_outcome(pf, a, vals)):
                        sub, _ = layout.unwrap_value(l_)
                        k_ = q.const_val(r_)
                        if not (layout.is_read_term(sub) and bindings.get(sub[3], ('', ''))[1] == 'new_chunks' and isinstance(k_, int)):
                            continue
                        if (op_, k_) in (('Eq', 0), ('Lt', 1), ('Le', 0)):
                            zero_test = True
                        elif (op_, k_) in (('Ne', 0), ('Ge', 1), ('Gt', 0)):
                            zero_test = False
                got[nm] = (zero_test, [c_ for c_ in layout.casts_on(t)[0]] if t[0] == 'cast' else [])
            ok = set(got) == {'old_chunks', 'new_chunks'} and got['old_chunks'][0] is True and got['new_chunks'][0] is False and \
                all(layout.value_preserving(a, b_) for a, b_ in got['old_chunks'][1])
            ctx.inst(rule, 'chunk count', ok, 'chunk count = %s; must be old_chunks (zero-extended) when new_chunks == 0, else new_chunks'
                     % {k: ('when new==0' if v[0] else 'when new!=0' if v[0] is False else 'UNGUARDED') for k, v in got.items()}, c.span,
                     key=pf.name + '|' + rule)

