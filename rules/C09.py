"""C09 - layer parents and visibility follow the nesting levels (the clauses whose truth is in the shape of the code).

V1 Layer::is_visible: every `false` result is under a failed VISIBLE test of a member of the chain self, parents[self], parents[parents[self]], ...;
   every `true` result is under `parents[member] == None` after that member's own VISIBLE test passed; the chain is unbounded
   (loop-carried through the parents table, or recursion).  For the recursive / iterator forms only the weaker rule
   (render.ancestor_walk: unbounded walk + VISIBLE flag) is applied.
V2 frame_image draws a cel only under layer(cel's layer).is_visible().
V3 the parent table has one entry per layer and an entry is a position within the layers *before* it (invariant I10 of C05).
V4 the parent is found by a last-match search (rposition) over those earlier layers with the predicate
   candidate.child_level < this layer's child_level  -> the *nearest* preceding layer with a *smaller* level.
V5 a layer gets no parent exactly when its own level is 0; a level > 0 without any candidate is an error (never None, never a guess).
V6 Layer::parent() hands out the table entry of its own id as a Layer of the same file.
Relies on the documented semantics of Iterator::take / rposition / enumerate; these are not analysed.
"""
import q
import render
import invariants
import totality as T
from q import res, is_param, is_param_path, strip_casts, show, alts, walk, expand

LY = 'asefile::layer::'


def chain_member(t):
    """t denotes self.layer_id or an entry of the parents table (possibly through phi/any)"""
    t = strip_casts(t)
    if t[0] == 'any':
        return all(chain_member(x) for x in t[1])
    if t[0] == 'phi':
        return True
    if is_param_path(t, 1, ['layer_id']):
        return True
    if t[0] == 'call' and t[1] == 'std::ops::Index::index' and any(x[0] == 'field' and x[2] == 'parents' for x in walk(t[2][0])):
        return True
    return False


def visible_test(cond):
    """cond is contains(layers[M].flags, VISIBLE) with M a chain member -> True"""
    if cond[0] == 'call' and cond[1].endswith('::contains') and len(cond[2]) == 2:
        fl, bit = cond[2]
        if fl[0] == 'field' and fl[2] == 'flags' and fl[1][0] == 'call' and fl[1][1].endswith('ops::Index>::index') or \
                (fl[0] == 'field' and fl[2] == 'flags' and fl[1][0] == 'call' and fl[1][1] in ('std::ops::Index::index', LY + 'Layer::data')):
            idx_ok = True
            if fl[1][1] != LY + 'Layer::data':
                idx_ok = chain_member(fl[1][2][1])
            vis = any(x[0] == 'const' and q.const_val(x) == 1 for x in walk(bit)) or \
                any(x[0] == 'static' or (x[0] == 'const' and 'VISIBLE' in str(x)) for x in walk(bit))
            return idx_ok and vis
    return False


def visibility(ctx):
    fx = ctx.fx
    b = ctx.anchor(LY + 'Layer::is_visible')
    if b is None:
        return
    render.ancestor_walk(ctx, rule='V1')
    walk_tests_every_member(ctx, rule='V1')
    ret = res(b).ret()
    consts = sorted(q.const_val(x) for x in alts(ret) if x[0] == 'const')
    if not (b.cfg.loops and consts == [0, 1] and len(alts(ret)) == 2):
        ctx.inst('V1', 'Layer::is_visible#form', True, 'is_visible is not in loop form (result %s): only the unbounded-walk rule applies' % show(ret)[:80],
                 b.span, key=b.name + '|V1|form')
        return
    n = 0
    # local 0, or the return slot of a helper the walk was moved into (inlined, its result handed straight to local 0)
    slots = {0} | {i for i, l_ in enumerate(b.locals) if l_.get('ret_dest') == 0}
    for (l, pj, t, bb, sp) in q.defs_in(b, b.cfg.reach):
        if l not in slots or pj or t[0] != 'const':
            continue
        n += 1
        gs = [(c, v, q.bool_outcome(b, a, v)) for c, v, a in q.guards(b, bb)]
        if q.const_val(t) == 0:
            ok = any(visible_test(c) and tr is False for c, v, tr in gs)
            ctx.inst('V1', 'is_visible -> false', ok, '`false` is returned only after a chain member\'s VISIBLE test failed (guards: %s)'
                     % [show(c)[:60] for c, v, tr in gs], sp, key=b.name + '|V1|false@%d' % n)
        else:
            passed = any(visible_test(c) and tr is True for c, v, tr in gs)
            none = False
            initial_self = False
            for c, v, a_ in q.guards(b, bb):
                if c[0] != 'discr':
                    continue
                xs = list(alts(c[1]))
                cursor = bool(xs) and all(
                    (x[0] == 'call' and x[1] == 'std::ops::Index::index' and any(y[0] == 'field' and y[2] == 'parents' for y in walk(x[2][0])) and chain_member(x[2][1])) or
                    (x[0] == 'agg' and x[1] == 'std::option::Option' and x[2] == 'Some' and chain_member(dict(x[3])['0'])) for x in xs)
                explicit = [vv for vv, _ in b.blocks[a_]['term']['targets']]
                is_none_edge = v == [0] or (v == ['otherwise'] and 1 in explicit and 0 not in explicit)
                if cursor and is_none_edge:
                    none = True
                    initial_self = any(x[0] == 'agg' and is_param_path(strip_casts(dict(x[3])['0']), 1, ['layer_id']) for x in xs)
            if not passed and none and initial_self:
                # `while let Some(id) = cursor` form: the cursor starts at Some(self), every iteration tests VISIBLE before it may continue,
                # so reaching `cursor == None` means every member passed
                passed = bool(b.cfg.loops) and all(
                    any(visible_test(c) and q.bool_outcome(b, a2, v2) is True for c, v2, a2 in q.guards(b, src)) for L in b.cfg.loops for src, _ in L['back_edges'])
            ctx.inst('V1', 'is_visible -> true', passed and none, '`true` is returned only when every visited member passed its VISIBLE test (%s) and the chain has ended (%s)'
                     % (passed, none), sp, key=b.name + '|V1|true@%d' % n)
    ctx.floor('constant results of is_visible', n, 2)


def walk_tests_every_member(ctx, rule='V1'):
    """Loop form of Layer::is_visible, whatever its shape (helpers inlined): a must-dataflow over the CFG decides that every value the
    chain variable takes - the layer itself, then each parent looked up for it - has passed its VISIBLE test before it is replaced by
    the next one and before `true` can be returned.
      state   = locals whose CURRENT value passed the test (+ pairs of locals known to hold the same value: copies and int casts)
      gen     = true edge of a switch on contains(layers[x].flags, VISIBLE): x and everything equal to x
      checks  = at each assignment to the chain variable c (the multiply-assigned local that feeds `parents[..]`): c is in the state
                (the value about to be dropped was tested; vacuous for the first assignment); at each return that can be `true`: same.
    Seed C19-o tested each parent and, after the loop, the last one again - never the layer itself."""
    fx = ctx.fx
    b = ctx.anchor(LY + 'Layer::is_visible')
    if b is None or not b.cfg.loops:
        return
    r = res(b)
    blocks = b.blocks
    reach = [i for i in sorted(b.cfg.reach) if not blocks[i]['cleanup']]

    def whole_defs(l):
        return [d for d in r.defs.get(l, []) if not d[0]]

    def op_local(op):
        return op['p']['l'] if op.get('k') in ('copy', 'move') and not op['p']['p'] else None

    def copy_src(rv):
        """local the rvalue copies (plain use or integer cast), else None"""
        if rv['k'] == 'use':
            return op_local(rv['op'])
        if rv['k'] == 'cast' and 'IntToInt' in rv.get('ck', 'IntToInt'):
            return op_local(rv['op'])
        return None

    def single_def(l):
        ds = r.defs.get(l, [])
        return ds[0] if len(ds) == 1 and not ds[0][0] else None

    def index_subject(call_term):
        """for a call `<X as Index>::index(recv, i)`: (receiver mentions `parents`?, local of i)"""
        fn = call_term.get('fn') or {}
        name = fn.get('res') or fn.get('orig') or ''
        if not (name.endswith('::index') and len(call_term['args']) == 2):
            return None
        rl = op_local(call_term['args'][0])
        par = False
        if rl is not None:
            d = single_def(rl)
            if d is not None and d[1] == 'rv' and d[2]['k'] == 'ref':
                par = any(e.get('k') == 'field' and e.get('n') == 'parents' for e in d[2]['p']['p'])
        return par, op_local(call_term['args'][1])

    def test_subject(l, depth=6):
        """local l holds contains(layers[x].flags, VISIBLE): -> local x (else None)"""
        d = single_def(l)
        if d is None or depth == 0:
            return None
        if d[1] == 'rv':
            src = copy_src(d[2])
            return test_subject(src, depth - 1) if src is not None else None
        return call_test_subject(d[2], d[3])

    def call_test_subject(t, bb):
        name = ((t.get('fn') or {}).get('res') or (t.get('fn') or {}).get('orig') or '')
        if not name.endswith('::contains') or not t['args']:
            return None
        term = r.call_term(t, (), bb)
        if not visible_test(term):
            return None
        fl = op_local(t['args'][0])
        dfl = single_def(fl) if fl is not None else None
        if dfl is None or dfl[1] != 'rv' or dfl[2]['k'] != 'ref' or not any(e.get('n') == 'flags' for e in dfl[2]['p']['p']):
            return None
        dbase = single_def(dfl[2]['p']['l'])
        if dbase is None or dbase[1] != 'call':
            return None
        ix = index_subject(dbase[2])
        return ix[1] if ix is not None and not ix[0] else None

    # chain variables: multiply-assigned locals from which (through copies) the index of a `parents[..]` lookup is taken
    feeds = set()
    for i in reach:
        t = blocks[i]['term']
        if t and t['k'] == 'call':
            ix = index_subject(t)
            if ix is not None and ix[0] and ix[1] is not None:
                feeds.add(ix[1])
    todo = list(feeds)
    while todo:
        l = todo.pop()
        for d in whole_defs(l):
            if d[1] == 'rv':
                src = copy_src(d[2])
                if src is not None and src not in feeds:
                    feeds.add(src)
                    todo.append(src)
    chain = sorted(l for l in feeds if len(whole_defs(l)) >= 2)
    if not chain:
        ctx.inst(rule, 'Layer::is_visible#members', True, 'no multiply-assigned chain variable feeds a parents[..] lookup: the walk is not in '
                 'cursor form, only the unbounded-walk rule applies', b.span, key=b.name + '|%s|members' % rule, nontrivial=False)
        return

    # where the result is produced: local 0, or the return slot of an inlined helper whose result is handed straight to local 0
    rslots = {0} | {i for i, l_ in enumerate(b.locals) if l_.get('ret_dest') == 0}
    ALL = None      # top

    def gen(state, x):
        tested, eq = state[0], state[1]
        tested = set(tested)
        work = [x]
        while work:
            y = work.pop()
            if y in tested:
                continue
            tested.add(y)
            for pr in eq:
                if y in pr:
                    work += [z for z in pr if z != y]
        return (frozenset(tested), eq, state[2])

    def assign(state, l, rv, test_of=None):
        tested, eq, tres = state
        src = copy_src(rv) if rv is not None else None
        # tres: locals that hold the outcome of test(x) for the CURRENT value of x
        tres = frozenset((d, x) for d, x in tres if d != l and x != l)
        if test_of is not None and test_of != l:
            tres = tres | {(l, test_of)}
        elif src is not None:
            tres = tres | {(l, x) for d, x in tres if d == src}
        eq = frozenset(pr for pr in eq if l not in pr)
        tested = set(tested)
        was = src is not None and src in tested
        tested.discard(l)
        if src is not None and src != l:
            if was:
                tested.add(l)
            eq = eq | {frozenset((l, src))}
        return (frozenset(tested), eq, tres)

    nloc = len(b.locals)
    entry = (frozenset(range(nloc)), frozenset(), frozenset())      # nothing holds a value yet: vacuously tested

    def join(a, c):
        if a is ALL:
            return c
        if c is ALL:
            return a
        return (a[0] & c[0], a[1] & c[1], a[2] & c[2])

    IN = {i: ALL for i in reach}
    IN[0] = entry
    findings = []

    def flow(i, state, report):
        """-> {succ: state}"""
        blk = blocks[i]
        for st in blk['stmts']:
            if st['k'] != 'assign' or st['p']['p']:
                continue
            l = st['p']['l']
            if report and l in chain and l not in state[0]:
                findings.append(('the chain variable %s is overwritten while the value it held has not passed its VISIBLE test'
                                 % (b.local_name(l) or '_%d' % l), st.get('span')))
            if l in rslots and report and not (copy_src(st['rv']) in rslots):     # (a hand-off between result slots produces nothing)
                rv = st['rv']
                cv = rv['op'].get('v') if rv['k'] == 'use' and rv['op'].get('k') == 'const' else None
                st2 = state
                src = copy_src(rv)
                for d_, x_ in state[2]:
                    if d_ == src:
                        st2 = gen(st2, x_)          # `return test(x)`: true only if x passes
                if cv != 0:
                    for c in chain:
                        if c not in st2[0]:
                            findings.append(('a result that can be `true` is produced while the chain variable %s holds a value that has not passed '
                                             'its VISIBLE test' % (b.local_name(c) or '_%d' % c), st.get('span')))
            state = assign(state, l, st['rv'])
        t = blk['term']
        out = {}
        if not t:
            return out
        if t['k'] == 'call':
            if not t['dest']['p']:
                d = t['dest']['l']
                if d in rslots and report:
                    x = call_test_subject(t, i)
                    st2 = gen(state, x) if x is not None else state       # `return test(x)`: true only if x passes
                    for c in chain:
                        if c not in st2[0]:
                            findings.append(('a call result is returned while the chain variable %s holds an untested value' % (b.local_name(c) or '_%d' % c), t.get('span')))
                state = assign(state, d, None, test_of=call_test_subject(t, i))
            if isinstance(t.get('target'), int):
                out[t['target']] = state
            return out
        if t['k'] == 'switch':
            dl = op_local(t['discr'])
            subj = None
            for d_, x_ in state[2]:
                if d_ == dl:
                    subj = x_
            for v, s_ in t['targets']:
                out[s_] = join(out.get(s_, ALL), state)
            if isinstance(t.get('otherwise'), int):
                st_t = state
                if subj is not None and t.get('ty') == 'bool' and [v for v, _ in t['targets']] == [0]:
                    st_t = gen(state, subj)
                out[t['otherwise']] = join(out.get(t['otherwise'], ALL), st_t)
            return out
        for s_ in b.cfg.succ[i]:
            if not blocks[s_]['cleanup']:
                out[s_] = state
        return out

    changed = True
    rounds = 0
    while changed and rounds < 200:
        changed = False
        rounds += 1
        for i in reach:
            if IN[i] is ALL:
                continue
            for s_, st in flow(i, IN[i], False).items():
                if s_ not in IN:
                    continue
                nw = join(IN[s_], st)
                if nw != IN[s_]:
                    IN[s_] = nw
                    changed = True
    for i in reach:
        if IN[i] is not ALL:
            flow(i, IN[i], True)
    seen = set()
    uniq = [f for f in findings if not (f in seen or seen.add(f))]
    ctx.inst(rule, 'Layer::is_visible#members', not uniq, 'cursor walk over chain variable(s) %s: %s' % (
        [b.local_name(c) or '_%d' % c for c in chain], 'every value it takes passes its VISIBLE test before it is replaced and before `true` is returned'
        if not uniq else '; '.join(m for m, _ in uniq)), uniq[0][1] if uniq else b.span, key=b.name + '|%s|members' % rule)


def parent_search(ctx):
    fx = ctx.fx
    b = ctx.anchor(LY + 'compute_parents')
    if b is None:
        return
    rps = q.calls(b, 'std::iter::Iterator::rposition')
    if not rps:
        import parents
        lf = parents.loop_form(fx)
        if lf is not None:
            # the explicit backwards-loop spelling (rules/parents.py)
            ctx.inst('V4', 'search (loop form)', lf['nearest_smaller'], 'descending loop over 0..id that takes the first layer with child_level < own child_level: %s'
                     % '; '.join(lf['detail'][:2]), b.span, key=b.name + '|V4|loop-form')
            ctx.inst('V5', 'no parent (loop form)', lf['none_iff_level0'], 'None reaches the table only on the level == 0 path; with level != 0 the push is dominated by '
                     '`parent.is_none() -> Err`: %s' % lf['detail'][-1], b.span, key=b.name + '|V5|loop-form')
            return
    ctx.floor('last-match searches in compute_parents', len(rps), 1)
    item = None
    for c in rps:
        at = q.arg_terms(c)
        src, clo = at[0], at[1]
        # V4a: the search space is the layers before this one: take(enumerate index) of an iterator over the whole slice
        space = src[0] == 'call' and src[1] == 'std::iter::Iterator::take' and src[2][0][0] == 'call' and src[2][0][1] == 'core::slice::iter' and \
            is_param(src[2][0][2][0], 1) and src[2][1][0] == 'field' and src[2][1][2] == '0' and src[2][1][1][0] == 'next'
        item = src[2][1][1] if space else None
        ctx.inst('V4', 'search space', space, 'rposition searches %s; must be layers.iter().take(id) for the id of the enumerate() item' % show(src)[:110],
                 c.span, key=b.name + '|V4|space')
        # V4b: predicate
        okp = False
        desc = show(clo)[:80]
        if clo[0] == 'closure' and clo[1] in fx.by_path:
            cb = fx.by_path[clo[1]]
            r = res(cb).ret()
            desc = show(r)
            caps = list(clo[2])
            if r[0] == 'bin' and r[1] in ('Lt', 'Gt') and len(alts(r)) == 1:
                lo, hi = (r[2], r[3]) if r[1] == 'Lt' else (r[3], r[2])
                cand = lo[0] == 'field' and lo[2] == 'child_level' and is_param(lo[1], 2)
                mine = False
                if hi[0] == 'field' and is_param(hi[1], 1) and hi[2].isdigit() and int(hi[2]) < len(caps):
                    cap = caps[int(hi[2])][1]
                    mine = item is not None and cap == ('field', ('field', item, '1'), 'child_level')
                okp = cand and mine
        ctx.inst('V4', 'predicate', okp, 'search predicate = %s; must be candidate.child_level < child_level of the layer being placed' % desc[:110],
                 c.span, key=b.name + '|V4|predicate')
    # V5: None exactly under level == 0; Some(position) otherwise; no candidate -> Err
    nn = ns = 0
    for (l, pj, t, bb, sp) in q.defs_in(b, b.cfg.reach):
        if t[0] != 'agg' or t[1] != 'std::option::Option' or pj:
            continue
        gs = [(c, v, q.bool_outcome(b, a, v)) for c, v, a in q.guards(b, bb)]

        def level_zero(c):
            return c[0] == 'bin' and c[1] in ('Eq', 'Ne') and q.const_val(c[3]) == 0 and item is not None and \
                strip_casts(c[2]) == ('field', ('field', item, '1'), 'child_level')
        z = [(c[1] == 'Eq') == tr for c, v, tr in gs if level_zero(c) and tr is not None]
        if t[2] == 'None':
            nn += 1
            ctx.inst('V5', 'no parent', z == [True], 'None is produced under %s; must be exactly under child_level == 0'
                     % [show(c)[:70] for c, v, tr in gs if level_zero(c)], sp, key=b.name + '|V5|none@%d' % nn)
        elif t[2] == 'Some':
            ns += 1
            pay = strip_casts(dict(t[3])['0'])
            found = pay[0] == 'call' and pay[1] == 'std::iter::Iterator::rposition'
            # reached only after "no candidate -> Err" has been passed: `.ok_or_else(..)?`, or `match search { None => return Err(..), .. }`
            reqs = T.option_required(b, lambda a0: any(y[0] == 'call' and y[1] == 'std::iter::Iterator::rposition' for y in walk(a0)))
            tried = any(c[0] == 'discr' and c[1][0] == 'try' and v == [0] for c, v, tr in gs) or any(b.cfg.dominates(r_, bb) for r_ in reqs)
            if not found and item is not None:
                # accepted shortcut: the layer directly before this one, taken only when its level is lower (then it *is* the nearest one)
                import poly as P
                prev = P.make((1, ('field', item, '0')), (-1,))
                if P.poly(pay) == prev:
                    for c, v, tr in gs:
                        if c[0] == 'bin' and c[1] == 'Lt' and tr is True:
                            l, r_ = strip_casts(c[2]), strip_casts(c[3])
                            idx = None
                            if l[0] == 'field' and l[2] == 'child_level':
                                e = l[1]
                                if e[0] == 'index' and is_param(e[1], 1):
                                    idx = e[2]
                                elif e[0] == 'call' and e[1] == 'std::ops::Index::index' and is_param(e[2][0], 1):
                                    idx = e[2][1]
                            if idx is not None and P.poly(idx) == prev and r_ == ('field', ('field', item, '1'), 'child_level'):
                                found = tried = True
            ctx.inst('V5', 'parent', z == [False] and found and tried, 'Some(%s) under level != 0 (%s), payload is the search result (%s), reached only on the '
                     'Continue edge of `?` (%s)' % (show(pay)[:50], z == [False], found, tried), sp, key=b.name + '|V5|some@%d' % ns)
    ctx.floor('None/Some constructions in compute_parents', nn + ns, 2)
    for c in rps:
        fates = q.result_fates(b, c.dest['l'])
        ok = bool(fates) and all(f[0] in ('try', 'call') for f in fates)
        reqs = T.option_required(b, lambda a0, c=c: any(y[0] == 'call' and y[3] == (b.name, c.bb) for y in walk(a0)))
        okq = bool(reqs)
        ctx.inst('V5', 'no candidate', okq, 'a level > 0 with no earlier lower-level layer: the search result is required to be Some, None -> Err (%s)' % ('propagated' if okq else 'NOT propagated'),
                 c.span, key=b.name + '|V5|nocandidate')


def accessor(ctx):
    fx = ctx.fx
    b = ctx.anchor(LY + 'Layer::parent')
    if b is None:
        return
    t = expand(res(b).ret(), fx, 2)
    ok = False
    if t[0] == 'agg' and t[1] == LY + 'Layer' and len(alts(t)) == 1:
        f = dict(t[3])
        lid = f.get('layer_id', ('unknown',))
        ok = is_param_path(f.get('file', ('unknown',)), 1, ['file']) and lid[0] == 'call' and lid[1] == 'std::ops::Index::index' and \
            is_param_path(lid[2][0], 1, ['file', 'layers', 'parents']) and is_param_path(strip_casts(lid[2][1]), 1, ['layer_id'])
    ctx.inst('V6', 'Layer::parent', ok, 'parent() = %s; must be Layer{file: self.file, layer_id: parents[self.layer_id]}' % show(t)[:140], b.span,
             key=b.name + '|V6')


def level_source(ctx):
    """V7: the nesting level the search compares is the file's 16-bit field, unnarrowed (all depths up to the format maximum)"""
    import layout
    fx = ctx.fx
    b = ctx.anchor(LY + 'parse_chunk')
    if b is None:
        return
    n = 0
    for bb, st, t in q.stmt_aggs(b, LY + 'LayerData'):
        n += 1
        cl = dict(t[3]).get('child_level', ('unknown',))
        oks = []
        for a in alts(cl):
            inner, bad = layout.unwrap_value(expand(a, fx, 2, layout.noinl(fx)))
            oks.append(layout.is_read_term(inner) and inner[1].endswith('AseReader::word') and not bad)
        ok = bool(oks) and all(oks)
        ctx.inst('V7', 'LayerData.child_level', ok, 'child_level = %s; must be the WORD read from the layer chunk without a narrowing cast' % show(cl)[:100],
                 st.get('span'), key=b.name + '|V7|child_level')
    ctx.floor('LayerData constructions in layer::parse_chunk', n, 1)
    # the visible flag the chain test reads is bit 0 of the file's flags WORD, stored as read: the whole LAYER chunk against the spec
    # layout, every stored field with a single value-preserving origin (seed C09-j replaced unknown flag words by a default "visible")
    import spec as _SP
    _spec = _SP.load_spec()
    _bnd, _ = layout.check_layout(ctx, _spec, LY + 'parse_chunk', 'LAYER', rule='V7')
    layout.check_stores(ctx, _spec, LY + 'parse_chunk', 'LAYER', _bnd, rule='V7')


def layer_cap(ctx):
    """V8: a cel addresses its layer with a WORD, so 65536 layers (and with them nesting level 65535, reachable only by layer 65535) are
    legal.  LayersData::from_vec may turn away only len > 65536; a smaller cap (seed C09-h: the constant lost its + 1) refuses the
    deepest legal forest.  That the cap is not larger is I13's business (layer ids must fit u16)."""
    b = ctx.anchor(LY + 'LayersData::from_vec')
    if b is None:
        return
    n = 0
    for sw, facts, cond in T.rejections(b):
        hs = [(op, l, r_) for op, l, r_ in facts if l[0] == 'call' and l[1] in T.LEN and is_param(l[2][0], 1)]
        if not hs:
            continue
        n += 1
        op, l, r_ = hs[0]
        k = q.const_fold(r_)
        above = {'Gt': k, 'Ge': k - 1}.get(op) if k is not None else None
        ok = above is not None and above >= 65536
        ctx.inst('V8', 'layer cap', ok, 'from_vec rejects layers.len() %s %s; 65536 layers are addressable by a cel, so only len > 65536 may be rejected'
                 % (op, k if k is not None else show(r_)[:40]), b.blocks[sw]['term'].get('span'), key=b.name + '|V8|cap')
    ctx.floor('rejections on the layer count in from_vec', n, 1)


def run(ctx):
    ctx.rules = ['V1 visibility = AND over the ancestor chain', 'V2 hidden layers are not drawn', 'V3 parent table shape (I10)',
                 'V4 nearest preceding lower-level search', 'V5 no parent iff level 0', 'V6 parent() accessor',
                 'V7 the level compared is the unnarrowed 16-bit file field', 'V8 no layer cap below the addressable 65536']
    ctx.assumptions += ['Iterator::enumerate/take/rposition behave as documented (rposition = index of the last match)',
                        'LayerFlags::VISIBLE is bit 1 (checked by C01 L2/L3 for the flags getter)']
    ctx.explanation = (
        'C09 is decided through the shape of three functions. compute_parents: per layer (enumerate over the whole slice, one push per '
        'iteration - I10) the entry is None exactly under child_level == 0 (V5), otherwise the result of a last-match search (rposition) '
        'over the layers before it (take(id)) with predicate candidate.child_level < own child_level (V4) - by the documented meaning of '
        'rposition that is the nearest preceding layer with a smaller level, hence also a lower id; no candidate is an error (V5). '
        'Layer::parent() returns that entry (V6). Layer::is_visible returns false only after a failed VISIBLE test of a chain member and '
        'true only at a member without parent whose test passed, the chain being carried through the parents table without bound (V1). '
        'frame_image draws a cel only under is_visible() of its layer (V2). The rules recognise the loop form (and, weakly, recursion / '
        'iterator forms) of is_visible and the rposition form of the search; a rewrite into another algorithm (e.g. a stack of open groups) is '
        'reported as an unrecognised form and needs the rule to be extended. Not decided: anything about std iterators themselves.')
    visibility(ctx)
    render.gate(ctx, rule='V2')
    render.order(ctx, rule='V2')          # the id the gate tests is the layer index of the cel being drawn
    I = invariants.Inv(ctx)
    ok, why = I.get('I10')
    ctx.inst('V3', 'parent table', ok, why, None, key='asefile::layer::compute_parents|V3')
    parent_search(ctx)
    accessor(ctx)
    level_source(ctx)
    import common as _common
    _common.arm_effect_unconditional(ctx, 'V7', 'Layer', 'asefile::parse::ParseInfo::add_layer')
    import C07 as _c07c
    _c07c.chunk_count_selection(ctx, 'V7')       # .. also in a frame that only fills in the old 16-bit chunk count (seed C09-s)     # every layer chunk counts, in any frame
    # what a visible layer shows is the cel stored for it: a later cel chunk of a lower layer must not drop it (seed C09-p)
    render.cel_rows_grow_only(ctx, rule='V2')
    layer_cap(ctx)
    import common as _common
    _common.rejection_inventory(ctx, 'V8')          # no new refusal of layer forests the format allows (seed C09-n: level drops of two)
    _common.arm_state_independence(ctx, 'V2')       # layers and cels are collected independently of their order in the file (seed C09-m)
    ctx.samples = [i for i in ctx.instances][:14]
