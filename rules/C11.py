"""C11 - palettes decode correctly; indexed files need a complete palette (structural clauses)."""
import q
import spec as SP
import layout
import effects
import common
import totality as T
import invariants as _inv
from q import res, is_param, is_param_path, field_path, strip_casts, show, alts, walk, expand
from terms import get_resolver

PAL = 'asefile::palette::'
ENTRY = 'asefile::palette::ColorPaletteEntry'


def root_local(body, op):
    """the user local an operand denotes (through copies, and through a struct / Ok / `?` an inlined helper packed it into)"""
    l = q.origin_local(body, op)
    return l if l is not None else q.root_local(body, op)


def local_defs(body, l):
    """[(term, bb)] whole definitions of local l"""
    r = res(body)
    out = []
    for proj, kind, pl, bb in r.defs.get(l, []):
        if proj:
            continue
        t = r.rvalue(pl, (l,), bb) if kind == 'rv' else r.call_term(pl, (l,), bb)
        out.append((t, bb))
    return out



def precedence(ctx, rule='P4'):
    fx = ctx.fx
    # ---------- P4 precedence
    pf = ctx.anchor('asefile::parse::parse_frame')
    if pf is not None:
        import C10 as _c10
        E = effects.get(fx)
        pi_idx = [i for i in range(1, pf.arg_count + 1) if pf.locals[i]['ty'].replace(' ', '') == '&mutparse::ParseInfo']
        arms = common.dispatch_arms(pf)
        if arms is None:
            ctx.fail(pf.name + '|' + rule + '|no-dispatch', 'no ChunkType dispatch found in parse_frame')
        if arms is not None and pi_idx:
            total = 0
            for kind, s, reg, sw in arms:
                ws = [w for w in E.writes(pf, blocks=reg) if effects.root_of(w[0]) == (pi_idx[0], ['palette'])]
                total += len(ws)
                if kind == 'Palette':
                    # unconditional within the arm: every test between the arm's entry and the assignment has nothing but error exits on
                    # its other side (the `?` of the decoder, written with ? or by hand).  A match on the palette seen so far (seed C11-h:
                    # merge into it when present) makes the new-format chunk's effect depend on what came before
                    def only_error_exit(g):
                        cond, vals, a = g
                        tm_ = pf.blocks[a]['term']
                        taken = {tm_['otherwise']} if 'otherwise' in vals else set()
                        taken |= {s_ for v_, s_ in tm_['targets'] if v_ in vals}
                        others = [s_ for s_ in pf.cfg.succ[a] if s_ not in taken]
                        dead = [s_ for s_ in others if pf.blocks[s_]['term'] and pf.blocks[s_]['term']['k'] == 'unreachable']
                        return all(s_ in dead or q.arm_always_err(pf, s_) for s_ in others)
                    ok = len(ws) == 1 and all(only_error_exit(g) for g in q.guards(pf, ws[0][3][1]) if g[2] in reg)
                    # .. and no way round it: a test written with `||` (seed C11-p: `frame_id == 0 || palette.is_none()`) leaves no single
                    # dominating guard, so also require that every path from the arm's entry that leaves the arm without an error
                    # passes through the assignment
                    if ok:
                        ok = not common.arm_bypass(pf, s, reg, ws[0][3][1])
                    val = ws[0][1] if ws else None
                    okv = val is not None and any(x[0] == 'call' and x[1] == PAL + 'parse_chunk' for x in walk(val))
                    # .. and the value is built from this chunk alone, not from the palette held so far
                    if okv and any(isinstance(x, tuple) and x and x[0] == 'field' and effects.root_of(x) == (pi_idx[0], ['palette']) for x in walk(val)):
                        okv = False
                    ctx.inst(rule, 'Palette', ok and okv, 'Palette chunk assigns parse_info.palette %s = %s'
                             % ('unconditionally' if ok else 'CONDITIONALLY or not at all', show(val)[:80] if val else None),
                             pf.blocks[s]['term'].get('span'), key=pf.name + '|' + rule + '|Palette')
                elif kind in ('OldPalette04', 'OldPalette11'):
                    dec = PAL + ('parse_old_chunk_04' if kind.endswith('04') else 'parse_old_chunk_11')
                    ok = len(ws) == 1
                    guarded = False
                    if ok:
                        for cond, vals, a in q.guards(pf, ws[0][3][1]):
                            if a in reg and cond[0] == 'call' and cond[1] == 'std::option::Option::is_none' \
                                    and effects.root_of(cond[2][0]) == (pi_idx[0], ['palette']) and q.bool_outcome(pf, a, vals) is True:
                                guarded = True
                        okv = any(x[0] == 'call' and x[1] == dec for x in walk(ws[0][1]))
                        # .. as the decoder returned it: no other routine of the crate gets hold of the palette in this arm (seed C11-r
                        # rescaled a 0x0004 palette "that looks 6-bit" through a &mut method before storing it)
                        # (a new helper would have been inlined: so nothing but plumbing may be called in the arm, and it has no loop)
                        plumbing_ = {'std::ops::Deref::deref', 'std::ops::DerefMut::deref_mut', 'std::ops::FromResidual::from_residual', 'std::ops::Try::branch',
                                     'std::option::Option::is_none', 'std::option::Option::is_some', 'std::sync::Arc::new', 'std::convert::From::from',
                                     'std::convert::Into::into', 'std::result::Result::map', 'std::result::Result::map_err', 'std::option::Option::map'}
                        others_ = sorted({q.callee_name(c_) for c_ in q.calls(pf) if c_.bb in reg and not c_.macros and q.callee_name(c_) != dec
                                          and q.callee_name(c_) not in plumbing_})
                        loops_ = [L_['header'] for L_ in pf.cfg.loops if L_['header'] in reg]
                        okv = okv and not others_ and not loops_
                    ctx.inst(rule, kind, ok and guarded and okv, '%s chunk assigns parse_info.palette %s' % (
                        kind, 'only under palette.is_none()' if guarded else 'WITHOUT the palette.is_none() guard'),
                        pf.blocks[s]['term'].get('span'), key='%s|%s|%s' % (pf.name, rule, kind))
                else:
                    ctx.inst(rule, str(kind), not ws, '%s chunk %s parse_info.palette' % (kind, 'does not write' if not ws else 'WRITES'),
                             pf.blocks[s]['term'].get('span'), key='%s|%s|%s' % (pf.name, rule, kind), nontrivial=False)
            ctx.floor('palette writers', total, 3)
            # .. and nothing else in the crate assigns ParseInfo.palette: a palette that did not come from a palette chunk (seed C11-i: a
            # fallback all-black palette for indexed sprites without one) makes "indexed pixels but no palette" loadable
            in_arms = set()
            for kind, s, reg, sw in arms:
                if kind in ('Palette', 'OldPalette04', 'OldPalette11'):
                    in_arms |= set(reg)
            for body in fx.bodies:
                if body.kind == 'promoted':
                    continue
                for bi, blk in enumerate(body.blocks):
                    if blk['cleanup'] or bi not in body.cfg.reach:
                        continue
                    for st in blk['stmts']:
                        if st['k'] != 'assign' or not st['p']['p']:
                            continue
                        last = st['p']['p'][-1]
                        if last.get('k') == 'field' and last.get('n') == 'palette' and 'ParseInfo' in str(body.locals[st['p']['l']]['ty']) and \
                                'Validated' not in str(body.locals[st['p']['l']]['ty']):
                            okw = body.name == pf.name and bi in in_arms
                            ctx.inst(rule, 'palette writer in ' + body.name.split('asefile::')[-1], okw, '%s assigns ParseInfo.palette %s' % (
                                body.name.split('asefile::')[-1], 'inside a palette chunk arm' if okw else 'OUTSIDE the three palette chunk arms: a palette that no chunk supplied'),
                                st.get('span'), key=ctx.key(body.name, rule, 'writer', ''))


def decoders(ctx):
    """L1 / P1 / P2 / P3: the three palette decoders against the spec layout, entry ids, legacy packet offsets, 6-bit scaling.
    Also run by C01 (palette entries are part of "what the file encodes") through a rule-renaming view of its context."""
    fx = ctx.fx
    spec = SP.load_spec()
    bindings = {}
    for fn in (PAL + 'parse_chunk', PAL + 'parse_old_chunk_04', PAL + 'parse_old_chunk_11'):
        bnd, _ = layout.check_layout(ctx, spec, fn, spec['decoders'][fn])
        for k, v in bnd.items():
            bindings.setdefault(k, v)
    layout.check_stores(ctx, spec, PAL + 'parse_chunk', 'PALETTE', bindings, rule='P1')

    def bound(t, name):
        t, bad = layout.unwrap_value(t)
        return layout.is_read_term(t) and bindings.get(t[3], ('', ''))[1] == name and not bad

    # ---------- P1 new palette: id = loopvar + first ; insert under id ; last<first -> Err
    b = ctx.anchor(PAL + 'parse_chunk')
    if b is not None:
        aggs = q.stmt_aggs(b, ENTRY)
        ctx.floor('ColorPaletteEntry aggregates in parse_chunk', len(aggs), 1)
        for bb, st, t in aggs:
            idt = dict(t[3]).get('id')
            ok = False
            if idt is not None and idt[0] == 'bin' and idt[1] == 'Add':
                ok = (idt[2][0] == 'next' and bound(idt[3], 'first')) or (idt[3][0] == 'next' and bound(idt[2], 'first'))
            elif idt is not None and idt[0] == 'next':
                # loop variable of first..=last
                rg = q.unwrap_into_iter(idt[1])
                if rg[0] == 'call' and rg[1] == 'std::ops::RangeInclusive::new':
                    ok = bound(rg[2][0], 'first') and bound(rg[2][1], 'last')
                elif rg[0] == 'agg' and rg[1] in ('std::ops::RangeInclusive', 'std::ops::Range'):
                    f_ = dict(rg[3])
                    ok = bound(f_.get('start'), 'first') and rg[1].endswith('RangeInclusive') and bound(f_.get('end'), 'last')
            ctx.inst('P1', 'entry.id', ok, 'entry id = %s; must be first_color_index + loop index (or the loop variable of first..=last)' % show(idt)[:140], st['span'],
                     key=b.name + '|P1|id')
            nm = dict(t[3]).get('name')
            oks = sorted(x[2] if x[0] == 'agg' else '?' for x in alts(nm)) == ['None', 'Some']
            ctx.inst('P1', 'entry.name', oks, 'entry name = %s; must be Some(string) under the flag, None otherwise' % show(nm)[:120],
                     st['span'], key=b.name + '|P1|name')
            ins = q.calls(b, 'std::collections::HashMap::insert')
            ctx.floor('palette inserts in parse_chunk', len(ins), 1)
            for c in ins:
                at = q.arg_terms(c)
                ok = at[1] == idt and at[2] == t
                ctx.inst('P1', 'insert', ok, 'entries.insert(%s, ..); key must equal the entry id and the value the entry just built'
                         % show(at[1])[:100], c.span, key=b.name + '|P1|insert')
        n = 0
        for sw in q.switches_on(b, lambda d: d[0] == 'bin' and d[1] in ('Lt', 'Gt', 'Le', 'Ge')):
            d = q.switch_cond(b, sw)
            if (bound(d[2], 'last') and bound(d[3], 'first') and d[1] == 'Lt') or (bound(d[2], 'first') and bound(d[3], 'last') and d[1] == 'Gt'):
                n += 1
                tm = b.blocks[sw]['term']
                ok = q.arm_always_err(b, tm['otherwise'])
                ctx.inst('P1', 'last<first', ok, 'last < first -> %s' % ('Err' if ok else 'NOT rejected'), tm['span'], key=b.name + '|P1|range')
        ctx.floor('range sanity tests in parse_chunk', n, 1)

    # ---------- P2 / P3 legacy
    sib = {}
    for fn in (PAL + 'parse_old_chunk_04', PAL + 'parse_old_chunk_11'):
        ob = ctx.anchor(fn)
        if ob is None:
            continue
        aggs = q.stmt_aggs(ob, ENTRY)
        ctx.floor('ColorPaletteEntry aggregates in ' + fn.split('::')[-1], len(aggs), 1)
        # the inner loop's Range
        rngs = [(bb, st) for bb, blk in enumerate(ob.blocks) for st in blk['stmts']
                if st['k'] == 'assign' and st['rv']['k'] == 'agg' and st['rv'].get('adt', '').endswith('ops::Range')]
        inner = [x for x in rngs if ob.cfg.loop_of(x[0]) is not None]
        ctx.floor('inner entry loops in ' + fn.split('::')[-1], len(inner), 1)
        for bb, st in inner:
            ops = st['rv']['ops']
            ls, lc = root_local(ob, ops[0]), root_local(ob, ops[1])
            outer = ob.cfg.loop_of(bb)
            sd = local_defs(ob, ls) if ls is not None else []
            init = [(t, b_) for t, b_ in sd if q.const_val(t) == 0]
            acc = [(t, b_) for t, b_ in sd if t[0] == 'bin' and t[1] == 'Add']
            ok = len(init) == 1 and len(acc) == 1 and len(sd) == 2 and ob.cfg.loop_of(init[0][1]) is None \
                and acc[0][1] in outer['body'] and bound(acc[0][0][3], 'skip') and acc[0][0][2][0] == 'phi'
            ctx.inst('P2', fn + '#skip', ok, 'running offset defs: %s; must be initialised to 0 once outside the packet loop and '
                     'advanced by the packet skip byte inside it (cumulative)' % [show(t) for t, _ in sd], st['span'], key=fn + '|P2|skip')
            cd = local_defs(ob, lc) if lc is not None else []
            has_read = any(bound(t, 'count') for t, _ in cd)
            c256 = [(t, b_) for t, b_ in cd if q.const_val(t) == 256]
            has_add = any(t[0] == 'bin' and t[1] == 'Add' for t, _ in cd)
            g256 = False
            for t, b_ in c256:
                for cond, vals, a in q.guards(ob, b_):
                    if cond[0] == 'bin' and cond[1] == 'Eq' and q.const_val(cond[3]) == 0 and q.bool_outcome(ob, a, vals) is True:
                        g256 = True
            ok = has_read and len(c256) == 1 and g256 and has_add and len(cd) == 3
            ctx.inst('P2', fn + '#count', ok, 'entry count defs: %s; must be the count byte, replaced by 256 under count == 0, plus the '
                     'offset' % [show(t)[:60] for t, _ in cd], st['span'], key=fn + '|P2|count')
        for bb, st, t in aggs:
            f = dict(t[3])
            idt = f.get('id')
            ok_id = idt is not None and idt[0] == 'next' and any(x[0] == 'agg' and x[1] == 'std::ops::Range' for x in walk(idt))
            rg = f.get('rgba8')
            ok_a = rg is not None and rg[0] == 'array' and len(rg[1]) == 4 and q.const_val(rg[1][3]) == 255
            ok_n = f.get('name') is not None and f['name'][0] == 'agg' and f['name'][2] == 'None'
            ctx.inst('P2', fn + '#entry', ok_id and ok_a and ok_n, 'legacy entry {id: %s, alpha: %s, name: %s}; must be {loop index of '
                     'skip..skip+count, 255, None}' % (show(idt)[:60], show(rg[1][3]) if ok_a or (rg and rg[0] == 'array') else '?', show(f.get('name'))),
                     st['span'], key=fn + '|P2|entry')
            comps = []
            if rg is not None and rg[0] == 'array':
                for i, nm in enumerate(('r', 'g', 'b')):
                    x = rg[1][i]
                    scaled = x[0] == 'call' and x[1] == PAL + 'scale_6bit_to_8bit'
                    inner_t = x[2][0] if scaled else x
                    comps.append((scaled, bound(inner_t, nm)))
            sib[fn] = comps
            ins = q.calls(ob, 'std::collections::HashMap::insert')
            for c in ins:
                at = q.arg_terms(c)
                ctx.inst('P2', fn + '#insert', at[1] == idt and at[2] == t, 'entries.insert(%s, entry); key must be the entry id'
                         % show(at[1])[:60], c.span, key=fn + '|P2|insert')
    c04 = sib.get(PAL + 'parse_old_chunk_04', [])
    c11 = sib.get(PAL + 'parse_old_chunk_11', [])
    ok04 = len(c04) == 3 and all((not s) and bd for s, bd in c04)
    ok11 = len(c11) == 3 and all(s and bd for s, bd in c11)
    ctx.inst('P3', '0x0004', ok04, 'components in parse_old_chunk_04 (scaled?, bound to r/g/b read): %s; must be 8-bit, unscaled' % c04,
             None, key=PAL + 'parse_old_chunk_04|P3')
    ctx.inst('P3', '0x0011', ok11, 'components in parse_old_chunk_11 (scaled?, bound to r/g/b read): %s; must each pass through '
             'scale_6bit_to_8bit' % c11, None, key=PAL + 'parse_old_chunk_11|P3')
    sc = ctx.anchor(PAL + 'scale_6bit_to_8bit')
    if sc is not None:
        n = 0
        for sw in q.switches_on(sc, lambda d: d[0] == 'bin' and d[1] in ('Ge', 'Gt', 'Lt', 'Le') and is_param(strip_casts(d[2]), 1)):
            d = q.switch_cond(sc, sw)
            tm = sc.blocks[sw]['term']
            c = q.const_val(d[3])
            if c is None:
                continue
            n += 1
            # largest accepted value implied by the test, and the edge taken by rejected values
            if d[1] in ('Ge', 'Gt'):
                max_ok = c - 1 if d[1] == 'Ge' else c
                rej = tm['otherwise']
            else:
                max_ok = c - 1 if d[1] == 'Lt' else c
                rej = [s_ for v_, s_ in tm['targets'] if v_ == 0][0]
            ok = max_ok == 63 and q.arm_always_err(sc, rej)
            ctx.inst('P3', 'scale#range', ok, '6-bit components: values up to %d accepted, larger -> %s (must accept exactly 0..63)'
                     % (max_ok, 'Err' if q.arm_always_err(sc, rej) else 'NOT rejected'), tm['span'], key=sc.name + '|P3|range')
        ctx.floor('6-bit range tests', n, 1)
        # the two points the property names: constant propagation of 0 and 63 through the (call-free, straight-line) result term with
        # u8 wrapping.  A form the propagation does not model is recorded as undecided, not reported (seed C11-g: `<< 2 + (..)`)
        rt = res(sc).ok_ret()
        pty = sc.locals[1]['ty']
        for arg, want in ((0, 0), (63, 255)):
            try:
                got, _ = q.propagate_constants(rt, {a_: (arg, pty) for a_ in walk(rt) if isinstance(a_, tuple) and len(a_) == 3 and a_[0] == 'param' and a_[1] == 1})
            except q.CannotEval as e:
                ctx.note('scale_6bit_to_8bit(%d) not decided: the result term %s is outside the constant propagation (%s)' % (arg, show(rt)[:80], e))
                continue
            ctx.inst('P3', 'scale#%d' % arg, got == want, 'scale_6bit_to_8bit: constant %d propagates to %d through %s; the property demands %d'
                     % (arg, got, show(rt)[:80], want), sc.span, key=sc.name + '|P3|endpoint-%d' % arg)



def run(ctx):
    fx = ctx.fx
    spec = SP.load_spec()
    ctx.rules = ['L1 layouts', 'P1 new palette ids/values', 'P2 legacy packets', 'P3 04/11 sibling difference', 'P4 precedence',
                 'P5 index validation must-pass-through', 'P6 accessors']
    ctx.assumptions.append('tables/spec_layout.json transcribes the palette chunk layouts correctly')
    ctx.explanation = (
        'Static check of the three palette decoders and the index validation. Layouts (new palette, both legacy kinds) are '
        'compared with the spec table by path enumeration; provenance shows entry id = first + loop index and the entry is '
        'inserted under that key with rgba8 in read order; for legacy chunks the running offset is loop-carried across packets '
        '(initialised once outside the packet loop), count byte 0 is replaced by 256 under the count==0 test, alpha is the '
        'constant 255; the 0x0004 and 0x0011 decoders are siblings that differ exactly in passing each component through '
        'scale_6bit_to_8bit (which rejects >= 64). Effects on ParseInfo.palette give precedence: Palette assigns '
        'unconditionally, legacy arms only under palette.is_none(), no other writer. Every Pixels::Indexed construction is '
        'dominated by a successful validate_indexed_pixels on the same data under Some(palette) (None -> Err), the validator '
        'scans the whole slice, and both cel and tileset pixels reach AsepriteFile only through RawPixels::validate. '
        'The two scaling end points the property names (0 -> 0, 63 -> 255) are decided by constant propagation through the result term; '
        'the mapping of the other 62 values is not part of the statement. Not decided: IntMap semantics.')
    decoders(ctx)

    precedence(ctx)
    # palette reaches the file unchanged
    pv = ctx.anchor('asefile::parse::ParseInfo::validate')
    if pv is not None:
        for bb, st, t in q.stmt_aggs(pv, 'asefile::parse::ValidatedParseInfo'):
            ok = is_param_path(dict(t[3]).get('palette'), 1, ['palette'])
            ctx.inst('P4', 'validate#palette', ok, 'ValidatedParseInfo.palette = %s; must be self.palette' % show(dict(t[3]).get('palette')),
                     st['span'], key=pv.name + '|P4|palette')

    # ---------- P5 completeness
    PIX = 'asefile::pixel::Pixels'
    sites = []
    for body in fx.bodies:
        for bb, st, t in q.stmt_aggs(body, PIX):
            sites.append((body, bb, st, t))
    ctx.floor('Pixels constructions', len(sites), 3)
    for body, bb, st, t in sites:
        inplace = body.name == 'asefile::pixel::RawPixels::validate'
        ctx.inst('P5', 'Pixels::%s' % t[2], inplace, 'Pixels::%s is constructed in %s (must be RawPixels::validate only)' % (t[2], body.name),
                 st['span'], key=ctx.key(body.name, 'P5', 'Pixels', t[2]))
        if t[2] == 'Indexed' and inplace:
            data = dict(t[3]).get('data')
            pal = dict(t[3]).get('palette')
            vs = q.calls(body, 'asefile::palette::ColorPalette::validate_indexed_pixels')
            ok = False
            for c in vs:
                at = q.arg_terms(c)
                fates = q.result_fates(body, c.dest['l'])
                cont = False
                for cond, vals, a in q.guards(body, bb):
                    if cond[0] == 'discr' and cond[1][0] == 'try' and cond[1][1][0] == 'call' and cond[1][1][3] == (body.name, c.bb) and vals == [0]:
                        cont = True
                if at[1] == data and at[0] == pal and cont and all(f[0] == 'try' for f in fates):
                    ok = True
            ctx.inst('P5', 'Indexed#validated', ok, 'Pixels::Indexed{data: %s} %s dominated by a successful palette.validate_indexed_pixels(data)'
                     % (show(data)[:60], 'is' if ok else 'is NOT'), st['span'], key=body.name + '|P5|validated')
            # palette None -> Err (if-let/else, match, is_none() test or ok_or_else(..)?), before the pixels are kept
            import totality as _T
            req = _T.option_required(body, lambda x: is_param(x) and body.locals[x[1]]['ty'].startswith('std::option::Option<') and
                                     'ColorPalette' in body.locals[x[1]]['ty'])
            okn = any(body.cfg.dominates(r_, bb) for r_ in req)
            ctx.inst('P5', 'Indexed#palette-present', okn, 'indexed pixels without a palette -> %s' % ('Err' if okn else 'NOT rejected'),
                     st['span'], key=body.name + '|P5|no-palette')
    vb = ctx.anchor('asefile::palette::ColorPalette::validate_indexed_pixels')
    if vb is not None:
        cs = q.calls(vb, 'asefile::palette::ColorPalette::color')
        if not cs:
            ctx.inst('P5', 'validator', False, 'validate_indexed_pixels no longer looks each pixel up in the palette (ColorPalette::color): an index that is '
                     'absent from a sparse palette is accepted, a present one may be rejected', vb.span, key=vb.name + '|P5|scan')
        for c in cs:
            at = q.arg_terms(c)
            item = strip_casts(at[1])
            src = q.unwrap_into_iter(item[1]) if item[0] == 'next' else None
            whole = src is not None and is_param(src, 2)
            L = vb.cfg.loop_of(c.bb)
            exits_ok = L is not None and all(k in ('exhausted', 'err', 'unreachable') for _, _, k in q.loop_exit_kinds(vb, L)) and \
                all(vb.cfg.dominates(c.bb, x) for x, _ in L['back_edges'])      # and no `continue` bypasses the lookup
            # a missing colour ends in Err on every iteration: `.ok_or_else(..)?`, `match .. { None => return Err(..) }`, `if x.is_none() ..`
            req = T.option_required(vb, lambda a0, c=c: any(x[0] == 'call' and x[3] == (vb.name, c.bb) for x in alts(a0)))
            prop = bool(req) and L is not None and all(any(vb.cfg.dominates(r_, x) for r_ in req) for x, _ in L['back_edges'])
            reached = L is not None and _inv.scan_bypassed(vb, L['header']) is None     # no Ok return in front of the scan, except for an empty slice
            ctx.inst('P5', 'validator', whole and exits_ok and prop and reached, 'validate_indexed_pixels: looks up %s for every element of the pixel '
                     'slice (%s), no early exit or skipped element (%s), missing colour -> Err (%s), no non-error return bypasses the scan (%s)'
                     % (show(at[1])[:60], whole, exits_ok, prop, reached), c.span,
                     key=vb.name + '|P5|scan')
        t = res(ctx.fx.body('asefile::palette::ColorPalette::color')).ret() if ctx.fx.body('asefile::palette::ColorPalette::color') else None
        if t is not None:
            ok = t[0] == 'call' and t[1] == 'std::collections::HashMap::get' and is_param_path(t[2][0], 1, ['entries']) and is_param(t[2][1], 2)
            ctx.inst('P6', 'ColorPalette::color', ok, 'color(i) = %s; must be entries.get(&i)' % show(t), None, key='asefile::palette::ColorPalette::color|P6')
    # pixel-typed fields of validated structures come from RawPixels::validate
    RV = 'asefile::pixel::RawPixels::validate'
    for fn, adt in (('asefile::cel::ImageContent::validate', 'asefile::cel::ImageContent'),
                    ('asefile::tileset::TilesetsById::validate', 'asefile::tileset::Tileset')):
        vb2 = ctx.anchor(fn)
        if vb2 is None:
            continue
        aggs = q.stmt_aggs(vb2, adt)
        ctx.floor('%s aggregates in %s' % (adt.split('::')[-1], fn.split('::')[-2]), len(aggs), 1)
        for bb, st, t in aggs:
            px = dict(t[3]).get('pixels')
            inner = layout.unwrap_value(px)[0] if px is not None else None
            ok = inner is not None and inner[0] == 'call' and inner[1] == RV
            if ok:
                src = inner[2][0]
                ok = field_path(src)[1][-1:] == ['pixels']
            ctx.inst('P5', fn + '#pixels', ok, 'validated %s.pixels = %s; must be RawPixels::validate(<its own raw pixels>)'
                     % (adt.split('::')[-1], show(px)[:100]), st['span'], key=fn + '|P5|pixels')
            for c in q.calls(vb2, RV):
                common.propagated_call(ctx, vb2, c, 'P5', 'pixel validation in ' + fn.split('::')[-2])

    # ---------- P6 accessors
    for fn, want in (('asefile::file::AsepriteFile::palette', ['palette']),):
        ab = ctx.anchor(fn)
        if ab is not None:
            t = res(ab).ret()
            ctx.inst('P6', fn, is_param_path(t, 1, want), 'returns %s; must be self.palette.as_deref()' % show(t), ab.span, key=fn + '|P6')
    nb = ctx.anchor('asefile::palette::ColorPalette::num_colors')
    if nb is not None:
        t = strip_casts(res(nb).ret())
        ok = t[0] == 'call' and t[1] == 'std::collections::HashMap::len' and is_param_path(t[2][0], 1, ['entries'])
        ctx.inst('P6', 'num_colors', ok, 'returns %s; must be entries.len()' % show(t), nb.span, key=nb.name + '|P6')
    for i, ch in enumerate(('red', 'green', 'blue', 'alpha')):
        gb = ctx.anchor('asefile::palette::ColorPaletteEntry::' + ch)
        if gb is None:
            continue
        t = res(gb).ret()
        ok = t[0] == 'index' and is_param_path(t[1], 1, ['rgba8']) and q.const_val(t[2]) == i
        ctx.inst('P6', ch, ok, '%s() = %s; must be rgba8[%d]' % (ch, show(t), i), gb.span, key=gb.name + '|P6')
    for fn, fld in (('asefile::palette::ColorPaletteEntry::id', 'id'), ('asefile::palette::ColorPaletteEntry::raw_rgba8', 'rgba8'),
                    ('asefile::palette::ColorPaletteEntry::name', 'name')):
        gb = ctx.anchor(fn)
        if gb is not None:
            t = res(gb).ret()
            ctx.inst('P6', fn.split('::')[-1], is_param_path(t, 1, [fld]), '%s() = %s; must be self.%s' % (fn.split('::')[-1], show(t), fld),
                     gb.span, key=fn + '|P6')
    ctx.samples = [i for i in ctx.instances if i['rule'] in ('P1', 'P2', 'P3', 'P4', 'P5')][:18]
