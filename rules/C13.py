"""C13 - truncated files are rejected: exact reads only, count-driven loops, no dropped reader error."""
import q
import spec as SP
import layout
import common
import iorules
import callgraph as CG


def run(ctx):
    fx = ctx.fx
    ctx.rules = ['X1 exact reads only', 'X2 outer reader primitives', 'X3 counts drive reads', 'X4 error discipline', 'L1 outer layouts']
    ctx.assumptions += ['std::io::Read::read_exact / byteorder read_* fail with UnexpectedEof on a short input (documented contract)',
                        'counts precede the data they count (header / frame header), so a strict prefix always under-delivers']
    ctx.explanation = (
        'For a strict prefix to load, some read that should hit end-of-input must be satisfied short or its failure ignored; both are '
        'shapes of the code. The check shows over the whole loader cone: (X1) the input is touched only through read_exact-family '
        'calls, or read_to_end on a take()/zlib wrapper, with take_bytes comparing the delivered length; (X2) the functions generic '
        'over the outer reader call only exact primitives on it; (X3) the frames loop is 0..num_frames and the chunk loop 0..count, '
        'each with a ?-propagated parse call on every iteration and no exit other than exhaustion or Err, and the header/frame/chunk '
        'layouts equal the spec (so every byte before the end of the last frame is covered by an exact read); (X4) no Result in the '
        'loader cone is dropped. Together a cut anywhere before the end of the last frame yields Err. The final step of the argument '
        '(counts precede their data) is reasoning recorded here, not machine-checked.')
    load = [fx.by_path[p] for p in sorted(CG.load_cone(fx)) if fx.by_path[p].kind != 'promoted']
    n = iorules.exact_reads_only(ctx, load, 'X1', error_mapping_ok=True)
    ctx.floor('I/O call sites in the loader cone', n, 10)
    iorules.take_bytes_length_check(ctx, 'X1')
    iorules.entry_points(ctx, 'X1')        # no peeking / prefetching in front of the parser (a short file must reach it as it is)
    # a cut must end in an error *value*: the reader primitives and the three functions that read from the outer stream have no
    # panic-capable site that is not discharged (seed C13-k computed `delivered - requested` in the short-read branch of read_vec: debug
    # builds panic on every truncated payload instead of returning Err)
    import panics as _p
    import totality as _T
    import C04 as _c04
    rd = [b for b in load if b.name.startswith('asefile::reader::') or b.name in ('asefile::parse::read_aseprite', 'asefile::parse::parse_frame',
                                                                                 'asefile::parse::Chunk::read', 'asefile::parse::Chunk::read_all',
                                                                                 'asefile::parse::check_chunk_bytes')]
    # (and the closures written in them: `read(..).map_err(|e| .. chunks.last().unwrap() ..)`, seed C13-r)
    rd = rd + [c_ for b_ in list(rd) for c_ in fx.closure_cone(b_) if c_ not in rd]
    nps = 0
    for s_ in _p.inventory(fx, rd):
        if s_.kind.startswith('alloc:'):
            continue
        nps += 1
        why = _T.auto(s_)
        if why is None:
            f_ = _c04.find_row(s_)
            if f_ is not None:
                try:
                    ok_, why_ = f_(ctx, s_)
                except Exception as e:
                    ok_, why_ = False, 'obligation crashed: %r' % (e,)
                why = why_ if ok_ else None
        if why is None:
            ctx.inst('X1', '%s %s' % (s_.body.name.split('asefile::')[-1], s_.kind), False, '%s at %s in the read path can stop the load by a panic instead of '
                     'an error value (not discharged by width, guard or table row)' % (s_.kind, s_.what[:70]), s_.span, key='X1|' + s_.key(0))
    ctx.floor('panic-capable sites on the read path', nps, 3)
    iorules.outer_reader_calls(ctx, 'X2')
    iorules.count_driven_loops(ctx, 'X3')
    spec = SP.load_spec()
    for fn in ('asefile::parse::read_aseprite', 'asefile::parse::parse_frame', 'asefile::parse::Chunk::read'):
        layout.check_layout(ctx, spec, fn, spec['decoders'][fn], rule='X3')
    import C07
    C07.chunk_count_selection(ctx, 'X3')
    layout.loop_counts_exact(ctx, spec, 'X3', only=('asefile::parse::read_aseprite', 'asefile::parse::parse_frame'), floor=2)
    ns = common.error_discipline(ctx, load, 'X4')
    ctx.floor('fallible call sites in the loader cone', ns, 150)
    ctx.extra['load_cone_size'] = len(load)
    ctx.samples = [i for i in ctx.instances if i['rule'] in ('X1', 'X2', 'X3')][:16]
