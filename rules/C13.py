"""C13 - truncated files are rejected: exact reads only, count-driven loops, no dropped reader error."""
import q
import spec as SP
import layout
import common
import iorules
import callgraph as CG


def run(ctx):
    fx = ctx.fx
    ctx.rules = ['X1 exact reads only', 'X2 outer reader primitives', 'X3 counts drive reads', 'X4 error discipline', 'L1 outer layouts']
    ctx.assumptions += ['std::io::Read::read_exact / byteorder read_* fail with UnexpectedEof on a short input (documented contract)',
                        'counts precede the data they count (header / frame header), so a strict prefix always under-delivers']
    ctx.explanation = (
        'For a strict prefix to load, some read that should hit end-of-input must be satisfied short or its failure ignored; both are '
        'shapes of the code. The check shows over the whole loader cone: (X1) the input is touched only through read_exact-family '
        'calls, or read_to_end on a take()/zlib wrapper, with take_bytes comparing the delivered length; (X2) the functions generic '
        'over the outer reader call only exact primitives on it; (X3) the frames loop is 0..num_frames and the chunk loop 0..count, '
        'each with a ?-propagated parse call on every iteration and no exit other than exhaustion or Err, and the header/frame/chunk '
        'layouts equal the spec (so every byte before the end of the last frame is covered by an exact read); (X4) no Result in the '
        'loader cone is dropped. Together a cut anywhere before the end of the last frame yields Err. The final step of the argument '
        '(counts precede their data) is reasoning recorded here, not machine-checked.')
    load = [fx.by_path[p] for p in sorted(CG.load_cone(fx)) if fx.by_path[p].kind != 'promoted']
    n = iorules.exact_reads_only(ctx, load, 'X1', error_mapping_ok=True)
    ctx.floor('I/O call sites in the loader cone', n, 10)
    iorules.take_bytes_length_check(ctx, 'X1')
    iorules.entry_points(ctx, 'X1')        # no peeking / prefetching in front of the parser (a short file must reach it as it is)
    iorules.outer_reader_calls(ctx, 'X2')
    iorules.count_driven_loops(ctx, 'X3')
    spec = SP.load_spec()
    for fn in ('asefile::parse::read_aseprite', 'asefile::parse::parse_frame', 'asefile::parse::Chunk::read'):
        layout.check_layout(ctx, spec, fn, spec['decoders'][fn], rule='X3')
    import C07
    C07.chunk_count_selection(ctx, 'X3')
    layout.loop_counts_exact(ctx, spec, 'X3', only=('asefile::parse::read_aseprite', 'asefile::parse::parse_frame'), floor=2)
    ns = common.error_discipline(ctx, load, 'X4')
    ctx.floor('fallible call sites in the loader cone', ns, 150)
    ctx.extra['load_cone_size'] = len(load)
    ctx.samples = [i for i in ctx.instances if i['rule'] in ('X1', 'X2', 'X3')][:16]
