"""C02 - frame image = bottom-to-top composition: the compositing skeleton (eight structural clauses)."""
import q
import render
import C15 as _c15
from q import res, show


def run(ctx):
    ctx.rules = ['K1 canvas', 'K2 ascending layer order', 'K3 slot storage / duplicate cel', 'K4 visibility gate', 'K5 opacity product',
                 'K6 blend mode dispatch', 'K7 operands', 'K8 offset and clipping guards']
    ctx.explanation = (
        'Static check of the compositing skeleton over rustc MIR; each clause is a necessary condition of the property and is decided '
        'for all inputs: (1) frame_image/layer_image return the fresh RgbaImage::new(width, height) canvas; (2) cels of a frame are '
        'visited through data[frame].iter().enumerate().filter_map(..), i.e. in ascending layer index, in a loop with no early exit; '
        '(3) cels are stored by (frame, layer) slot and a second cel for a slot is an error, so arrival order is irrelevant; (4) the '
        'only write_cel call in the frame loop is dominated by layer(item.0).is_visible() == true for the same item; (5) the per-pixel '
        'opacity is mul_un8(layer opacity, cel opacity) with the layer opacity taken from the cel\'s own layer; (6) the per-pixel '
        'function is blend_mode_to_blend_fn(mode of the cel\'s own layer) and the 19-row mode->function table and code->mode table '
        'match the spec; (7) the backdrop operand is get_pixel at the same (x, y) the result is stored to with put_pixel and the source '
        'operand is an element of the cel\'s pixel slice; (8) the cel offset enters the coordinates through a sign-extending i16->i32 '
        'cast and every pixel access is guarded by 0 <= coord < image dimension. Not decided: the clip arithmetic (row-major index), '
        'pixel values, rounding of mul_un8.')
    render.canvas(ctx)
    render.order(ctx)
    render.duplicate_cel(ctx)
    render.cel_rows_grow_only(ctx, rule='K3')
    import common as _common
    _common.arm_state_independence(ctx, 'K3')       # a cel is stored whatever chunks came before it (seed C02-m dropped cels whose layer chunk follows)
    import C17 as _c17
    _c17.normal_divisions(ctx, 'K7')          # blending onto a still transparent canvas pixel cannot stop the composition (seed C02-g)
    import layout as _layout
    _layout.tile_words(ctx, 'K7')             # tilemap cels are blended from the tile the map entry names (seed C02-n: hard-coded id mask)
    render.gate(ctx)
    render.drawing_conditions(ctx, 'K4')
    render.ancestor_walk(ctx)
    # "visible" is C09's notion: the parent table the gate walks must be the nearest-preceding-lower-level one (seed C02-j replaced the
    # backward search by a look at the previous layer only)
    import C09 as _c09
    _c09.walk_tests_every_member(ctx, rule='K4')      # .. and every member of the chain, the layer itself included, is tested (seed C19-o)
    import rule as _R
    import invariants as _inv
    v = _R.View(ctx, {'V1': 'K4', 'V3': 'K4', 'V4': 'K4', 'V5': 'K4'})
    _c09.visibility(v)
    _c09.parent_search(v)
    ok10, why10 = _inv.Inv(ctx).get('I10')
    ctx.inst('K4', 'parent table', ok10, why10, None, key='asefile::layer::compute_parents|K4|I10')
    render.opacity_and_mode(ctx)
    import C06 as _c06l
    _c06l.link_resolution(ctx, 'K5')
    _c06l.layer_opacity_as_stored(ctx, 'K5')
    import C08 as _c08t
    _c08t.tileset_lookup_by_id(ctx, 'K7')          # a tilemap layer is drawn from the tileset with its id, not the n-th stored one (seed C02-s)
    import invariants as _inv12
    ok12_, why12_ = _inv12.Inv(ctx).get('I12')    # every frame has its row of cels, also the trailing blank ones (seed C02-t)
    ctx.inst('K3', 'cel rows per frame', ok12_, why12_, None, key='asefile::cel::CelsData::new|K3|I12')   # the layer half of the opacity product is the stored byte of every layer (seed C02-r)       # a linked cel is drawn as its target: offset and opacity too (seed C02-o)
    import C07 as _c07f
    # "visible" starts at the layer's flag word: undefined bits in it must not wipe the VISIBLE bit (seed C02-p: from_bits(..).unwrap_or(empty()))
    _c07f.flag_conversions(ctx, 'K4', only=('asefile::layer::parse_chunk',), floor=False)
    render.blend_table(ctx)
    render.operands_and_offset(ctx)
    render.no_extra_skips(ctx, rule='K8')
    # K9: the index / coordinate arithmetic of the compositing path cannot wrap (a wrapped index draws another pixel or tile)
    import C08 as _c08
    _c08.no_wrap(ctx, rule='K9', functions=('asefile::file::write_raw_cel_to_image', 'asefile::file::write_tilemap_cel_to_image', 'asefile::file::tile_slice',
                                            'asefile::tilemap::TilemapData::tile', 'asefile::tileset::TileSize::pixels_per_tile',
                                            'asefile::file::AsepriteFile::write_cel', 'asefile::file::AsepriteFile::frame_image'))
    # code -> mode table (shared with C15)
    fn = 'asefile::layer::parse_blend_mode'
    b = ctx.anchor(fn)
    if b is not None:
        pidx, table, _ = _c15.MATCHERS[fn]
        sws = q.switches_on(b, lambda d: q.is_param(q.strip_casts(d), pidx))
        if len(sws) == 1:
            tb = q.switch_table(b, sws[0])
            for v, s in sorted(tb['values'].items()):
                names = []
                for rt in tb['arms'][s]['ret']:
                    for a in q.alts(rt):
                        names.append(_c15.variant_of(a)[0])
                ok = names == [table.get(v)]
                ctx.inst('K6', 'code %d' % v, ok, 'blend code %d -> %s; spec says %s' % (v, names, table.get(v)), tb['span'],
                         key='%s|K6|%d' % (fn, v))
            ctx.floor('blend codes decoded', len(tb['values']), 19)
        else:
            ctx.fail(fn + '|K6|no-switch', 'parse_blend_mode: no single match on the code')
    ctx.samples = [i for i in ctx.instances if i['rule'] in ('K1', 'K2', 'K4', 'K5', 'K7', 'K8')][:16]
