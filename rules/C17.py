"""C17 - mode-independent alpha and identity laws, as far as they follow from how the blend functions are wired.

W1 every non-Normal mode = blender(backdrop, src, opacity, its own baseline); baselines pairwise distinct.
W2 every baseline tail-calls normal(backdrop, S', opacity) where the alpha of S' is the alpha of src.
W3 blender: visible backdrop -> merge(merge(N, X, _), X, _), N = normal(b,s,o), X = f(b,s,o); else normal(b,s,o).
W4 normal: back_a == 0 -> from_rgba_i32(src rgb, mul_un8(src_a, opacity)); src_a == 0 -> backdrop; general alpha is a
   function of (back_a, src_a, opacity) only.
W5 merge: alpha = blend8(back_a, src_a, opacity) (or the zero pixel under res_a == 0); invisible operand -> other's colour.
W6 both rasterisers call the blend function with mul_un8(layer opacity, cel opacity) (the 'opacity product' of the statement).
The numeric helper facts H1 (blend8(a,a,o) == a) and H2 (merge(c,c,o) == c) and the 0..255 range clause are NOT decided.
"""
import q
import render
import layout
from q import res, is_param, field_path, strip_casts, show, alts, walk

BL = 'asefile::blend::'
INDEX = 'std::ops::Index::index'


def alpha_component(t):
    """the alpha operand of a constructed colour term"""
    if t[0] == 'agg' and t[1] == 'image::Rgba':
        arr = dict(t[3]).get('0')
        if arr is not None and arr[0] == 'array' and len(arr[1]) == 4:
            return arr[1][3]
    if t[0] == 'call' and t[1] in (BL + 'from_rgba_i32', BL + 'from_rgb_f64') and len(t[2]) == 4:
        return t[2][3]
    return None


def is_alpha_of(t, pidx):
    t = strip_casts(t)
    if t[0] == 'call' and t[1] == INDEX and is_param(t[2][0], pidx) and q.const_val(t[2][1]) == 3:
        return True
    if t[0] == 'field' and t[2] == '3' and t[1][0] == 'call' and t[1][1] == BL + 'as_rgba_i32' and is_param(t[1][2][0], pidx):
        return True
    # as_rgba_i32 returning an array instead of a tuple (its component order is checked once, W2 as_rgba_i32)
    if t[0] == 'index' and q.const_val(t[2]) == 3 and t[1][0] == 'call' and t[1][1] == BL + 'as_rgba_i32' and is_param(t[1][2][0], pidx):
        return True
    if t[0] == 'index' and q.const_val(t[2]) == 3 and field_path(t[1]) == (('param', pidx, t[1][1][2] if t[1][0] == 'field' else None), ['0']):
        return True
    if t[0] == 'index' and q.const_val(t[2]) == 3 and t[1][0] == 'field' and t[1][2] == '0' and is_param(t[1][1], pidx):
        return True
    return False


def is_channel_of(t, pidx, i):
    t = strip_casts(t)
    if t[0] == 'field' and t[2] == str(i) and t[1][0] == 'call' and t[1][1] == BL + 'as_rgba_i32' and is_param(t[1][2][0], pidx):
        return True
    if t[0] == 'index' and q.const_val(t[2]) == i and t[1][0] == 'call' and t[1][1] == BL + 'as_rgba_i32' and is_param(t[1][2][0], pidx):
        return True
    if t[0] == 'index' and q.const_val(t[2]) == i and t[1][0] == 'field' and t[1][2] == '0' and is_param(t[1][1], pidx):
        return True
    return False


def is_channel_plain(t, i):
    """channel i of parameter 1 (an Rgba<u8>), widened"""
    t = strip_casts(t)
    if t[0] == 'call' and t[1] == INDEX and is_param(t[2][0], 1) and q.const_val(t[2][1]) == i:
        return True
    if t[0] == 'index' and q.const_val(t[2]) == i and t[1][0] == 'field' and t[1][2] == '0' and is_param(t[1][1], 1):
        return True
    return False


def normal_divisions(ctx, rule):
    """the three colour divisions of blend::normal divide by res_a = src_a' + back_a - mul_un8(back_a, src_a') (src_a' the source alpha
    scaled by the opacity).  With H3: mul_un8(x, y) <= min(x, y) for 0 <= x, y <= 255 this is >= max(src_a', back_a), so it is non-zero
    wherever back_a != 0 is known - which is exactly what the transparent-backdrop exit in front of it provides.  Without that exit
    (seeds C02-g, C06-l, C05-n removed it as 'covered by the general formula') a zero opacity product over a transparent pixel
    divides by zero.  Every division in normal must have this divisor and lie under back_a != 0; anything else is reported."""
    import panics as _p
    import poly as P
    fx = ctx.fx
    b = ctx.anchor(BL + 'normal')
    if b is None:
        return
    n = 0
    for s_ in _p.inventory(fx, [b]):
        if s_.kind != 'div0':
            continue
        n += 1
        D = s_.detail.get('term')
        if D is None:
            ctx.inst(rule, 'normal#division', False, 'blend::normal: a division whose divisor the analysis cannot name', s_.span, key=ctx.key(b.name, rule, 'division', ''))
            continue
        pd = P.poly(D)
        atoms = {k[0]: v for k, v in pd.items() if len(k) == 1}
        back = [a for a, v in atoms.items() if v == 1 and is_alpha_of(a, 1)]
        srcs = [a for a, v in atoms.items() if v == 1 and a[0] == 'call' and a[1] == BL + 'mul_un8' and any(is_alpha_of(x, 2) for x in a[2])]
        prod = [a for a, v in atoms.items() if v == -1 and a[0] == 'call' and a[1] == BL + 'mul_un8']
        shape = len(pd) == 3 and len(back) == 1 and len(srcs) == 1 and len(prod) == 1 and \
            {P.canon(x) for x in prod[0][2]} == {P.canon(back[0]), P.canon(srcs[0])}
        guarded = shape and any(op in ('Ne', 'Gt') and P.canon(l_) == P.canon(back[0]) and q.const_val(r_) == 0 for op, l_, r_ in q.facts_at(b, s_.bb))
        ctx.inst(rule, 'normal#division', shape and guarded, 'blend::normal divides by %s; must be src_a\' + back_a - mul_un8(back_a, src_a\') %s under back_a != 0 %s'
                 % (show(D)[:70], 'yes' if shape else 'NO', 'yes' if guarded else 'NO (a zero opacity product over a transparent backdrop divides by zero)'),
                 s_.span, key=ctx.key(b.name, rule, 'division', ''))
    ctx.floor('divisions in blend::normal', n, 3)


def edge_defs(body, sw, succ, local=0):
    reg = q.edge_region(body, sw, succ)
    return [d for d in q.defs_in(body, reg) if d[0] == local and not d[1]]


def run(ctx):
    fx = ctx.fx
    ctx.rules = ['W1 mode = blender(baseline)', 'W2 baseline tails into normal with the source alpha', 'W3 blender wiring',
                 'W4 normal edges and alpha origin', 'W5 merge alpha and invisible-operand edges',
                 'W6 the opacity handed to the blend function is the layer x cel product on every rasterising path']
    ctx.assumptions += ['H3: mul_un8(x, y) <= min(x, y) for 0 <= x, y <= 255 (arithmetic fact about mul_un8; used to discharge the divisions of normal)',
                        'H1: blend8(a, a, o) == a for all o (arithmetic fact about blend8; not decided statically)',
                        'H2: merge(c, c, o) == c for a visible colour c (follows from H1; not decided statically)']
    ctx.explanation = (
        'Static check of the call structure of blend.rs. With W1-W3 every mode\'s result is merge(merge(N, X, .), X, .) where N and X '
        'are both results of normal() on the same backdrop and opacity with sources of equal alpha (W2); by W4 the alpha of normal() '
        'depends only on (backdrop alpha, source alpha, opacity), so N and X have equal alpha; by W5 and H1 the merged alpha is that '
        'alpha - the mode-independent alpha law. Transparent source: X = normal(B, S\'(alpha 0), O) = B by W4, N = B, merge(B,B,.) = B '
        'by H2. Transparent backdrop: W3\'s other edge and W4\'s first edge. The wiring (W1-W5) is decided for all inputs from the '
        'MIR; H1/H2 are stated assumptions. NOT decided: the 0..255 range clause (needs relational numeric reasoning), opaque-Normal '
        'identity and zero-opacity identity (value facts of normal()\'s arithmetic), all pixel values.')
    modes = sorted(set(render.BLEND_FN.values()) - {'normal'})
    baselines = {}
    for m in modes:
        b = ctx.anchor(BL + m)
        if b is None:
            continue
        t = res(b).ret()
        # the baseline: a function of its own, or a closure (`|b, s, o| blend_channel(b, s, o, f)` built by a shared helper around the
        # mode's channel function f) - told apart by the closure together with what it captures
        ok = t[0] == 'call' and t[1] == BL + 'blender' and len(t[2]) == 4 and all(is_param(t[2][i], i + 1) for i in range(3)) and \
            (t[2][3][0] == 'fn' or (t[2][3][0] == 'closure' and t[2][3][1] in fx.by_path))
        ctx.inst('W1', m, ok, '%s = %s; must be blender(backdrop, src, opacity, <baseline fn>)' % (m, show(t)), b.span, key=BL + m + '|W1')
        if ok:
            baselines[m] = t[2][3][1] if t[2][3][0] == 'fn' else t[2][3]
    ctx.floor('non-Normal modes', len(baselines), 18)
    rev = {}
    for m, f in baselines.items():
        rev.setdefault(f, []).append(m)
    def bname(f):
        return f.split('::')[-1] if isinstance(f, str) else show(f)[:80]
    for f, ms in sorted(rev.items(), key=repr):
        ctx.inst('W1', 'distinct:' + bname(f), len(ms) == 1, 'baseline %s is used by %s (each baseline must serve exactly one mode)'
                 % (bname(f), ms), None, key=(f if isinstance(f, str) else BL + ms[0] + '#baseline') + '|W1|distinct')

    # blend_channel is a transparent wrapper: checked once
    bc = ctx.anchor(BL + 'blend_channel')
    bc_ok = False
    if bc is not None:
        t = res(bc).ret()
        al = alpha_component(t[2][1]) if t[0] == 'call' and t[1] == BL + 'normal' and len(t[2]) == 3 else None
        bc_ok = al is not None and is_param(t[2][0], 1) and is_param(t[2][2], 3) and is_alpha_of(al, 2) and len(alts(t)) == 1
        ctx.inst('W2', 'blend_channel', bc_ok, 'blend_channel = %s...; must be normal(backdrop, Rgba([f.., f.., f.., src alpha]), opacity) for any f'
                 % show(t)[:90], bc.span, key=bc.name + '|W2')
    # as_rgba_i32(c) = (c[0], c[1], c[2], c[3]) widened, as a tuple or an array: the rules above read `.3` / `[3]` of it as the alpha
    ar = fx.body(BL + 'as_rgba_i32')
    if ar is not None:
        rt = res(ar).ret()
        comps = list(rt[1]) if rt[0] in ('tuple', 'array') else []
        okc = len(comps) == 4 and all(is_channel_plain(comps[i], i) for i in range(4))
        ctx.inst('W2', 'as_rgba_i32', okc, 'as_rgba_i32 = %s; must be the four channels of its argument in order' % show(rt)[:100], ar.span, key=ar.name + '|W2')
    for m, f in sorted(baselines.items()):
        if isinstance(f, str):
            fb = ctx.anchor(f)
            o = 0
        else:
            fb = fx.by_path.get(f[1])       # a closure: its own parameters come after the environment
            o = 1
            f = BL + m + '#baseline'
        if fb is None:
            continue
        t = res(fb).ret()
        oks = []
        descr = []
        for a in alts(t):
            if a[0] == 'call' and a[1] == BL + 'blend_channel' and all(is_param(a[2][i], i + 1 + o) for i in range(3)):
                oks.append(bc_ok)
                descr.append('blend_channel(backdrop, src, opacity, %s)' % show(a[2][3]))
            elif a[0] == 'call' and a[1] == BL + 'normal' and len(a[2]) == 3:
                al = alpha_component(a[2][1])
                ok = is_param(a[2][0], 1 + o) and is_param(a[2][2], 3 + o) and al is not None and is_alpha_of(al, 2 + o)
                oks.append(ok)
                descr.append('normal(backdrop, S\', opacity) with alpha(S\') = %s' % (show(al) if al is not None else 'UNKNOWN'))
            else:
                oks.append(False)
                descr.append('returns %s' % show(a)[:100])
        ctx.inst('W2', f.split('::')[-1], bool(oks) and all(oks), '%s: %s; every path must return normal(backdrop, S\', opacity) with the '
                 'source\'s own alpha' % (f.split('::')[-1], '; '.join(descr)), fb.span, key=f + '|W2')

    # ---------- W3
    bl = ctx.anchor(BL + 'blender')
    if bl is not None:
        sws = q.switches_on(bl, lambda d: d[0] == 'bin' and d[1] in ('Ne', 'Eq') and is_alpha_of(d[2], 1) and q.const_val(d[3]) == 0)
        if len(sws) != 1:
            ctx.fail(bl.name + '|W3|no-test', 'blender: expected one test of backdrop alpha against 0, found %d' % len(sws))
        else:
            sw = sws[0]
            d = q.switch_cond(bl, sw)
            tm = bl.blocks[sw]['term']
            f_edge = [s for v, s in tm['targets'] if v == 0][0]
            t_edge = tm['otherwise']
            vis, invis = (t_edge, f_edge) if d[1] == 'Ne' else (f_edge, t_edge)
            N = ('call', BL + 'normal', (('param', 1, 'backdrop'), ('param', 2, 'src'), ('param', 3, 'opacity')))

            def is_n(t):
                return t[0] == 'call' and t[1] == BL + 'normal' and all(is_param(t[2][i], i + 1) for i in range(3))

            def is_x(t):
                return t[0] == 'call' and t[1] == '<indirect>' and is_param(t[2][0], 4) and all(is_param(t[2][i + 1], i + 1) for i in range(3))
            dv = edge_defs(bl, sw, vis)
            okv = len(dv) == 1
            if okv:
                t = dv[0][2]
                okv = t[0] == 'call' and t[1] == BL + 'merge' and t[2][0][0] == 'call' and t[2][0][1] == BL + 'merge' and \
                    is_n(t[2][0][2][0]) and is_x(t[2][0][2][1]) and is_x(t[2][1]) and t[2][1] == t[2][0][2][1]
            ctx.inst('W3', 'visible backdrop', okv, 'backdrop alpha != 0: result = %s; must be merge(merge(normal(b,s,o), f(b,s,o), _), f(b,s,o), _)'
                     % (show(dv[0][2])[:150] if dv else 'no single definition'), tm['span'], key=bl.name + '|W3|visible')
            di = edge_defs(bl, sw, invis)
            oki = len(di) == 1 and is_n(di[0][2])
            ctx.inst('W3', 'transparent backdrop', oki, 'backdrop alpha == 0: result = %s; must be normal(b, s, o)' % (show(di[0][2]) if di else '?'),
                     tm['span'], key=bl.name + '|W3|invisible')

    # ---------- W4
    nb = ctx.anchor(BL + 'normal')
    if nb is not None:
        sb = q.switches_on(nb, lambda d: d[0] == 'bin' and d[1] in ('Eq', 'Ne') and is_alpha_of(d[2], 1) and q.const_val(d[3]) == 0)
        ss = q.switches_on(nb, lambda d: d[0] == 'bin' and d[1] in ('Eq', 'Ne') and is_alpha_of(d[2], 2) and q.const_val(d[3]) == 0)
        ctx.floor('alpha tests in normal', len(sb) + len(ss), 2)
        ctx.inst('W4', 'normal#edges-present', len(sb) == 1 and len(ss) == 1, 'normal() tests backdrop alpha == 0 (%d site) and source alpha == 0 (%d site); must be one each - '
                 'without the backdrop test the general formula divides by a total alpha of 0' % (len(sb), len(ss)), nb.span, key=nb.name + '|W4|edges-present')

        def zero_edge(sw):
            d = q.switch_cond(nb, sw)
            tm = nb.blocks[sw]['term']
            f_edge = [s for v, s in tm['targets'] if v == 0][0]
            return tm['otherwise'] if d[1] == 'Eq' else f_edge
        if len(sb) == 1 and len(ss) == 1:
            ok_order = nb.cfg.dominates(sb[0], ss[0])
            ctx.inst('W4', 'test order', ok_order, 'backdrop-alpha test %s the source-alpha test' % ('precedes' if ok_order else 'does NOT precede'),
                     nb.blocks[sb[0]]['term']['span'], key=nb.name + '|W4|order')
            d1 = edge_defs(nb, sb[0], zero_edge(sb[0]))
            ok1 = len(d1) == 1
            if ok1:
                t = d1[0][2]
                ok1 = t[0] == 'call' and t[1] == BL + 'from_rgba_i32' and all(is_channel_of(t[2][i], 2, i) for i in range(3))
                if ok1:
                    a = strip_casts(t[2][3])
                    ok1 = a[0] == 'call' and a[1] == BL + 'mul_un8' and {('sa' if is_alpha_of(x, 2) else 'op' if is_param(strip_casts(x), 3) else '?')
                                                                        for x in a[2]} == {'sa', 'op'}
            ctx.inst('W4', 'back_a == 0', ok1, 'transparent backdrop: returns %s; must be from_rgba_i32(src r, g, b, mul_un8(src_a, opacity))'
                     % (show(d1[0][2])[:150] if d1 else '?'), nb.blocks[sb[0]]['term']['span'], key=nb.name + '|W4|back0')
            d2 = edge_defs(nb, ss[0], zero_edge(ss[0]))
            ok2 = len(d2) == 1 and is_param(d2[0][2], 1)
            ctx.inst('W4', 'src_a == 0', ok2, 'transparent source: returns %s; must be the backdrop unchanged' % (show(d2[0][2]) if d2 else '?'),
                     nb.blocks[ss[0]]['term']['span'], key=nb.name + '|W4|src0')
            # general alpha
            nz = [s for s in nb.cfg.succ[ss[0]] if s != zero_edge(ss[0])]
            dg = edge_defs(nb, ss[0], nz[0]) if nz else []
            okg = len(dg) == 1 and dg[0][2][0] == 'call' and dg[0][2][1] == BL + 'from_rgba_i32'
            detail = '?'
            if okg:
                al = dg[0][2][2][3]
                leaves = []
                bad = []
                for x in walk(al):
                    if x[0] == 'field' and x[1][0] == 'call' and x[1][1] == BL + 'as_rgba_i32':
                        (leaves if x[2] == '3' else bad).append(show(x))
                    if x[0] == 'index':
                        (leaves if q.const_val(x[2]) == 3 else bad).append(show(x))
                okg = not bad and any(is_param(x, 3) for x in walk(al)) and len(set(leaves)) == 2
                detail = 'alpha depends on %s%s' % (sorted(set(leaves)), (' and on COLOUR channels %s' % bad) if bad else ' and opacity only')
            ctx.inst('W4', 'general alpha', okg, 'general case: %s; must depend only on backdrop alpha, source alpha and opacity' % detail,
                     nb.span, key=nb.name + '|W4|alpha')

    # ---------- W5
    mg = ctx.anchor(BL + 'merge')
    if mg is not None:
        t = res(mg).ret()
        aa = alts(t)
        full = [a for a in aa if a[0] == 'agg' and dict(a[3])['0'][0] == 'array' and not all(q.const_val(x) == 0 for x in dict(a[3])['0'][1])]
        zero = [a for a in aa if a[0] == 'agg' and dict(a[3])['0'][0] == 'array' and all(q.const_val(x) == 0 for x in dict(a[3])['0'][1])]
        ok = len(full) == 1 and len(zero) <= 1 and len(aa) == len(full) + len(zero)
        if ok:
            al = dict(full[0][3])['0'][1][3]
            ok = al[0] == 'call' and al[1] == BL + 'blend8' and is_alpha_of(al[2][0], 1) and is_alpha_of(al[2][1], 2) and is_param(al[2][2], 3) \
                and len(alts(al)) == 1
        ctx.inst('W5', 'alpha', ok, 'merge alpha = %s; must be blend8(back_a, src_a, opacity) (or the all-zero pixel)'
                 % (show(dict(full[0][3])['0'][1][3]) if full else '?'), mg.span, key=mg.name + '|W5|alpha')
        # invisible operand edges copy the other operand's colour
        for pidx, other, nm in ((1, 2, 'back_a == 0'), (2, 1, 'src_a == 0')):
            sws = q.switches_on(mg, lambda d, pidx=pidx: d[0] == 'bin' and d[1] in ('Eq', 'Ne') and is_alpha_of(d[2], pidx) and q.const_val(d[3]) == 0)
            if len(sws) != 1:
                ctx.fail('%s|W5|%s' % (mg.name, nm), 'merge: no single test %s' % nm)
                continue
            d = q.switch_cond(mg, sws[0])
            tm = mg.blocks[sws[0]]['term']
            ze = tm['otherwise'] if d[1] == 'Eq' else [s for v, s in tm['targets'] if v == 0][0]
            reg = q.edge_region(mg, sws[0], ze)
            ds = [d_ for d_ in q.defs_in(mg, reg) if not d_[1] and mg.locals[d_[0]]['ty'] == 'u8' and mg.locals[d_[0]].get('name')]
            got = sorted((mg.locals[d_[0]]['name'], [i for i in range(3) if is_channel_of(d_[2], other, i)]) for d_ in ds)
            ok = len(got) == 3 and sorted(x[1][0] for x in got if x[1]) == [0, 1, 2]
            if not ds:
                # tuple-valued `if`: the arm yields (r, g, b) as one tuple
                tds = [d_ for d_ in q.defs_in(mg, reg) if not d_[1] and d_[2][0] == 'tuple' and len(d_[2][1]) == 3]
                got = [('tuple', [[i for i in range(3) if is_channel_of(x, other, i)] for x in d_[2][1]]) for d_ in tds]
                ok = len(tds) == 1 and got[0][1] == [[0], [1], [2]]
            ctx.inst('W5', nm, ok, 'merge, %s: colour channels := %s; must be the other operand\'s r, g, b unchanged' % (nm, got), tm['span'],
                     key='%s|W5|%s' % (mg.name, nm))

    # ---------- enumerated, not judged: truncating casts and asserts in blend.rs
    casts = 0
    asserts = 0
    for b in fx.bodies:
        if not b.name.startswith(BL) or b.kind == 'promoted':
            continue
        for bi, blk in enumerate(b.blocks):
            if blk['cleanup'] or bi not in b.cfg.reach:
                continue
            for st in blk['stmts']:
                if st['k'] == 'assign' and st['rv']['k'] == 'cast' and st['rv']['ck'].startswith(('IntToInt', 'FloatToInt')):
                    if not layout.value_preserving(st['rv']['from'], st['rv']['to']):
                        casts += 1
            if blk['term'] and blk['term']['k'] == 'assert':
                asserts += 1
            if blk['term'] and blk['term']['k'] == 'call' and 'debug_assert' in blk['term']['macros']:
                asserts += 1
    ctx.extra['blend_rs_truncating_casts_listed_not_judged'] = casts
    ctx.extra['blend_rs_assert_sites_listed_not_judged'] = asserts
    ctx.note('range clause not decided: %d truncating casts and %d assert/debug_assert sites in blend.rs depend on it' % (casts, asserts))
    # explicit assertions: "no debug assertion fires" is not decided for the four channel-range assertions of from_rgba_i32 (the range
    # clause, listed above).  Any *other* assert! / debug_assert! / panic! / unreachable! site in blend.rs is a new way to stop on some
    # pixel; it is reported unless the interval domain discharges it (seed C17-k asserted `src_a > 0` after the opacity scaling)
    import panics as _p
    import totality as _T
    bl_bodies = [b for b in fx.bodies if b.name.startswith(BL) and b.kind != 'promoted']
    for s_ in _p.inventory(fx, bl_bodies):
        if not s_.kind.startswith('panic:'):
            continue
        if s_.body.name == BL + 'from_rgba_i32' and s_.kind == 'panic:debug_assert':
            continue
        why = _T.auto(s_)
        ctx.inst('W5', '%s %s' % (s_.body.name.split('::')[-1], s_.kind), why is not None, '%s in %s: %s' % (s_.kind, s_.body.name.split('asefile::')[-1],
                 why or 'an assertion in the blend arithmetic that is not shown to hold for every backdrop, source and opacity'), s_.span,
                 key=ctx.key(s_.body.name, 'W5', s_.kind, ''))
    normal_divisions(ctx, 'W4')
    import C06 as _c06b
    _c06b.background_flag_test(ctx, 'W6')
    # the layer and cel opacities the laws quantify over are the bytes the file stores: header and layer chunk are read as the spec
    # table says (a header flag that suddenly matters - seed C17-m replaced layer opacities by 255 under `flags != 1` - shows as a layout
    # difference), and the stored fields have a single origin
    import layout as _ly
    import spec as _SPc
    _spec = _SPc.load_spec()
    _ly.check_layout(ctx, _spec, 'asefile::parse::read_aseprite', 'HEADER', rule='W6')
    _bl, _ = _ly.check_layout(ctx, _spec, 'asefile::layer::parse_chunk', 'LAYER', rule='W6')
    _ly.check_stores(ctx, _spec, 'asefile::layer::parse_chunk', 'LAYER', _bl, rule='W6')
    # W6: the laws are stated over (layer opacity, cel opacity); both rasterisers must hand their product to the blend function
    render.opacity_and_mode(ctx, rule_o='W6', rule_m=None)
    render.drawing_conditions(ctx, 'W6')       # a cel is blended whatever its opacity product (seed C17-q skipped products that truncate to 0)
    import C06 as _c06l
    _c06l.link_resolution(ctx, 'W6')
    _c06l.validate_keeps_pixels(ctx, 'W6')     # the source alpha the laws speak of is the stored one (seed C17-r)
    _c06l.layer_opacity_as_stored(ctx, 'W6')       # .. of the cel that is drawn: a linked cel takes its target's opacity (seed C17-o)
    # .. and that opacity is the byte the cel chunk stores, every value of it (seed C17-p read 0 as "not set" = 255)
    import spec as _SP
    import layout as _lay
    _spec = _SP.load_spec()
    _bnd, _ = _lay.check_layout(ctx, _spec, 'asefile::cel::parse_chunk', 'CEL', rule='W6')
    _lay.check_stores(ctx, _spec, 'asefile::cel::parse_chunk', 'CEL', _bnd, rule='W6')
    # and no pixel is exempted from the blend function by anything but the canvas clip (an 'identity shortcut' in the rasteriser
    # bypasses every law above)
    render.no_extra_skips(ctx, rule='W6')
    ctx.samples = [i for i in ctx.instances if i['rule'] in ('W2', 'W3', 'W4', 'W5', 'W6')][:16]
