"""C06 - cel pixels decode correctly (structural clauses): cel chunk layout, cel-type table, payload size origin,
pixel conversions, background-flag capture, link resolution, emptiness, opacity/offset."""
import q
import spec as SP
import layout
import render
import common
import C15 as _c15
from q import res, is_param, is_param_path, field_path, strip_casts, show, alts, walk, expand
from terms import subst_closure, casts_on

PX = 'asefile::pixel::'
AF = 'asefile::file::AsepriteFile::'


def ordered_sites(body, terms):
    """the read terms are distinct call sites executed in the given order"""
    sites = [t[3][1] for t in terms if layout.is_read_term(t)]
    if len(sites) != len(terms) or len(set(sites)) != len(sites):
        return False
    return all(body.cfg.dominates(sites[i], sites[i + 1]) for i in range(len(sites) - 1))


def background_flag_test(ctx, rule):
    """LayerData::is_background tests exactly flag bit 0x0008 of the layer's flags (also run by C17: a wider mask - seed C17-n - makes the
    transparent index of an ordinary layer opaque, so a transparent source pixel overwrites the backdrop)"""
    fx = ctx.fx
    ib = ctx.anchor('asefile::layer::LayerData::is_background')
    if ib is not None:
        t = expand(res(ib).ret(), fx, 3)
        cs_ = [q.const_val(x) for x in walk(t) if x[0] == 'const']
        ok = 8 in cs_ and not any(c in cs_ for c in (1, 2, 4, 16, 32, 64)) and any(is_param_path(field_path(x)[0], 1, []) and field_path(x)[1][:1] == ['flags']
                                                                                  for x in walk(t) if x[0] == 'field')
        ctx.inst(rule, 'is_background', ok, 'is_background = %s; must test flag bit 0x0008 of self.flags' % show(t), ib.span, key=ib.name + '|%s' % rule)


def validate_keeps_pixels(ctx, rule):
    """RawPixels::validate hands the decoded pixels on as they are: Pixels::Rgba / Grayscale / Indexed{data} carry the very vector of
    the matching RawPixels variant (seed C17-r set every alpha of an RGBA cel on a BACKGROUND layer to 255 "because the background is
    opaque"); whatever the layer flags, the palette or the format say, they do not rewrite pixel data"""
    vb = ctx.anchor(PX + 'RawPixels::validate')
    if vb is None:
        return
    want = {'Rgba': 'Rgba', 'Grayscale': 'Grayscale', 'Indexed': 'Indexed'}
    n = 0
    for bb, st, t in q.stmt_aggs(vb, PX + 'Pixels'):
        v = t[2]
        f = dict(t[3])
        data = f.get('data') if v == 'Indexed' else f.get('0')
        ok = data is not None and strip_casts(data) == ('field', ('variant', ('param', 1, 'self'), want.get(v, '?')), '0')
        n += 1
        ctx.inst(rule, 'RawPixels::validate#' + str(v), ok, 'Pixels::%s carries %s; must be the pixel vector of RawPixels::%s itself, unmodified'
                 % (v, show(data)[:100] if data else '?', want.get(v)), st['span'], key=vb.name + '|%s|keeps|%s' % (rule, v))
    ctx.floor('Pixels aggregates in RawPixels::validate', n, 3)
    # .. and no loop or mutation over the pixel data in validate
    muts = sorted({q.callee_name(c) for c in q.calls(vb) if q.callee_name(c).split('::')[-1] in
                   ('iter_mut', 'index_mut', 'for_each', 'fill', 'map', 'into_iter', 'collect', 'retain', 'push', 'truncate', 'resize')})
    ctx.inst(rule, 'RawPixels::validate#no-rewrite', not muts and not vb.cfg.loops, 'validate %s' % (
        'does not iterate over or rebuild the pixel data' if not muts and not vb.cfg.loops else 'rewrites pixel data (%s, loops: %d)' % (muts, len(vb.cfg.loops))),
        vb.span, key=vb.name + '|%s|no-rewrite' % rule)


def layer_opacity_as_stored(ctx, rule):
    """the layer opacity the blend uses is the byte the layer chunk stores, for every layer (seeds C02-r / C06-r returned or stored 255
    for layers carrying the BACKGROUND flag): layout and store rows of the LAYER chunk, and the getter returns the stored field"""
    import spec as _SP
    spec_ = _SP.load_spec()
    bnd_, _ = layout.check_layout(ctx, spec_, 'asefile::layer::parse_chunk', 'LAYER', rule=rule)
    layout.check_stores(ctx, spec_, 'asefile::layer::parse_chunk', 'LAYER', bnd_, rule=rule)
    ob = ctx.anchor('asefile::layer::Layer::opacity')
    if ob is not None:
        t = expand(res(ob).ret(), ctx.fx, 2)
        base, names = field_path(strip_casts(t))
        ok = names[-1:] == ['opacity'] and len(alts(t)) == 1 and not ob.cfg.loops and \
            not [sw for sw in q.switches_on(ob, lambda d: True)]
        ctx.inst(rule, 'Layer::opacity', ok, 'Layer::opacity() = %s; must be the stored opacity field, unconditionally' % show(t)[:100], ob.span,
                 key=ob.name + '|%s|getter' % rule)


def link_resolution(ctx, rule):
    """a linked cel is drawn by one recursive write_cel on framedata.cel(CelId{linked frame, own layer}): offset, opacity and content
    all come from the target (seeds C06-?, C02-o, C17-o drew the target's pixels with the linking chunk's own header)"""
    # ---------- link resolution
    wc = ctx.anchor(AF + 'write_cel')
    if wc is not None:
        celp = render.param_named(wc, ty_contains='cel::RawCel')
        rec = [c for c in q.calls(wc, AF + 'write_cel')]
        ctx.floor('recursive write_cel calls', len(rec), 1)
        ctx.inst(rule, 'write_cel#linked-by-recursion', len(rec) == 1, 'a linked cel is drawn by %d recursive write_cel call(s) on the link target; must be exactly one '
                 '(drawing the target\'s content with the linking cel\'s own offset/opacity is not "renders exactly like the cel it links to")' % len(rec),
                 wc.span, key=wc.name + '|%s|by-recursion' % rule)
        for c in rec:
            at = q.arg_terms(c)
            tgt = at[2]
            ok = tgt[0] == 'call' and tgt[1] == 'asefile::cel::CelsData::cel' and is_param_path(tgt[2][0], 1, ['framedata'])
            if ok:
                cid = tgt[2][1]
                f = dict(cid[3]) if cid[0] == 'agg' else {}
                fr, ly = f.get('frame'), f.get('layer')
                ok = fr is not None and fr[0] == 'field' and fr[2] == '0' and fr[1][0] == 'variant' and fr[1][2] == 'Linked' and is_param_path(fr[1][1], celp, ['content']) \
                    and is_param_path(ly, celp, ['data', 'layer_index'])
            ok = ok and is_param(at[0], 1) and is_param(at[1], 2)
            ctx.inst(rule, 'write_cel#linked', ok, 'linked cel draws %s; must be framedata.cel(CelId{frame: linked frame, layer: this cel\'s layer}) on '
                     'the same image' % show(tgt)[:140], c.span, key=wc.name + '|%s|target' % rule)


def run(ctx):
    fx = ctx.fx
    spec = SP.load_spec()
    ctx.rules = ['L1/L2 cel chunk layout and fields', 'T cel-type / pixel-format / bytes-per-pixel tables', 'V conversions',
                 'B background flag and transparent index capture', 'N link resolution', 'E emptiness', 'K5 opacity', 'K8 offset']
    ctx.assumptions.append('tables/spec_layout.json transcribes the cel chunk layout correctly')
    ctx.explanation = (
        'Static check over rustc MIR of how cel pixels are decoded and handed to the rasteriser: the cel chunk layout (incl. signed '
        'x/y, the four cel types and the declared payload size w*h*bytes_per_pixel) equals the spec table; the cel-type, colour-depth '
        'and bytes-per-pixel tables are read off the match arms; provenance shows RGBA pixels are four consecutive byte reads in '
        'order, grayscale (v,a) becomes [v,v,v,a], indexed pixels become [c.red,c.green,c.blue,A] with c = palette.color(index) and '
        'A = 0 exactly under (transparent_index == index && !layer_is_background), else c.alpha; the background flag is taken from '
        'the cel\'s own layer (flag bit 0x8) and the transparent index from the header field; linked cels are resolved against the '
        'same layer in the linked frame and drawn through the same routine; is_empty is is_none of the lookup without negation; the '
        'absent cel has offset (0,0); opacity and offset clauses as in C02. Not decided: pixel values end to end, zlib correctness.')
    bnd, _ = layout.check_layout(ctx, spec, 'asefile::cel::parse_chunk', 'CEL')
    layout.check_stores(ctx, spec, 'asefile::cel::parse_chunk', 'CEL', bnd)

    # ---------- tables
    for fn in ('asefile::cel::CelContent::parse', 'asefile::parse::parse_pixel_format'):
        b = ctx.anchor(fn)
        if b is None:
            continue
        pidx, table, _ = _c15.MATCHERS[fn]
        sws = q.switches_on(b, lambda d, pidx=pidx: is_param(strip_casts(d), pidx))
        if len(sws) != 1:
            ctx.fail(fn + '|T|no-switch', '%s: no single match on its code' % fn)
            continue
        tb = q.switch_table(b, sws[0])
        ov_ = _c15.otherwise_values(b, sws[0], pidx)
        bounded_other = ov_ is not None and set(ov_) <= set(table) and tb['otherwise'] in tb['arms']
        rows_ = sorted(tb['values'].items()) + ([(v_, tb['otherwise']) for v_ in ov_] if bounded_other else [])
        for v, s in rows_:
            vs = []
            via = []
            for rt in tb['arms'][s]['ret']:
                for a in alts(_c15.specialise(b, rt, pidx, v)):
                    if q.is_err_term(a):
                        continue
                    n_, inner = _c15.variant_of(a)
                    inner = _c15.specialise(b, inner, pidx, v)
                    vs.append(n_)
                    if fn.endswith('CelContent::parse'):
                        via.append(_c15.cel_arm_source(fx, inner) or 'unrecognised')
                    elif inner[0] == 'agg' and inner[3]:
                        pl = inner[3][0][1]
                        via.append(pl[1] if pl[0] == 'call' else show(pl))
            ok = vs == [table.get(v)]
            if fn.endswith('CelContent::parse'):
                ok = ok and via == [_c15.CEL_VIA[v]]
            ctx.inst('T', '%s#%s' % (fn.split('::')[-1], v), ok, '%s %s -> %s %s; spec: %s' % (fn.split('::')[-2] + '::' + fn.split('::')[-1], v, vs,
                     [x.split('::')[-1] for x in via], table.get(v)), tb['span'], key='%s|T|%s' % (fn, v))
        ctx.inst('T', fn.split('::')[-1] + '#other', q.arm_always_err(b, tb['otherwise']) or bounded_other, 'unknown codes -> Err', tb['span'], key=fn + '|T|otherwise')
    pf = ctx.anchor('asefile::parse::parse_pixel_format')
    if pf is not None:
        for bb, st, t in q.stmt_aggs(pf, 'asefile::file::PixelFormat', 'Indexed'):
            ok = is_param(dict(t[3]).get('transparent_color_index'), 2)
            ctx.inst('T', 'PixelFormat::Indexed', ok, 'Indexed.transparent_color_index = %s; must be the header transparent-index argument'
                     % show(dict(t[3]).get('transparent_color_index')), st['span'], key=pf.name + '|T|tci')
    bp = ctx.anchor('asefile::file::PixelFormat::bytes_per_pixel')
    if bp is not None:
        import C10 as _c10
        sws = q.switches_on(bp, lambda d: d[0] == 'discr')
        want = {'Rgba': 4, 'Grayscale': 2, 'Indexed': 1}
        if len(sws) == 1:
            names = _c10.switch_variants(bp, sws[0])
            tb = q.switch_table(bp, sws[0])
            got = {}
            for v, s in tb['values'].items():
                rs = [q.const_val(a) for rt in tb['arms'][s]['ret'] for a in alts(rt)]
                got[names.get(v)] = rs
            o = tb['otherwise']
            if o not in tb['values'].values() and bp.blocks[o]['term']['k'] != 'unreachable':
                rs = [q.const_val(a) for rt in tb['arms'][o]['ret'] for a in alts(rt)]
                missing = [k for k in want if k not in got]
                if len(missing) == 1:
                    got[missing[0]] = rs
            ok = all(got.get(k) == [v] for k, v in want.items())
            ctx.inst('T', 'bytes_per_pixel', ok, 'bytes_per_pixel table %s; must be %s' % (got, want), tb['span'], key=bp.name + '|T')
        else:
            ctx.fail(bp.name + '|T|no-match', 'bytes_per_pixel: no single match on the format')
    osz = fx.body(PX + 'output_size')      # absent when written inline at its two uses: then I2 / N8 judge the product there
    if osz is not None:
        t = res(osz).ret()
        ok = t[0] == 'bin' and t[1] == 'Mul' and {('bpp' if (x[0] == 'call' and x[1].endswith('bytes_per_pixel') and is_param(x[2][0], 1)) else
                                                 'n' if is_param(x, 2) else '?') for x in (t[2], t[3])} == {'bpp', 'n'}
        ctx.inst('T', 'output_size', ok, 'output_size = %s; must be bytes_per_pixel(format) * pixel count' % show(t), osz.span, key=osz.name + '|T')
    pc = ctx.anchor('asefile::cel::ImageSize::pixel_count')
    if pc is not None:
        t = res(pc).ret()
        ok = t[0] == 'bin' and t[1] == 'Mul' and {tuple(field_path(strip_casts(x))[1]) for x in (t[2], t[3])} == {('width',), ('height',)} \
            and all(c == ('u16', 'usize') for x in (t[2], t[3]) for c in casts_on(x)[0])
        ctx.inst('T', 'pixel_count', ok, 'pixel_count = %s; must be width as usize * height as usize' % show(t), pc.span, key=pc.name + '|T')

    # ---------- conversions
    rb = ctx.anchor(PX + 'read_rgba')
    if rb is not None:
        t = res(rb).ok_ret()
        arr = dict(t[3]).get('0') if t[0] == 'agg' else None
        ok = arr is not None and arr[0] == 'array' and len(arr[1]) == 4 and all(common.is_read(x, ('byte',)) for x in arr[1]) \
            and ordered_sites(rb, list(arr[1]))
        ctx.inst('V', 'read_rgba', ok, 'read_rgba = %s; must be Rgba([b0,b1,b2,b3]) of four consecutive byte reads in order' % show(t)[:160],
                 rb.span, key=rb.name + '|V')
    gn = ctx.anchor(PX + 'Grayscale::new')
    if gn is not None:
        t = res(gn).ok_ret()
        f = dict(t[3]) if t[0] == 'agg' else {}
        ok = 'value' in f and 'alpha' in f and ordered_sites(gn, [f['value'], f['alpha']])
        ctx.inst('V', 'Grayscale::new', ok, 'Grayscale::new = %s; must be {value: first byte, alpha: second byte}' % show(t)[:140], gn.span,
                 key=gn.name + '|V')
    gi = ctx.anchor(PX + 'Grayscale::into_rgba')
    if gi is not None:
        t = res(gi).ret()
        arr = dict(t[3]).get('0') if t[0] == 'agg' else None
        ok = arr is not None and arr[0] == 'array' and [tuple(field_path(x)[1]) for x in arr[1]] == [('value',), ('value',), ('value',), ('alpha',)] \
            and all(is_param(field_path(x)[0], 1) for x in arr[1])
        ctx.inst('V', 'Grayscale::into_rgba', ok, 'into_rgba = %s; must be [value, value, value, alpha]' % show(t), gi.span, key=gi.name + '|V')
    ia = ctx.anchor(PX + 'Indexed::as_rgba')
    if ia is not None:
        cls = [(bb, st, t) for bb, blk in enumerate(ia.blocks) for st in blk['stmts']
               if st['k'] == 'assign' and st['rv']['k'] == 'agg' and st['rv'].get('ak') == 'closure'
               for t in [res(ia).rvalue(st['rv'], (), bb)]]
        ok_all = False
        detail = 'no closure'
        if len(cls) == 1:
            clt = cls[0][2]
            cb = fx.by_path.get(clt[1])
            # receiver of the map: palette.color(self.0 as u32)
            mp = [c for c in q.calls(ia, 'std::option::Option::map')]
            okc = False
            for c in mp:
                a0 = q.arg_terms(c)[0]
                okc = a0[0] == 'call' and a0[1] == 'asefile::palette::ColorPalette::color' and is_param(a0[2][0], 2) and \
                    strip_casts(a0[2][1]) == ('field', ('param', 1, 'self'), '0')
            ctx.inst('V', 'Indexed::as_rgba#lookup', okc, 'colour is looked up with palette.color(self.0 as u32)', ia.span, key=ia.name + '|V|lookup')
            if cb is not None:
                rt = res(cb).ret()
                arr = dict(rt[3]).get('0') if rt[0] == 'agg' else None
                chan = ['red', 'green', 'blue']
                okr = arr is not None and arr[0] == 'array' and len(arr[1]) == 4 and all(
                    arr[1][i][0] == 'call' and arr[1][i][1] == 'asefile::palette::ColorPaletteEntry::' + chan[i] and is_param(arr[1][i][2][0], 2)
                    for i in range(3))
                al = arr[1][3] if okr else None
                oka = False
                guard_ok = False
                if al is not None:
                    aa = alts(al)
                    oka = len(aa) == 2 and any(q.const_val(x) == 0 for x in aa) and any(
                        x[0] == 'call' and x[1] == 'asefile::palette::ColorPaletteEntry::alpha' and is_param(x[2][0], 2) for x in aa)
                    # where is the constant 0 assigned?
                    zero_bbs = [d[3] for d in q.defs_in(cb, cb.cfg.reach) if q.const_val(d[2]) == 0 and cb.locals[d[0]]['ty'] == 'u8' and not d[1]]
                    for zb in zero_bbs:
                        conds = []
                        for cond, vals, a in q.guards(cb, zb):
                            c2 = subst_closure(cond, {}, clt)
                            conds.append((c2, q.bool_outcome(cb, a, vals)))
                        eq = [c_ for c_, tr in conds if c_[0] == 'bin' and c_[1] == 'Eq' and tr is True and
                              {('tci' if is_param(strip_casts(x), 3) else 'idx' if strip_casts(x) == ('field', ('param', 1, 'self'), '0') else '?')
                               for x in (c_[2], c_[3])} == {'tci', 'idx'} and
                              all(layout.value_preserving(a_, b_) for x in (c_[2], c_[3]) for a_, b_ in q.casts_on(x)[0])]      # compared widened, never narrowed
                        bg = [c_ for c_, tr in conds if (is_param(c_, 4) and tr is False) or
                              (c_[0] == 'un' and c_[1] == 'Not' and is_param(c_[2], 4) and tr is True)]
                        guard_ok = bool(eq) and bool(bg) and len(conds) == 2
                        detail = 'alpha := 0 under %s' % [(show(c_), tr) for c_, tr in conds]
                ok_all = okr and oka and guard_ok
                ctx.inst('V', 'Indexed::as_rgba', ok_all, 'as_rgba builds %s; %s; must be [c.red, c.green, c.blue, A], A = 0 exactly under '
                         '(transparent_color_index == index) && !layer_is_background, else c.alpha' % (show(rt)[:150], detail), cb.span,
                         key=ia.name + '|V|channels')
        elif not cls:
            # second spelling, without the closure: `let c = palette.color(self.0 as u32)?; .. Some(Rgba([c.red(), c.green(), c.blue(), alpha]))`
            def entry(x):
                cs_ = [y for y in walk(x) if isinstance(y, tuple) and y and y[0] == 'call']
                return len(cs_) == 1 and cs_[0][1] == 'asefile::palette::ColorPalette::color' and is_param(cs_[0][2][0], 2) and \
                    strip_casts(cs_[0][2][1]) == ('field', ('param', 1, 'self'), '0')
            aggs_ = [(bb, st, t) for bb, st, t in q.stmt_aggs(ia) if (t[1] or '').endswith('Rgba')]
            okc = okr = oka = guard_ok = False
            detail = 'no Rgba aggregate'
            rt = None
            if len(aggs_) == 1:
                rt = aggs_[0][2]
                arr = dict(rt[3]).get('0')
                chan = ['red', 'green', 'blue']
                okr = arr is not None and arr[0] == 'array' and len(arr[1]) == 4 and all(
                    arr[1][i][0] == 'call' and arr[1][i][1] == 'asefile::palette::ColorPaletteEntry::' + chan[i] and entry(arr[1][i][2][0]) for i in range(3))
                okc = okr
                if okr:
                    aa = alts(arr[1][3])
                    oka = len(aa) == 2 and any(q.const_val(x) == 0 for x in aa) and any(
                        x[0] == 'call' and x[1] == 'asefile::palette::ColorPaletteEntry::alpha' and entry(x[2][0]) for x in aa)
                    zero_bbs = [d[3] for d in q.defs_in(ia, ia.cfg.reach) if q.const_val(d[2]) == 0 and ia.locals[d[0]]['ty'] == 'u8' and not d[1]]
                    for zb in zero_bbs:
                        conds = [(c_, tr) for c_, tr in q.deep_conds(ia, zb) if c_[0] in ('bin', 'un', 'param')]
                        eq = [c_ for c_, tr in conds if c_[0] == 'bin' and c_[1] == 'Eq' and tr is True and
                              {('tci' if is_param(strip_casts(x), 3) else 'idx' if strip_casts(x) == ('field', ('param', 1, 'self'), '0') else '?')
                               for x in (c_[2], c_[3])} == {'tci', 'idx'} and
                              all(layout.value_preserving(a_, b_) for x in (c_[2], c_[3]) for a_, b_ in q.casts_on(x)[0])]
                        bg = [c_ for c_, tr in conds if (is_param(c_, 4) and tr is False) or
                              (c_[0] == 'un' and c_[1] == 'Not' and is_param(c_[2], 4) and tr is True)]
                        guard_ok = bool(eq) and bool(bg) and len(conds) == 2
                        detail = 'alpha := 0 under %s' % [(show(c_), tr) for c_, tr in conds]
            ctx.inst('V', 'Indexed::as_rgba#lookup', okc, 'colour is looked up with palette.color(self.0 as u32)', ia.span, key=ia.name + '|V|lookup')
            ctx.inst('V', 'Indexed::as_rgba', okr and oka and guard_ok, 'as_rgba builds %s; %s; must be [c.red, c.green, c.blue, A], A = 0 exactly under '
                     '(transparent_color_index == index) && !layer_is_background, else c.alpha' % (show(rt)[:150] if rt else '?', detail), ia.span,
                     key=ia.name + '|V|channels')
        else:
            ctx.fail(ia.name + '|V|shape', 'Indexed::as_rgba no longer maps the palette entry through one closure')
    fb = ctx.anchor(PX + 'RawPixels::from_bytes')
    if fb is not None:
        import C10 as _c10
        sws = [s for s in q.switches_on(fb, lambda d: d[0] == 'discr' and is_param(d[1], 2))]
        if len(sws) == 1:
            names = _c10.switch_variants(fb, sws[0])
            tm = fb.blocks[sws[0]]['term']
            want = {'Rgba': ('Rgba', PX + 'read_rgba', 4), 'Grayscale': ('Grayscale', PX + 'Grayscale::new', 2), 'Indexed': ('Indexed', None, None)}
            for v, s in tm['targets']:
                nm = names.get(v)
                reg = q.edge_region(fb, sws[0], s)
                maps = [c for c in q.calls(fb, 'std::iter::Iterator::map') if c.bb in reg]
                aggs = [t for bb, st, t in q.stmt_aggs(fb, PX + 'RawPixels') if bb in reg]
                rets = [d[2] for d in q.defs_in(fb, reg) if d[0] == 0 and not d[1]]
                variant, conv, width = want.get(nm, (None, None, None))
                if conv is None:
                    ok = any(a[2] == 'Indexed' and is_param(dict(a[3])['0'], 1) for a in aggs)
                    desc = [show(a) for a in aggs]
                else:
                    ok = False
                    desc = []
                    for c in maps:
                        at = q.arg_terms(c)
                        src = at[0]
                        okm = at[1] == ('fn', conv) and src[0] == 'call' and src[1] == 'core::slice::chunks_exact' and q.const_val(src[2][1]) == width
                        desc.append('%s over chunks_exact(%s)' % (show(at[1]), show(src[2][1]) if src[0] == 'call' else '?'))
                        if okm:
                            # .. and the arm wraps them in its own variant (returned at once, or bound to a local that is returned after the match)
                            ok = any(x[0] == 'agg' and x[2] == variant for r_ in rets for x in walk(r_)) or any(a[2] == variant for a in aggs)
                    if not maps:
                        # second spelling: for chunk in bytes.chunks_exact(w) { pixels.push(conv(chunk)?); }  Ok(Variant(pixels))
                        from terms import payload as _payload
                        for c in [c_ for c_ in q.calls(fb, conv) if c_.bb in reg]:
                            a0 = q.arg_terms(c)[0]
                            src = q.unwrap_into_iter(a0[1]) if a0[0] == 'next' else ('unknown',)
                            okc = src[0] == 'call' and src[1] == 'core::slice::chunks_exact' and q.const_val(src[2][1]) == width and is_param(strip_casts(src[2][0]), 1)
                            L_ = fb.cfg.loop_of(c.bb)
                            pushes = [p_ for p_ in q.calls(fb, 'std::vec::Vec::push') if L_ is not None and p_.bb in L_['body'] and
                                      any(x[0] == 'call' and x[3] == (fb.name, c.bb) for x in walk(q.arg_terms(p_)[1]))]
                            okl = L_ is not None and len(pushes) == 1 and all(fb.cfg.dominates(pushes[0].bb, x) for x, _ in L_['back_edges']) and \
                                all(k in ('exhausted', 'err', 'unreachable') for _, _, k in q.loop_exit_kinds(fb, L_))
                            desc.append('%s over chunks_exact(%s) in a push loop' % (conv.split('::')[-1], show(src[2][1]) if src[0] == 'call' else '?'))
                            if okc and okl:
                                vec_t = strip_casts(q.arg_terms(pushes[0])[0])
                                ok = any(x[0] == 'agg' and x[2] == variant and strip_casts(dict(x[3]).get('0', ('unknown',))) == vec_t for r_ in rets for x in walk(r_))
                ctx.inst('V', 'from_bytes#' + str(nm), ok, 'from_bytes for %s: %s; must convert %s' % (nm, desc, 'each %d-byte group with %s'
                         % (width, conv.split('::')[-1]) if conv else 'the bytes verbatim as indices'), tm['span'], key='%s|V|%s' % (fb.name, nm))
        else:
            ctx.fail(fb.name + '|V|no-match', 'from_bytes: no single match on the pixel format')
    ca = ctx.anchor(PX + 'Pixels::clone_as_image_rgba')
    if ca is not None:
        t = res(ca).ret()
        got = {}
        for a in alts(t):
            inner = dict(a[3]).get('0') if a[0] == 'agg' else None
            if a[0] == 'agg' and a[2] == 'Borrowed':
                got['Rgba'] = inner == ('field', ('variant', ('param', 1, 'self'), 'Rgba'), '0')
            elif inner is not None and inner[0] == 'call' and inner[1] == 'std::iter::Iterator::collect':
                mp = inner[2][0]
                src = mp[2][0] if mp[0] == 'call' else None
                cl = mp[2][1] if mp[0] == 'call' else None
                which = [x[2] for x in walk(src) if x[0] == 'variant'] if src else []
                cb = fx.by_path.get(cl[1]) if cl and cl[0] == 'closure' else None
                if which == ['Grayscale'] and cb is not None:
                    r_ = res(cb).ret()
                    got['Grayscale'] = r_[0] == 'call' and r_[1] == PX + 'Grayscale::into_rgba'
                if which == ['Indexed'] and cb is not None:
                    r_ = expand(subst_closure(res(cb).ret(), {}, cl), fx, 2, (PX + 'Indexed::as_rgba',))
                    asr = [x for x in walk(r_) if x[0] == 'call' and x[1] == PX + 'Indexed::as_rgba']
                    okx = False
                    for x in asr:
                        a_ = x[2]
                        okx = [tuple(field_path(y)[1]) for y in a_[1:]] == [('palette',), ('transparent_color_index',), ('layer_is_background',)] and \
                            all(field_path(y)[0] == ('variant', ('param', 1, 'self'), 'Indexed') for y in a_[1:])
                    got['Indexed'] = okx
        ok = got == {'Rgba': True, 'Grayscale': True, 'Indexed': True}
        ctx.inst('V', 'clone_as_image_rgba', ok, 'clone_as_image_rgba per variant %s; must be Rgba verbatim, Grayscale via into_rgba, Indexed via '
                 'as_rgba(its own palette, transparent index, background flag)' % got, ca.span, key=ca.name + '|V')

    # ---------- background flag / transparent index capture
    rv = ctx.anchor('asefile::cel::RawCel::validate')
    if rv is not None:
        cs = q.calls(rv, 'asefile::cel::ImageContent::validate')
        ctx.floor('ImageContent::validate calls in RawCel::validate', len(cs), 1)
        for c in cs:
            at = q.arg_terms(c)
            bgt = at[3]
            ok = bgt[0] == 'call' and bgt[1] == 'asefile::layer::LayerData::is_background'
            if ok:
                ly = bgt[2][0]
                ok = ly[0] == 'call' and ly[1].endswith('LayersData as std::ops::Index>::index') and is_param(ly[2][0], 3) and \
                    is_param_path(strip_casts(ly[2][1]), 2, ['layer'])
            ctx.inst('B', 'layer_is_background', ok, 'background flag = %s; must be layers[cel_id.layer].is_background()' % show(bgt)[:120], c.span,
                     key=rv.name + '|B|flag')
    background_flag_test(ctx, 'B')
    for fn, idx in (('asefile::cel::ImageContent::validate', 4), ):
        ib2 = ctx.anchor(fn)
        if ib2 is not None:
            for c in q.calls(ib2, PX + 'RawPixels::validate'):
                at = q.arg_terms(c)
                ok = is_param(at[3], 4) and is_param(at[2], 3) and is_param(at[1], 2)
                ctx.inst('B', fn.split('::')[-2] + '::validate', ok, 'passes (palette, format, background) = (%s, %s, %s) through unchanged'
                         % (show(at[1]), show(at[2]), show(at[3])), c.span, key=fn + '|B|pass')
    pvv = ctx.anchor(PX + 'RawPixels::validate')
    if pvv is not None:
        for bb, st, t in q.stmt_aggs(pvv, PX + 'Pixels', 'Indexed'):
            f = dict(t[3])
            tci = f.get('transparent_color_index')
            ok1 = tci is not None and tci[0] == 'field' and tci[2] == 'transparent_color_index' and tci[1][0] == 'variant' and is_param(tci[1][1], 3)
            ok2 = is_param(f.get('layer_is_background'), 4)
            ctx.inst('B', 'Pixels::Indexed', ok1 and ok2, 'Pixels::Indexed{transparent_color_index: %s, layer_is_background: %s}; must be the file '
                     'format\'s index and the flag argument' % (show(tci), show(f.get('layer_is_background'))), st['span'], key=pvv.name + '|B|fields')
    tv = ctx.anchor('asefile::tileset::TilesetsById::validate')
    if tv is not None:
        for c in q.calls(tv, PX + 'RawPixels::validate'):
            at = q.arg_terms(c)
            ctx.inst('B', 'tileset pixels', q.const_val(at[3]) == 0, 'tileset pixels are validated with background flag %s (must be false)' % show(at[3]),
                     c.span, key=tv.name + '|B|tileset')
    ra = ctx.anchor('asefile::parse::read_aseprite')
    if ra is not None:
        for bb, st, t in q.stmt_aggs(ra, 'asefile::file::AsepriteFile'):
            pfv = dict(t[3]).get('pixel_format')
            ok = pfv is not None and pfv[0] == 'call' and pfv[1] == 'asefile::parse::parse_pixel_format'
            ctx.inst('B', 'AsepriteFile.pixel_format', ok, 'pixel_format = %s; must be parse_pixel_format(depth, transparent index)' % show(pfv)[:100],
                     st['span'], key=ra.name + '|B|pf')
        for c in q.calls(ra, 'asefile::parse::ParseInfo::validate'):
            at = q.arg_terms(c)
            ok = at[1][0] == 'call' and at[1][1] == 'asefile::parse::parse_pixel_format'
            ctx.inst('B', 'validate(pixel_format)', ok, 'ParseInfo::validate receives %s' % show(at[1])[:80], c.span, key=ra.name + '|B|validate-pf')

    link_resolution(ctx, 'N')
    validate_keeps_pixels(ctx, 'V')
    layer_opacity_as_stored(ctx, 'K5')
    if rv is not None:
        for c in q.calls(rv):
            if c.callee in ('std::ops::Fn::call',):
                at = q.arg_terms(c)
                if is_param(at[0], 6) or (at[0][0] == 'param' and 'validate_ref' == at[0][2]):
                    cid = at[1][1][0] if at[1][0] == 'tuple' else None
                    f = dict(cid[3]) if cid is not None and cid[0] == 'agg' else {}
                    fr, ly = f.get('frame'), f.get('layer')
                    ok = fr is not None and fr[0] == 'field' and fr[2] == '0' and fr[1][0] == 'variant' and fr[1][2] == 'Linked' and \
                        is_param_path(ly, 2, ['layer'])
                    ctx.inst('N', 'validate_ref', ok, 'link target validated as %s; must be CelId{frame: linked frame, layer: this cel\'s layer}'
                             % show(cid)[:120], c.span, key=rv.name + '|N|validate_ref')
                    fates = q.result_fates(rv, c.dest['l'])
                    ctx.inst('N', 'validate_ref#propagated', bool(fates) and all(f_[0] == 'try' for f_ in fates), 'link validation result is ?-propagated',
                             c.span, key=rv.name + '|N|propagated')

    # .. and the question "may this cel be linked to?" is answered from the *whole* input table, in whatever direction the link points:
    # the closure handed to RawCel::validate captures only data derived from self.data (built before the conversion loop), never the
    # output that loop is still filling (seed C06-n looked the target up in `result`, so links to a later frame were refused)
    cvb = ctx.anchor('asefile::cel::CelsData::validate')
    if cvb is not None and rv is not None:
        ncl = 0
        for c in q.calls(cvb, rv.name):
            for a_ in q.arg_terms(c):
                found = [x for x in walk(a_) if isinstance(x, tuple) and x and x[0] == 'closure']
                nested = {y for x in found for _n, t_ in x[2] for y in walk(t_) if isinstance(y, tuple) and y and y[0] == 'closure'}
                for x in found:
                    if x in nested:
                        continue            # a closure inside the captured table's own construction
                    if True:
                        ncl += 1
                        caps = [t_ for _n, t_ in x[2]]
                        def scans_input(t_):
                            return any(isinstance(y, tuple) and y and y[0] == 'call' and y[1].split('::')[-1] in ('iter', 'into_iter') and
                                       any(is_param_path(z, 1, ['data']) for z in walk(y)) for y in walk(t_))
                        from_input = bool(caps) and all(scans_input(t_) for t_ in caps)
                        grown = {strip_casts(q.arg_terms(p_)[0]) for p_ in q.calls(cvb, 'std::vec::Vec::push')}
                        from_output = any(isinstance(y, tuple) and y and y[0] == 'agg' and (y[1] or '').endswith('cel::CelsData') for t_ in caps for y in walk(t_)) or \
                            any(strip_casts(t_) in grown for t_ in caps)
                        ctx.inst('N', 'validate_ref#table', from_input and not from_output, 'the link-target test captures %s; must be a table built from '
                                 'self.data before the loop (not the output under construction)' % [show(t_)[:60] for t_ in caps], c.span,
                                 key=cvb.name + '|N|link-table')
        ctx.floor('link-target closures handed to RawCel::validate', ncl, 1)

    # ---------- emptiness / offset of absent cel
    ie = ctx.anchor('asefile::cel::Cel::is_empty')
    if ie is not None:
        t = res(ie).ret()
        ok = t[0] == 'call' and t[1] == 'std::option::Option::is_none' and t[2][0][0] == 'call' and t[2][0][1] == 'asefile::cel::CelsData::cel'
        ctx.inst('E', 'Cel::is_empty', ok, 'is_empty = %s; must be framedata.cel(id).is_none() without negation' % show(t), ie.span, key=ie.name + '|E')
    li = ctx.anchor(AF + 'layer_image')
    if li is not None:
        for c in q.calls(li, AF + 'write_cel'):
            ok = False
            for cond, vals, a in q.guards(li, c.bb):
                if cond[0] == 'discr' and cond[1][0] == 'call' and cond[1][1] == 'asefile::cel::CelsData::cel' and vals == [1]:
                    ok = is_param_path(cond[1][2][0], 1, ['framedata']) and is_param(cond[1][2][1], 2)
            ctx.inst('E', 'layer_image', ok, 'layer_image draws only under Some(cel) of framedata.cel(cel_id)', c.span, key=li.name + '|E')
    tl = ctx.anchor('asefile::cel::Cel::top_left')
    if tl is not None:
        t = expand(res(tl).ret(), fx, 2, ('asefile::cel::Cel::raw_cel', 'asefile::cel::CelsData::cel'))
        got = []
        for a in alts(t):
            if a[0] == 'tuple' and len(a[1]) == 2:
                if all(q.const_val(x) == 0 for x in a[1]):
                    got.append('zero')
                else:
                    okk = True
                    for x, fld in zip(a[1], ('x', 'y')):
                        cs_, inner = casts_on(x)
                        base, ns = field_path(inner)
                        okk = okk and ns[-2:] == ['data', fld] and cs_ == [('i16', 'i32')] and base[0] == 'call' and base[1] == 'asefile::cel::Cel::raw_cel'
                    got.append('xy' if okk else 'bad:' + show(a)[:80])
        ok = sorted(got) == ['xy', 'zero']
        ctx.inst('E', 'Cel::top_left', ok, 'top_left alternatives %s; must be (x as i32, y as i32) of the raw cel, or (0, 0) when absent' % got, tl.span,
                 key=tl.name + '|E')
    # ---------- indexed pixels of any (also sparse) palette: the load-time validator accepts exactly the indices that are palette keys
    import invariants as _inv
    okv, whyv = _inv.validator_scans_all(fx)
    ctx.inst('V', 'indexed-pixel validator', okv, 'validate_indexed_pixels: %s (a dense-palette shortcut would reject valid sprites with a sparse '
             'palette and accept indices that have no colour)' % whyv, None, key='asefile::palette::ColorPalette::validate_indexed_pixels|V|scan')
    # an absent cel reads as empty, whichever slot it is: CelsData::cel looks the layer up with a bounds-checked access (a row is only
    # as long as the highest layer that has a cel in that frame; seed C06-s dropped the check "because callers assert layer < num_layers")
    import panics as _pn
    import totality as _Tt
    cb_ = ctx.anchor('asefile::cel::CelsData::cel')
    if cb_ is not None:
        for s_ in _pn.inventory(fx, [cb_]):
            if s_.kind not in ('ext:index', 'ext:index_mut') or not any(isinstance(x, tuple) and x and x[0] == 'field' and x[2] == 'layer'
                                                                         for a_ in s_.detail.get('args', [])[1:] for x in walk(a_)):
                continue
            why_ = _Tt.guard_index(s_)
            ctx.inst('E', 'CelsData::cel#layer-bound', why_ is not None, 'the row is indexed with the layer %s' % (
                'under a bounds test: a layer beyond the row reads as "no cel"' if why_ else 'WITHOUT a bounds test: an absent cel above the last stored one panics'),
                s_.span, key=cb_.name + '|E|layer-bound')
    layout.tile_words(ctx, 'T')
    # ---------- shared skeleton clauses
    import iorules as _io
    _io.take_bytes_length_check(ctx, 'V')       # the inflater may deliver the whole expected size (seed C06-j capped it at 1 MiB + 1)
    render.cel_rows_grow_only(ctx, rule='E')   # a stored cel cannot be dropped by a later chunk of a lower layer (seed C06-k): it would read as empty
    import common as _common
    _common.rejection_inventory(ctx, 'N')
    import C17 as _c17
    _c17.normal_divisions(ctx, 'K5')          # Cel::image blends every pixel onto a transparent canvas through normal() (seed C06-l)
    import C11 as _c11d
    import rule as _Rv
    _c11d.precedence(ctx, rule='V')          # .. and which chunk's palette that is: the new chunk always, an old one only before it (seed C06-p)
    _c11d.decoders(_Rv.View(ctx, {'L1': 'L1/L2', 'P1': 'V', 'P2': 'V', 'P3': 'V'}))     # indexed pixels become the colour the palette chunks give that index (seed C06-m)
    render.layer_image_unconditional(ctx, rule='N')
    render.drawing_conditions(ctx, 'N')        # no fast path / skip decides whether (or how) a cel's pixels reach the image (seed C06-q)
    # Cel::image is the shared routine's image for (file, cel id), handed on untouched: no fast path of its own (seed C06-i)
    render.image_delegation(ctx, rule='N', only=('asefile::cel::Cel::image',))
    render.opacity_and_mode(ctx)
    render.operands_and_offset(ctx)
    render.no_extra_skips(ctx, rule='K8')
    ctx.samples = [i for i in ctx.instances if i['rule'] in ('T', 'V', 'B', 'N', 'E')][:18]
