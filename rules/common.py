"""Rules shared between properties: error discipline (P8), cones, reader primitives."""
import q
import callgraph as CG
from terms import show, alts, walk, strip_casts
from q import is_param, res

READER = 'asefile::reader::AseReader::'
READ_PRIMS = ['byte', 'word', 'short', 'dword', 'long', 'string', 'read_exact', 'read_vec', 'skip_reserved', 'take_bytes', 'unzip']
VALUE_READS = {READER + k for k in ('byte', 'word', 'short', 'dword', 'long', 'string')}


def is_read(t, kinds=None):
    if not (isinstance(t, tuple) and t[0] == 'call' and t[1].startswith(READER)):
        return False
    k = t[1][len(READER):]
    if kinds is not None:
        return k in kinds
    return k in READ_PRIMS


def read_kind(t):
    return t[1][len(READER):]


def load_bodies(ctx):
    cone = CG.load_cone(ctx.fx)
    return [b for b in ctx.fx.bodies if b.path in cone]


def error_discipline(ctx, bodies, rule='P8'):
    """every Result-typed call result in `bodies` is `?`-propagated, returned, or fed to a Result combinator whose
    output is itself propagated.  Returns number of fallible call sites examined."""
    n = 0
    for b in bodies:
        if b.kind == 'promoted':
            continue
        for c in q.calls(b):
            ty = c.dest['ty']
            if not q.ty_is_result(ty) or c.dest['p']:
                continue
            name = q.callee_name(c)
            if name in q.RESULT_PROPAGATORS:
                continue
            n += 1
            fates = q.result_fates(b, c.dest['l'])
            bad = []
            for f, bb, sp in fates:
                if f in ('try', 'returned', 'ret'):
                    continue
                if f == 'matched' and bb is not None:
                    # a local match is fine when its Err arm always returns an error
                    sw = None
                    for x in [bb] + b.cfg.succ[bb]:
                        t = b.blocks[x]['term']
                        if t and t['k'] == 'switch':
                            sw = x
                            break
                    if sw is not None:
                        tm = b.blocks[sw]['term']
                        errs = [s for v, s in tm['targets'] if v == 1]
                        if not errs:
                            errs = [tm['otherwise']]
                        if all(q.arm_always_err(b, s) for s in errs):
                            continue
                bad.append(f)
            ok = not bad
            ctx.inst(rule, '%s -> %s' % (b.name, name), ok,
                     'Result of %s %s' % (name, 'is propagated (%s)' % ','.join(sorted(set(f[0] for f in fates)))
                                          if ok else 'is not propagated: ' + ','.join(sorted(set(bad)))),
                     c.span, nontrivial=True,
                     key=ctx.key(b.name, rule, name, ','.join(sorted(set(bad)))) if not ok else
                     ctx.key(b.name, rule, name, 'ok'))
        # Result implements IntoIterator (0 or 1 item): flat_map / flatten over Results silently drops every Err (seeds C13-e, C14-k,
        # C15-i).  The generic arguments of the adapter say what is being flattened
        for c in q.calls(b):
            if c.callee in ('std::iter::Iterator::flat_map', 'std::iter::Iterator::flatten') and c.fn:
                ga = c.fn.get('args') or []
                inner = ga[1] if c.callee.endswith('flat_map') and len(ga) > 1 else (ga[0] if ga else '')
                if c.callee.endswith('flatten'):
                    inner = ga[0] if ga else ''
                    swallow = 'Item = std::result::Result<' in inner or inner.rstrip('>').endswith('error::AsepriteParseError') and 'Result<' in inner
                else:
                    swallow = q.ty_is_result(inner)
                if swallow:
                    n += 1
                    ctx.inst(rule, '%s -> %s' % (b.name, c.callee.split('::')[-1]), False, '%s flattens Result values (%s): every Err is dropped '
                             'without a trace' % (c.callee.split('::')[-1], inner[:70]), c.span, key=ctx.key(b.name, rule, c.callee, 'swallows'))
    return n


def propagated_call(ctx, body, call, rule, what):
    """one specific call's Result must be propagated"""
    fates = q.result_fates(body, call.dest['l'])
    ok = all(f[0] in ('try', 'returned', 'ret') for f in fates) and fates
    ctx.inst(rule, '%s -> %s' % (body.name, q.callee_name(call)), bool(ok),
             '%s: result %s' % (what, 'propagated with ?' if ok else 'NOT propagated (%s)' % sorted(set(f[0] for f in fates))),
             call.span, key=ctx.key(body.name, rule, 'propagate', q.callee_name(call)))
    return bool(ok)


def ok_defs(body):
    """[(bb, term)] whole defs of _0 that are not error values"""
    out = []
    for d in q.defs_in(body, body.cfg.reach):
        if d[0] == 0 and not d[1]:
            for a in alts(d[2]):
                if not q.is_err_term(a):
                    out.append((d[3], a))
    return out


def dominates_ok_returns(body, bb):
    """bb dominates every non-error definition of the return value"""
    oks = ok_defs(body)
    return bool(oks) and all(body.cfg.dominates(bb, b) for b, _ in oks)


def dispatch_arms(body):
    """The `match chunk_type { .. }` of parse_frame as a list of (kind, entry block, region, outer switch block): the region of a
    kind is what executes when the chunk has that kind.  Usually one switch; when arms have been merged (`A | B => { shared;
    match chunk_type { A => .., B => .. } }`) the inner switches on the same discriminant are followed along the matching edge
    only, so every kind still gets its own region.  Returns None when no dispatch switch is found."""
    import C10 as _c10
    sws = [s for s in q.switches_on(body, lambda d: d[0] == 'discr') if 'OldPalette04' in _c10.switch_variants(body, s).values()]
    if not sws:
        return None
    outer = [s for s in sws if all(body.cfg.dominates(s, o) for o in sws)]
    if len(outer) != 1:
        return None
    outer = outer[0]
    d0 = q.switch_cond(body, outer)
    inner = [s for s in sws if s != outer and q.switch_cond(body, s) == d0]
    if len(inner) != len(sws) - 1:
        return None          # a second match on a *different* chunk: not the shape this helper understands
    names = _c10.switch_variants(body, outer)
    tm = body.blocks[outer]['term']
    out = []
    for v, s in tm['targets']:
        kind = names.get(v, str(v))
        base = q.edge_region(body, outer, s)
        reg = set()
        work = [s]
        while work:
            x = work.pop()
            if x in reg or x not in base:
                continue
            reg.add(x)
            if x in inner:
                t2 = body.blocks[x]['term']
                nxt = [s2 for v2, s2 in t2['targets'] if v2 == v] or [t2['otherwise']]
                work.extend(nxt)
            else:
                work.extend(body.cfg.succ[x])
        out.append((kind, s, reg, outer))
    return out


def is_byte_size(fx, sz, fmt_idx, cnt_idx):
    """sz is bytes_per_pixel(<param fmt_idx>) * <param cnt_idx>, written inline or through pixel::output_size (whose body is then
    required to be that product of its own two parameters)"""
    def product(t, fi, ci):
        t = strip_casts(t)
        if t[0] != 'bin' or t[1] not in ('Mul', 'MulWithOverflow'):
            return False
        kinds = set()
        for x in (strip_casts(t[2]), strip_casts(t[3])):
            if x[0] == 'call' and x[1].endswith('PixelFormat::bytes_per_pixel') and is_param(strip_casts(x[2][0]), fi):
                kinds.add('bpp')
            elif is_param(x, ci):
                kinds.add('n')
        return kinds == {'bpp', 'n'}
    sz = strip_casts(sz)
    if sz[0] == 'call' and sz[1] == 'asefile::pixel::output_size':
        ob = fx.body('asefile::pixel::output_size')
        return ob is not None and product(res(ob).ret(), 1, 2) and is_param(strip_casts(sz[2][0]), fmt_idx) and is_param(strip_casts(sz[2][1]), cnt_idx)
    return product(sz, fmt_idx, cnt_idx)
