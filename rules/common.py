"""Rules shared between properties: error discipline (P8), cones, reader primitives."""
import q
import callgraph as CG
from terms import show, alts, walk, strip_casts
from q import is_param, res

READER = 'asefile::reader::AseReader::'
READ_PRIMS = ['byte', 'word', 'short', 'dword', 'long', 'string', 'read_exact', 'read_vec', 'skip_reserved', 'take_bytes', 'unzip']
VALUE_READS = {READER + k for k in ('byte', 'word', 'short', 'dword', 'long', 'string')}


def is_read(t, kinds=None):
    if not (isinstance(t, tuple) and t[0] == 'call' and t[1].startswith(READER)):
        return False
    k = t[1][len(READER):]
    if kinds is not None:
        return k in kinds
    return k in READ_PRIMS


def read_kind(t):
    return t[1][len(READER):]


def load_bodies(ctx):
    cone = CG.load_cone(ctx.fx)
    return [b for b in ctx.fx.bodies if b.path in cone]


def error_discipline(ctx, bodies, rule='P8'):
    """every Result-typed call result in `bodies` is `?`-propagated, returned, or fed to a Result combinator whose
    output is itself propagated.  Returns number of fallible call sites examined."""
    n = 0
    for b in bodies:
        if b.kind == 'promoted':
            continue
        for c in q.calls(b):
            ty = c.dest['ty']
            if not q.ty_is_result(ty) or c.dest['p']:
                continue
            name = q.callee_name(c)
            if name in q.RESULT_PROPAGATORS:
                continue
            n += 1
            fates = q.result_fates(b, c.dest['l'])
            bad = []
            for f, bb, sp in fates:
                if f in ('try', 'returned', 'ret'):
                    continue
                if f == 'matched' and bb is not None:
                    # a local match is fine when its Err arm always returns an error
                    sw = None
                    for x in [bb] + b.cfg.succ[bb]:
                        t = b.blocks[x]['term']
                        if t and t['k'] == 'switch':
                            sw = x
                            break
                    if sw is not None:
                        tm = b.blocks[sw]['term']
                        errs = [s for v, s in tm['targets'] if v == 1]
                        if not errs:
                            errs = [tm['otherwise']]
                        if all(q.arm_always_err(b, s) for s in errs):
                            continue
                bad.append(f)
            ok = not bad
            ctx.inst(rule, '%s -> %s' % (b.name, name), ok,
                     'Result of %s %s' % (name, 'is propagated (%s)' % ','.join(sorted(set(f[0] for f in fates)))
                                          if ok else 'is not propagated: ' + ','.join(sorted(set(bad)))),
                     c.span, nontrivial=True,
                     key=ctx.key(b.name, rule, name, ','.join(sorted(set(bad)))) if not ok else
                     ctx.key(b.name, rule, name, 'ok'))
        # Result implements IntoIterator (0 or 1 item): flat_map / flatten over Results silently drops every Err (seeds C13-e, C14-k,
        # C15-i).  The generic arguments of the adapter say what is being flattened
        for c in q.calls(b):
            if c.callee in ('std::iter::Iterator::flat_map', 'std::iter::Iterator::flatten') and c.fn:
                ga = c.fn.get('args') or []
                inner = ga[1] if c.callee.endswith('flat_map') and len(ga) > 1 else (ga[0] if ga else '')
                if c.callee.endswith('flatten'):
                    inner = ga[0] if ga else ''
                    swallow = 'Item = std::result::Result<' in inner or inner.rstrip('>').endswith('error::AsepriteParseError') and 'Result<' in inner
                else:
                    swallow = q.ty_is_result(inner)
                if swallow:
                    n += 1
                    ctx.inst(rule, '%s -> %s' % (b.name, c.callee.split('::')[-1]), False, '%s flattens Result values (%s): every Err is dropped '
                             'without a trace' % (c.callee.split('::')[-1], inner[:70]), c.span, key=ctx.key(b.name, rule, c.callee, 'swallows'))
    return n


def propagated_call(ctx, body, call, rule, what):
    """one specific call's Result must be propagated"""
    fates = q.result_fates(body, call.dest['l'])
    ok = all(f[0] in ('try', 'returned', 'ret') for f in fates) and fates
    ctx.inst(rule, '%s -> %s' % (body.name, q.callee_name(call)), bool(ok),
             '%s: result %s' % (what, 'propagated with ?' if ok else 'NOT propagated (%s)' % sorted(set(f[0] for f in fates))),
             call.span, key=ctx.key(body.name, rule, 'propagate', q.callee_name(call)))
    return bool(ok)


def ok_defs(body):
    """[(bb, term)] whole defs of _0 that are not error values"""
    out = []
    slots = q.result_slots(body)
    ho = q._handoffs(body)
    for d in q.defs_in(body, body.cfg.reach):
        if d[0] in slots and not d[1] and (d[3], d[0]) not in ho:
            for a in alts(d[2]):
                if not q.is_err_term(a):
                    out.append((d[3], a))
    return out


def dominates_ok_returns(body, bb):
    """bb dominates every non-error definition of the return value"""
    oks = ok_defs(body)
    return bool(oks) and all(body.cfg.dominates(bb, b) for b, _ in oks)


def dispatch_arms(body):
    """The `match chunk_type { .. }` of parse_frame as a list of (kind, entry block, region, outer switch block): the region of a
    kind is what executes when the chunk has that kind.  Usually one switch; when arms have been merged (`A | B => { shared;
    match chunk_type { A => .., B => .. } }`) the inner switches on the same discriminant are followed along the matching edge
    only, so every kind still gets its own region.  Returns None when no dispatch switch is found."""
    import C10 as _c10
    sws = [s for s in q.switches_on(body, lambda d: d[0] == 'discr') if 'OldPalette04' in _c10.switch_variants(body, s).values()]
    if not sws:
        return None
    outer = [s for s in sws if all(body.cfg.dominates(s, o) for o in sws)]
    if len(outer) != 1:
        return None
    outer = outer[0]
    d0 = q.switch_cond(body, outer)
    inner = [s for s in sws if s != outer and q.switch_cond(body, s) == d0]
    if len(inner) != len(sws) - 1:
        return None          # a second match on a *different* chunk: not the shape this helper understands
    names = _c10.switch_variants(body, outer)
    tm = body.blocks[outer]['term']
    out = []
    for v, s in tm['targets']:
        kind = names.get(v, str(v))
        base = q.edge_region(body, outer, s)
        reg = set()
        work = [s]
        while work:
            x = work.pop()
            if x in reg or x not in base:
                continue
            reg.add(x)
            if x in inner:
                t2 = body.blocks[x]['term']
                nxt = [s2 for v2, s2 in t2['targets'] if v2 == v] or [t2['otherwise']]
                work.extend(nxt)
            else:
                work.extend(body.cfg.succ[x])
        out.append((kind, s, reg, outer))
    return out


def is_byte_size(fx, sz, fmt_idx, cnt_idx):
    """sz is bytes_per_pixel(<param fmt_idx>) * <param cnt_idx>, written inline or through pixel::output_size (whose body is then
    required to be that product of its own two parameters)"""
    def product(t, fi, ci):
        t = strip_casts(t)
        if t[0] != 'bin' or t[1] not in ('Mul', 'MulWithOverflow'):
            return False
        kinds = set()
        for x in (strip_casts(t[2]), strip_casts(t[3])):
            if x[0] == 'call' and x[1].endswith('PixelFormat::bytes_per_pixel') and is_param(strip_casts(x[2][0]), fi):
                kinds.add('bpp')
            elif is_param(x, ci):
                kinds.add('n')
        return kinds == {'bpp', 'n'}
    sz = strip_casts(sz)
    if sz[0] == 'call' and sz[1] == 'asefile::pixel::output_size':
        ob = fx.body('asefile::pixel::output_size')
        return ob is not None and product(res(ob).ret(), 1, 2) and is_param(strip_casts(sz[2][0]), fmt_idx) and is_param(strip_casts(sz[2][1]), cnt_idx)
    return product(sz, fmt_idx, cnt_idx)


ARM_STATE = {
    'Layer': {'layers', 'user_data_context'}, 'Cel': {'framedata', 'user_data_context'}, 'Tags': {'tags', 'user_data_context'},
    'Palette': {'palette'}, 'OldPalette04': {'palette', 'user_data_context'}, 'OldPalette11': {'palette', 'user_data_context'},
    'UserData': {'framedata', 'layers', 'slices', 'sprite_user_data', 'tags', 'user_data_context'},
    'Slice': {'slices', 'user_data_context'}, 'ExternalFiles': {'external_files'}, 'Tileset': {'tilesets'}, 'ColorProfile': {'color_profile'},
    'CelExtra': set(), 'Mask': set(), 'Path': set(),
}


def arm_state_independence(ctx, rule):
    """each chunk kind touches (reads, writes or borrows) only its own part of the parser state - the tables the format says it
    feeds, plus the user-data context.  A Cel arm that looks at the layers seen so far (seeds C02-m, C09-m, C15-m: cels whose layer
    chunk comes later are skipped or refused), a Tileset arm that looks at the frame number .. makes the result depend on the order
    in which a writer happened to emit its chunks.  ParseInfo methods are inlined into the arms first."""
    fx = ctx.fx
    PF = 'asefile::parse::parse_frame'
    b0 = ctx.anchor(PF)
    if b0 is None:
        return
    helpers = [b.name for b in fx.bodies if b.name.startswith('asefile::parse::ParseInfo::') and '{closure' not in b.name
               and b.name.split('::')[-1] not in ('new', 'validate')]
    v = fx.inlined_view(PF, helpers) or b0
    arms = dispatch_arms(v)
    pis = [i for i in range(1, v.arg_count + 1) if v.locals[i]['ty'].replace(' ', '') == '&mutparse::ParseInfo']
    if arms is None or not pis:
        ctx.fail(PF + '|%s|no-dispatch' % rule, 'parse_frame: no ChunkType dispatch / ParseInfo parameter found')
        return
    aliases = {pis[0]}
    changed = True
    while changed:
        changed = False
        for blk in v.blocks:
            for st in blk['stmts']:
                if st['k'] == 'assign' and not st['p']['p']:
                    rv = st['rv']
                    src = None
                    if rv['k'] == 'use' and rv['op'].get('k') in ('copy', 'move') and not rv['op']['p']['p']:
                        src = rv['op']['p']['l']
                    if rv['k'] == 'ref' and rv.get('p', {}).get('p') == [{'k': 'deref'}]:
                        src = rv['p']['l']
                    if src in aliases and st['p']['l'] not in aliases:
                        aliases.add(st['p']['l'])
                        changed = True

    def touched(blk):
        out = set()

        def rec(o):
            if isinstance(o, dict):
                if 'l' in o and isinstance(o.get('p'), list):
                    pr = o['p']
                    if o['l'] in aliases and len(pr) > 1 and pr[0].get('k') == 'deref' and pr[1].get('k') == 'field':
                        out.add(pr[1]['n'])
                for x in o.values():
                    rec(x)
            elif isinstance(o, list):
                for x in o:
                    rec(x)
        rec(blk['stmts'])
        rec(blk['term'])
        return out
    n = 0
    for kind, s_, reg, sw in arms:
        if kind not in ARM_STATE:
            continue
        n += 1
        t = set()
        for bi in reg:
            t |= touched(v.blocks[bi])
        extra = sorted(t - ARM_STATE[kind])
        ctx.inst(rule, 'arm state ' + str(kind), not extra, '%s chunk touches parser state %s; beyond its own tables: %s' % (kind, sorted(t), extra or 'nothing'),
                 v.blocks[s_]['term'].get('span') if v.blocks[s_]['term'] else None, key='%s|%s|state|%s' % (PF, rule, kind))
    ctx.floor('dispatch arms judged for state independence', n, 12)


# error values the loader builds itself on the pinned tree (constructions of AsepriteParseError::{InvalidInput, UnsupportedFeature,
# InternalError, ..} in the loader cone and its closures), per function for the report; what is compared is the total
REJECTIONS = {
    "asefile::cel::CelContent::parse": 1, "asefile::cel::CelsData::add_cel": 1, "asefile::cel::CelsData::check_valid_frame_id": 1,
    "asefile::cel::CelsData::validate": 2, "asefile::cel::RawCel::validate": 2, "asefile::color_profile::parse_chunk": 2,
    "asefile::color_profile::parse_color_profile_type": 1, "asefile::layer::LayersData::from_vec": 1, "asefile::layer::LayersData::validate": 1,
    "asefile::layer::compute_parents": 1, "asefile::layer::parse_blend_mode": 1, "asefile::layer::parse_layer_type": 1,
    "asefile::palette::ColorPalette::validate_indexed_pixels": 1, "asefile::palette::parse_chunk": 1, "asefile::palette::scale_6bit_to_8bit": 1,
    "asefile::parse::ParseInfo::add_user_data": 4, "asefile::parse::ParseInfo::set_tag_user_data": 2, "asefile::parse::check_chunk_bytes": 2,
    "asefile::parse::parse_chunk_type": 1, "asefile::parse::parse_frame": 1, "asefile::parse::parse_pixel_format": 1,
    "asefile::parse::read_aseprite": 2, "asefile::pixel::RawPixels::from_bytes": 2, "asefile::pixel::RawPixels::validate": 2,
    "asefile::reader::AseReader::take_bytes": 1, "asefile::reader::AseReader::unzip": 1, "asefile::tags::parse_animation_direction": 1,
    "asefile::tilemap::TilemapData::parse_chunk": 1, "asefile::tilemap::TilemapData::validate_tile_ids": 1,
    "asefile::tileset::Tileset::parse_chunk": 2, "asefile::tileset::TilesetsById::validate": 1,
}


def rejection_inventory(ctx, rule):
    """the loader builds an error value of its own (InvalidInput / UnsupportedFeature / InternalError ..) at N places (table above:
    counted as constructions of AsepriteParseError variants other than IoError in the loader cone and its closures), each reviewed
    against the format: a well-formed file reaches none of them.  One more construction anywhere in the loader is a new way to refuse
    a file, and nothing shows that only malformed files meet it (seeds C09-m/n: "robustness" checks stricter than the format).
    Counting constructions makes the rule blind to how the test in front of the error is spelled (`ok_or_else(..)?`, `match`,
    `if x.is_none()`, merged `||` guards share one construction) and to moves between functions; a genuinely new, correct refusal of
    malformed input has to be entered in the table."""
    fx = ctx.fx
    load = [fx.by_path[p] for p in sorted(CG.load_cone(fx)) if fx.by_path[p].kind != 'promoted']
    names = {b.name for b in load}
    bodies = list(load) + [b for b in fx.bodies if '{closure' in b.name and b.name.split('::{closure')[0] in names and b not in load]
    got = {}
    for b in bodies:
        if b.name.startswith('asefile::<'):
            continue
        n = 0
        for bb, st, t in q.stmt_aggs(b, 'asefile::error::AsepriteParseError'):
            if t[2] != 'IoError':
                n += 1
        if n:
            got[b.name.split('::{closure')[0]] = got.get(b.name.split('::{closure')[0], 0) + n
    total, want = sum(got.values()), sum(REJECTIONS.values())
    more = {k: (v, REJECTIONS.get(k, 0)) for k, v in got.items() if v > REJECTIONS.get(k, 0)}
    ctx.inst(rule, 'explicit refusals in the loader', total <= want, 'the loader constructs an error value of its own at %d places (reviewed: %d)%s' % (
        total, want, '; more than reviewed in: %s' % ', '.join('%s (%d, was %d)' % (k.split('asefile::')[-1], a_, b_) for k, (a_, b_) in sorted(more.items()))
        if total > want else ''), None, key='LOAD|%s|refusals' % rule)
    ctx.floor('error constructions found in the loader', total, 25)
    ctx.extra['error_constructions_by_function'] = got


def arm_bypass(pf, entry, reg, wbb):
    """can a dispatch arm (entry block `entry`, blocks `reg`) be left without an error AND without passing through block wbb?
    A test written with `||`, an `if let Some(..)` around the call, an early `continue`: whatever lets the arm's effect be skipped for
    some chunk contents.  Error exits (every path on carries an Err) and unreachable blocks do not count."""
    seen, work = set(), [entry]
    while work:
        x = work.pop()
        if x in seen or x == wbb or pf.blocks[x]['cleanup']:
            continue
        seen.add(x)
        tx = pf.blocks[x]['term']
        if tx and tx['k'] == 'unreachable':
            continue
        if x not in reg:
            return True
        for y in pf.cfg.succ[x]:
            if pf.blocks[y]['cleanup'] or y in seen:
                continue
            if y != wbb and q.arm_always_err(pf, y):
                continue
            work.append(y)
    return False


def arm_effect_unconditional(ctx, rule, kind, callee):
    """in the dispatch arm of chunk kind `kind`, the call of `callee` (the routine that records the decoded entity) is on every
    error-free path through the arm: the chunk is honoured wherever it stands in the file (seed C09-r ignored layer chunks outside
    frame 0, "like tags")"""
    pf = ctx.anchor('asefile::parse::parse_frame')
    if pf is None:
        return
    arms = dispatch_arms(pf)
    if arms is None:
        ctx.fail(pf.name + '|%s|no-dispatch' % rule, 'no ChunkType dispatch found in parse_frame')
        return
    n = 0
    for k_, s_, reg, sw in arms:
        if k_ != kind:
            continue
        cs = [c for c in q.calls(pf, callee) if c.bb in reg]
        n += len(cs)
        ok = bool(cs) and not any(arm_bypass(pf, s_, reg, c.bb) for c in cs)
        ctx.inst(rule, '%s arm -> %s' % (kind, callee.split('::')[-1]), ok, '%s chunk: %s is %s' % (kind, callee.split('::')[-1],
                 'called on every error-free path through the arm' if ok else 'NOT called on every path (the chunk can be ignored)'),
                 pf.blocks[s_]['term'].get('span') if pf.blocks[s_]['term'] else pf.span, key=pf.name + '|%s|%s|always' % (rule, kind))
    ctx.floor('%s arm calls of %s' % (kind, callee.split('::')[-1]), n, 1)
