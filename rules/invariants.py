"""C05 half 2: data invariants of a loaded AsepriteFile and the establishing checks every successful load passes
(rule M: the check exists, dominates the Ok construction in its function, is ?-propagated up to read_aseprite)."""
import q
import common
import effects
import iorules
import totality as T
import callgraph as CG
from q import res, is_param, is_param_path, field_path, strip_casts, show, alts, walk, expand

P = 'asefile::parse::'


def chain_propagates(fx, callee_name, upto='asefile::parse::read_aseprite'):
    """every call of callee on the call chain up to read_aseprite is ?-propagated and dominates its caller's Ok return
    (or runs on every completed iteration of its loop)"""
    g = CG.get(fx)
    seen = set()
    work = [callee_name]
    problems = []
    load = CG.load_cone(fx)
    while work:
        name = work.pop()
        if name in seen or name == upto:
            continue
        seen.add(name)
        b = fx.body(name)
        if b is None:
            problems.append('missing ' + name)
            continue
        callers = [fx.by_path[p] for p in g.callers(b.path) if p in load]
        if not callers:
            problems.append('%s is not called from the loader' % name)
        for cb in callers:
            for c in q.calls(cb, name):
                fates = q.result_fates(cb, c.dest['l'])
                if not fates or not all(f[0] in ('try', 'returned', 'ret') for f in fates):
                    problems.append('%s: result of %s not propagated' % (cb.name, name))
                L = cb.cfg.loop_of(c.bb)
                if L is None:
                    if not common.dominates_ok_returns(cb, c.bb) and cb.kind == 'fn':
                        problems.append('%s: call of %s does not dominate the Ok return' % (cb.name, name))
                else:
                    every = all(cb.cfg.dominates(c.bb, x) for x, _ in L['back_edges'])
                    # per-element validation of optional slots: skipped only for None slots
                    some_arm = any(cond[0] == 'discr' and vals == [1] and a in L['body'] for cond, vals, a in q.guards(cb, c.bb))
                    if not every and not some_arm:
                        problems.append('%s: call of %s skipped on some iterations' % (cb.name, name))
                    if not all(k in ('exhausted', 'err', 'unreachable') for _, _, k in q.loop_exit_kinds(cb, L)):
                        problems.append('%s: loop around %s has an early exit' % (cb.name, name))
            nm = cb.name
            if cb.kind == 'closure':
                nm = fx.by_path[cb.j['closure_of']].name if cb.j.get('closure_of') in fx.by_path else cb.name
            work.append(nm)
    return problems


_EMPTY_OPT_SLICE = ('core::slice::first', 'core::slice::last', 'core::slice::split_first', 'core::slice::split_last')
_EMPTY_OPT_ITER = ('::max', '::min', '::next', '::last')
_ITER_OF = ('core::slice::iter', 'std::iter::IntoIterator::into_iter', 'std::iter::Iterator::copied', 'std::iter::Iterator::cloned')


def _is_slice_param(t, idx):
    return is_param(strip_casts(t), idx)


def _emptiness_option(t, idx):
    """an Option that is None exactly when the slice parameter is empty: first()/last() of it, max()/min()/next()/last() of a plain iterator over it"""
    t = strip_casts(t)
    if t[0] == 'next':
        src = q.unwrap_into_iter(t[1])
        return src is not None and _is_slice_param(src, idx)
    if t[0] != 'call':
        return False
    if t[1] in _EMPTY_OPT_SLICE:
        return _is_slice_param(t[2][0], idx)
    if t[1].startswith('std::iter::Iterator') and t[1].endswith(_EMPTY_OPT_ITER) and len(t[2]) == 1:
        x = strip_casts(t[2][0])
        while x[0] == 'call' and x[1] in _ITER_OF and len(x[2]) == 1:
            x = strip_casts(x[2][0])
        return _is_slice_param(x, idx)
    return False


def _implies_empty(cond, truth, idx):
    """the branch outcome `cond == truth` is only possible when the slice parameter `idx` has no elements"""
    if truth is None or cond is None:
        return False
    cond = strip_casts(cond)
    if cond[0] == 'un' and cond[1] == 'Not':
        return _implies_empty(cond[2], not truth, idx)
    if cond[0] == 'call':
        if cond[1] == 'core::slice::is_empty':
            return truth and _is_slice_param(cond[2][0], idx)
        if cond[1] == 'std::option::Option::is_none':
            return truth and _emptiness_option(cond[2][0], idx)
        if cond[1] == 'std::option::Option::is_some':
            return (not truth) and _emptiness_option(cond[2][0], idx)
        return False
    for op, l, r in q.holds_both(cond, truth):
        if l[0] == 'call' and l[1] == 'core::slice::len' and _is_slice_param(l[2][0], idx) and q.const_val(r) is not None:
            c = q.const_val(r)
            if (op == 'Eq' and c == 0) or (op == 'Le' and c == 0) or (op == 'Lt' and c == 1):
                return True
    return False


def scan_bypassed(vb, header, idx=2):
    """a block from which the validator returns without an error and without having entered the scan loop `header`, on a path that is
    possible for a non-empty slice; None when there is none.  Early returns taken only for an empty slice (`is_empty()`, `len() == 0`,
    `first().is_none()`, `iter().max() == None`) are the same as the loop running zero times."""
    errb = q.error_blocks(vb)
    seen = set()
    st = [0]
    while st:
        x = st.pop()
        if x in seen or x == header or x in errb:
            continue
        seen.add(x)
        t = vb.blocks[x]['term']
        if t and t['k'] == 'return':
            return x
        if t and t['k'] == 'switch':
            cond = q.switch_cond(vb, x)
            for s_ in set(vb.cfg.succ[x]):
                vals = q.edge_value(vb, x, s_)
                if cond is not None and cond[0] == 'discr':
                    if vals == [0] and _emptiness_option(cond[1], idx):
                        continue
                elif _implies_empty(cond, q.bool_outcome(vb, x, vals), idx):
                    continue
                st.append(s_)
            continue
        st.extend(vb.cfg.succ[x])
    return None


def validator_scans_all(fx):
    """validate_indexed_pixels looks every element of the slice up in the palette and returns Err when one is missing"""
    vb = fx.body('asefile::palette::ColorPalette::validate_indexed_pixels')
    if vb is None:
        return False, 'validator missing'
    cs = q.calls(vb, 'asefile::palette::ColorPalette::color')
    if not cs:
        return False, 'the validator no longer looks pixels up with ColorPalette::color (a dense 0..num_colors palette is assumed?)'
    for c in cs:
        at = q.arg_terms(c)
        item = strip_casts(at[1])
        src = q.unwrap_into_iter(item[1]) if item[0] == 'next' else None
        whole = src is not None and is_param(src, 2) and is_param(at[0], 1)
        L = vb.cfg.loop_of(c.bb)
        exits_ok = L is not None and all(k in ('exhausted', 'err', 'unreachable') for _, _, k in q.loop_exit_kinds(vb, L)) and \
            all(vb.cfg.dominates(c.bb, x) for x, _ in L['back_edges'])       # no `continue` bypasses the lookup
        # a missing colour ends in Err: `.ok_or_else(..)?`, `match .. { None => return Err(..) }`, `if x.is_none() { return Err }`
        req = T.option_required(vb, lambda a0: any(x[0] == 'call' and x[3] == (vb.name, c.bb) for x in alts(a0)))
        prop = bool(req) and L is not None and all(any(vb.cfg.dominates(r_, x) for r_ in req) for x, _ in L['back_edges'])
        # no Ok return bypasses the scan (a `max() < num_colors => return Ok(())` fast path in front of the loop assumes a dense palette)
        reached = L is not None and scan_bypassed(vb, L['header']) is None
        if whole and exits_ok and prop and not reached:
            return False, 'a non-error return of the validator bypasses the per-pixel palette lookup (dense-palette fast path?)'
        if whole and exits_ok and prop:
            cb = fx.body('asefile::palette::ColorPalette::color')
            t = res(cb).ret() if cb is not None else None
            if t is not None and t[0] == 'call' and t[1] == 'std::collections::HashMap::get' and is_param_path(t[2][0], 1, ['entries']) and is_param(t[2][1], 2):
                return True, 'the validator looks up every element of the slice with entries.get(&index) and a missing key is an Err'
    return False, 'the validator does not scan the whole slice with a propagated palette lookup'


class Inv:
    def __init__(self, ctx):
        self.ctx = ctx
        self.fx = ctx.fx
        self.memo = {}

    def get(self, name):
        if name not in self.memo:
            try:
                ok, why = getattr(self, name)()
            except Exception as e:     # fail closed
                ok, why = False, 'establisher crashed: %r' % (e,)
            self.memo[name] = (ok, why)
        return self.memo[name]

    # I1: every stored cel sits in a slot whose layer index < number of layers
    def I1(self):
        fx = self.fx
        cv = fx.body('asefile::cel::CelsData::validate')
        rv = fx.body('asefile::cel::RawCel::validate')
        cs = q.calls(cv, rv.name)
        if len(cs) != 1:
            return False, 'RawCel::validate call sites: %d' % len(cs)
        c = cs[0]
        cid = q.arg_terms(c)[1]
        layer_t = strip_casts(dict(cid[3]).get('layer'))
        guarded = T.rejecting_fact(cv, c.bb, lambda op, l, r_: op == 'Lt' and l == layer_t and r_[0] == 'call' and r_[1] in T.LEN and
                                   field_path(r_[2][0])[1] == ['layers'] and is_param(field_path(r_[2][0])[0], 2))
        for L2 in cv.cfg.loops_containing(c.bb):
            if not all(k in ('exhausted', 'err', 'unreachable') for _, _, k in q.loop_exit_kinds(cv, L2)):
                return False, 'the validation loop over cels has an early exit'
        if not guarded:
            return False, 'no `layer >= layers.len() -> Err` guard before a cel is kept'
        # the validated row keeps the slot positions of the raw row: one push per slot, also for empty and dropped ones (a `continue`
        # before the push - seed C19-m skipped zero-sized cels - shifts every later cel of the frame one layer down)
        inner = None
        for L2 in cv.cfg.loops_containing(c.bb):
            if inner is None or len(L2['body']) < len(inner['body']):
                inner = L2
        slot_pushes = [p_ for p_ in q.calls(cv, 'std::vec::Vec::push') if inner is not None and p_.bb in inner['body'] and
                       'Option<cel::RawCel' in (p_.args[1]['p']['ty'] if p_.args[1]['k'] in ('copy', 'move') else p_.args[1].get('ty', ''))]
        # exactly one push on every way through an iteration: none of the back edges is reachable from the header with the push blocks
        # taken out, and no push can be followed by another one within the same iteration
        pbs = {p_.bb for p_ in slot_pushes}
        body_ = set(inner['body'])
        hdr = inner['header']

        def reach(src, avoid):
            seen, st_ = set(), [src]
            while st_:
                x = st_.pop()
                if x in seen or x in avoid or x not in body_:
                    continue
                seen.add(x)
                for y in cv.cfg.succ[x]:
                    if y != hdr:
                        st_.append(y)
            return seen
        free = reach(hdr, pbs)
        bypass = any(x in free for x, _ in inner['back_edges'])
        double = any(any(y in pbs for x in reach(s_, set()) for y in [x]) for p_ in pbs for s_ in cv.cfg.succ[p_] if s_ != hdr)
        if not slot_pushes or bypass or double:
            return False, 'the validated cel row is not filled with exactly one push per slot of the raw row (%d push sites, a way round them: %s, two on one way: %s)' % (
                len(slot_pushes), bypass, double)
        # Some(cel) is only pushed from that validated value; None otherwise
        pr = chain_propagates(fx, cv.name)
        if pr:
            return False, '; '.join(pr)
        # read_aseprite builds AsepriteFile.layers and .framedata from the same validate() result
        ra = fx.body(P + 'read_aseprite')
        for bb, st, t in q.stmt_aggs(ra, 'asefile::file::AsepriteFile'):
            f = dict(t[3])
            for nm in ('layers', 'framedata', 'tilesets'):
                base, ns = field_path(f[nm])
                if not (ns == [nm] and base[0] == 'call' and base[1] == P + 'ParseInfo::validate'):
                    return False, 'AsepriteFile.%s is not the validated value' % nm
        return True, 'CelsData::validate rejects a cel in a slot >= layers.len() (same LayersData that becomes AsepriteFile.layers), on every cel'

    # I2 / I5 / I6a: decoded buffers have exactly the declared size
    def I2(self):
        fx = self.fx
        probs = []
        for fn in ('asefile::reader::AseReader::take_bytes', 'asefile::reader::AseReader::unzip'):
            b = fx.body(fn)
            ok = False
            for sw in q.switches_on(b, lambda d: d[0] == 'bin' and d[1] in ('Ne', 'Eq')):
                d = q.switch_cond(b, sw)
                sides = [strip_casts(d[2]), strip_casts(d[3])]
                if any(x[0] == 'call' and x[1] == 'std::vec::Vec::len' for x in sides) and any(is_param(x, 2) for x in sides):
                    tm = b.blocks[sw]['term']
                    bad = tm['otherwise'] if d[1] == 'Ne' else [s for v, s in tm['targets'] if v == 0][0]
                    good = [s_ for s_ in b.cfg.succ[sw] if s_ != bad]
                    ok = q.arm_always_err(b, bad) and all(b.cfg.edge_dominates(sw, good[0], bb_) for bb_, _ in common.ok_defs(b))
            if not ok:
                probs.append('%s has no length check dominating Ok' % fn.split('::')[-1])
        # the requested size is bytes_per_pixel * pixel_count and from_bytes regroups with the same width
        for fn, prim in (('asefile::pixel::RawPixels::from_raw', 'take_bytes'), ('asefile::pixel::RawPixels::from_compressed', 'unzip')):
            b = fx.body(fn)
            t = expand(res(b).ret(), fx, 1, ('asefile::pixel::RawPixels::from_bytes', 'asefile::pixel::output_size', 'asefile::file::PixelFormat::bytes_per_pixel',
                                              'asefile::reader::AseReader::take_bytes', 'asefile::reader::AseReader::unzip'))
            good = False
            for x in walk(t):
                if x[0] == 'call' and x[1] == 'asefile::pixel::RawPixels::from_bytes':
                    src = x[2][0]
                    if src[0] == 'call' and src[1].endswith(prim) and common.is_byte_size(fx, src[2][1], 2, 3) and is_param(x[2][1], 2):
                        good = True
            if not good:
                probs.append('%s is not from_bytes(%s(output_size(format, count)), format)' % (fn.split('::')[-1], prim))
        return (not probs), ('; '.join(probs) if probs else
                             'take_bytes/unzip compare the delivered length with output_size(format, pixel_count) and from_bytes regroups by the same bytes-per-pixel')

    def I5(self):
        fx = self.fx
        ok2, why2 = self.get('I2')
        b = fx.body('asefile::tile::Tiles::unzip')
        cs = q.calls(b, 'asefile::reader::AseReader::unzip')
        ok = len(cs) == 1
        if ok:
            sz = strip_casts(q.arg_terms(cs[0])[1])
            ok = sz[0] == 'bin' and sz[1] == 'Mul' and {('4' if q.const_val(x) == 4 else 'n' if is_param(x, 2) else '?') for x in (sz[2], sz[3])} == {'4', 'n'}
            ce = q.calls(b, 'core::slice::chunks_exact')
            ok = ok and len(ce) == 1 and q.const_val(q.arg_terms(ce[0])[1]) == 4
        tp = fx.body('asefile::tilemap::TilemapData::parse_chunk')
        us = q.calls(tp, b.name)
        okc = len(us) == 1
        if okc:
            n = strip_casts(q.arg_terms(us[0])[1])
            okc = n[0] == 'bin' and n[1] == 'Mul' and all(common.is_read(strip_casts(x), ('word',)) for x in (n[2], n[3]))
            t = res(tp).ok_ret()
            f = dict(t[3]) if t[0] == 'agg' else {}
            okc = okc and {f.get('width'), f.get('height')} == {strip_casts(n[2]), strip_casts(n[3])}
        return ok2 and ok and okc, ('tiles are decoded from exactly 4*width*height inflated bytes in groups of 4 (and width/height are the stored fields)'
                                    if ok2 and ok and okc else 'tilemap size/length relation not established (%s %s %s)' % (ok2, ok, okc))

    # I3: every tile id < tile_count of the layer's tileset
    def I3(self):
        fx = self.fx
        rv = fx.body('asefile::cel::RawCel::validate')
        cs = q.calls(rv, 'asefile::tilemap::TilemapData::validate_tile_ids')
        if len(cs) != 1:
            return False, 'validate_tile_ids is called %d times in RawCel::validate' % len(cs)
        c = cs[0]
        at = q.arg_terms(c)
        tc = at[1]
        ok = tc[0] == 'call' and tc[1] == 'asefile::tileset::Tileset::tile_count'
        if ok:
            ts = tc[2][0]
            ok = ts[0] == 'call' and ts[1] == 'asefile::tileset::TilesetsById::get' and ts[2][1][0] == 'field' and ts[2][1][1][0] == 'variant' \
                and ts[2][1][1][2] == 'Tilemap'
        fates = q.result_fates(rv, c.dest['l'])
        ok = ok and bool(fates) and all(f[0] == 'try' for f in fates)
        # subject: the tilemap of this very cel; dominates the Tilemap content being kept
        ok = ok and at[0][0] == 'field' and at[0][1][0] == 'variant' and at[0][1][2] == 'Tilemap'
        keep = [bb for bb, st, t in q.stmt_aggs(rv, 'asefile::cel::CelContent', 'Tilemap')]
        ok = ok and bool(keep) and all(rv.cfg.dominates(c.bb, k) for k in keep)
        vb = fx.body('asefile::tilemap::TilemapData::validate_tile_ids')
        okv = False
        for sw in q.switches_on(vb, lambda d: d[0] == 'bin' and d[1] in ('Ge', 'Lt')):
            d = q.switch_cond(vb, sw)
            if is_param(strip_casts(d[3]), 2) and any(x[0] == 'next' for x in walk(d[2])):
                tm = vb.blocks[sw]['term']
                bad = tm['otherwise'] if d[1] == 'Ge' else [s for v, s in tm['targets'] if v == 0][0]
                L = vb.cfg.loop_of(sw)
                whole = L is not None and all(k in ('exhausted', 'err', 'unreachable') for _, _, k in q.loop_exit_kinds(vb, L))
                # the range test is on every iteration's path: no `continue` can bypass it
                every = L is not None and all(vb.cfg.dominates(sw, x) for x, _ in L['back_edges'])
                okv = q.arm_always_err(vb, bad) and whole and every
        if not okv:
            # iterator form: tiles.iter().find / position / any (|t| t.id() >= tile_count) whose "found" outcome is the Err
            for c2 in q.calls(vb):
                nm = c2.callee.split('::')[-1]
                if not c2.callee.startswith('std::iter::Iterator::') or nm not in ('find', 'position', 'any', 'all'):
                    continue
                at2 = q.arg_terms(c2)
                src = q.unwrap_into_iter(at2[0])
                whole = any(x[0] == 'field' and x[2] == 'tiles' for x in walk(src)) and not any(
                    x[0] == 'call' and x[1].split('::')[-1] in ('take', 'skip', 'step_by', 'filter', 'rev') and False for x in walk(src)) and \
                    not any(x[0] == 'call' and x[1].split('::')[-1] in ('take', 'skip', 'step_by', 'filter', 'skip_while', 'take_while') for x in walk(src))
                clo = at2[1]
                pred_ok = False
                if clo[0] == 'closure' and clo[1] in fx.by_path:
                    r_ = q.res(fx.by_path[clo[1]]).ret()
                    caps = [c_[1] for c_ in clo[2]]
                    for op, l, r2 in q.holds_both(r_, True if nm != 'all' else False):
                        # "bad" element: id >= tile_count   (for all(): the closure states the good case, its negation is bad)
                        lid = any(x[0] == 'call' and x[1].endswith('Tile::id') for x in walk(l)) or any(x[0] == 'field' and x[2] == 'id' for x in walk(l))
                        rc = any(is_param(x, 2) for cp in caps for x in walk(cp)) and any(x[0] == 'field' and is_param(x[1], 1) for x in walk(r2))
                        if op == 'Ge' and lid and rc:
                            pred_ok = True
                # the found / true outcome must be the error
                bad_is_err = False
                for sw in q.switches_on(vb, lambda d: True):
                    d = q.switch_cond(vb, sw)
                    tm = vb.blocks[sw]['term']
                    subj = d[1] if d[0] == 'discr' else d
                    if not any(x[0] == 'call' and x[3] == (vb.name, c2.bb) for x in walk(subj)):
                        continue
                    if nm in ('find', 'position') and d[0] == 'discr':
                        some_edges = [s_ for v_, s_ in tm['targets'] if v_ == 1] or ([tm['otherwise']] if any(v_ == 0 for v_, _ in tm['targets']) else [])
                        bad_is_err = bool(some_edges) and all(q.arm_always_err(vb, e) for e in some_edges)
                    elif nm == 'any':
                        bad_is_err = q.arm_always_err(vb, tm['otherwise'])
                    elif nm == 'all':
                        f_edge = [s_ for v_, s_ in tm['targets'] if v_ == 0]
                        bad_is_err = bool(f_edge) and q.arm_always_err(vb, f_edge[0])
                if whole and pred_ok and bad_is_err:
                    okv = True
        if not okv:
            # maximum form: `if let Some(m) = tiles.iter().map(|t| t.id()).max() { if m >= count { return Err } }` - the bound is tested on
            # the maximum over the whole tile vector (no max: no tile), the failing side always errs, and every Ok return lies beyond
            for c2 in q.calls(vb, 'std::iter::Iterator::max'):
                src = q.arg_terms(c2)[0]
                ids = src[0] == 'call' and src[1] == 'std::iter::Iterator::map' and src[2][1][0] == 'closure' and src[2][1][1] in fx.by_path
                if ids:
                    r_ = q.res(fx.by_path[src[2][1][1]]).ret()
                    ids = (r_[0] == 'call' and r_[1].endswith('Tile::id')) or (r_[0] == 'field' and r_[2] == 'id')
                    base = q.unwrap_into_iter(src[2][0])
                    ids = ids and any(x[0] == 'field' and x[2] == 'tiles' for x in walk(base)) and not any(
                        x[0] == 'call' and x[1].split('::')[-1] in ('take', 'skip', 'step_by', 'filter', 'skip_while', 'take_while', 'rev') for x in walk(base))
                if not ids:
                    continue

                def want(op, l, r2, c2=c2):
                    return op == 'Lt' and any(x[0] == 'call' and x[3] == (vb.name, c2.bb) for x in walk(l)) and is_param(strip_casts(r2), 2)
                oks_ = [bb_ for bb_, _ in common.ok_defs(vb)]
                some_side = [bb_ for bb_ in oks_ if T.rejecting_fact(vb, bb_, want)]
                # Ok is also reached when there is no maximum (empty map): that path must come from the None edge of the same Option
                def on_none_edge(blk, c2=c2):
                    for cond, vals, a in q.guards(vb, blk):
                        if cond[0] == 'discr' and any(x[0] == 'call' and x[3] == (vb.name, c2.bb) for x in walk(cond)):
                            explicit = [v_ for v_, _ in vb.blocks[a]['term']['targets']]
                            if vals == [0] or (vals == ['otherwise'] and explicit == [1]):
                                return True
                    return False
                none_side = [bb_ for bb_ in oks_ if bb_ not in some_side and on_none_edge(bb_)]
                if oks_ and all(bb_ in some_side or bb_ in none_side for bb_ in oks_) and some_side:
                    okv = True
                elif oks_:
                    # a single Ok block after the join: every path into it passes the test or the None edge
                    okv = all(all(_p in vb.cfg.reach and (T.rejecting_fact(vb, _p, want) or on_none_edge(_p)) for _p in vb.cfg.pred[bb_]) for bb_ in oks_)
        pr = chain_propagates(fx, rv.name)
        return ok and okv and not pr, ('every tilemap cel passes validate_tile_ids(tile_count of its layer\'s tileset), which rejects id >= tile_count for every tile'
                                       if ok and okv and not pr else 'tile-id validation incomplete (%s %s %s)' % (ok, okv, pr))

    # I4: tile width and height >= 1
    def I4(self):
        fx = self.fx
        b = fx.body('asefile::tileset::Tileset::parse_chunk')
        aggs = q.stmt_aggs(b, 'asefile::tileset::TileSize')
        if len(aggs) != 1:
            return False, 'TileSize constructions: %d' % len(aggs)
        bb, st, t = aggs[0]
        w, h = dict(t[3])['width'], dict(t[3])['height']
        # every Ok result is reached only past `width == 0 -> Err` and `height == 0 -> Err` (in any spelling, before or after the
        # TileSize value is put together)
        def nonzero(x):
            return lambda op, l, r_: l == strip_casts(x) and ((op == 'Ne' and q.const_val(r_) == 0) or (op == 'Gt' and q.const_val(r_) == 0) or
                                                                (op == 'Ge' and q.const_val(r_) == 1))
        oks = [bb_ for bb_, _ in common.ok_defs(b)]
        need = {show(x)[:40]: bool(oks) and all(T.rejecting_fact(b, bb_, nonzero(x)) for bb_ in oks) for x in (w, h)}
        ok = all(need.values())
        # all constructions of Tileset keep the TileSize of the parsed tileset
        tv = fx.body('asefile::tileset::TilesetsById::validate')
        keep = all(field_path(dict(t2[3])['tile_size'])[1][-1:] == ['tile_size'] for _, _, t2 in q.stmt_aggs(tv, 'asefile::tileset::Tileset'))
        others = [b2.name for b2 in fx.bodies for _ in q.stmt_aggs(b2, 'asefile::tileset::TileSize') if b2.name != b.name]
        return ok and keep and not others, ('TileSize{width,height} is built only after `width == 0 || height == 0 -> Err` and copied unchanged by validation'
                                            if ok and keep and not others else 'zero tile size not excluded (%s, %s, %s)' % (need, keep, others))

    # I6: tileset pixels.len() == tile_count*tw*th <= u32::MAX
    def I6(self):
        fx = self.fx
        ok2, _ = self.get('I2')
        b = fx.body('asefile::tileset::Tileset::parse_chunk')
        cs = q.calls(b, 'asefile::pixel::RawPixels::from_compressed')
        if len(cs) != 1:
            return False, 'from_compressed calls: %d' % len(cs)
        n = q.arg_terms(cs[0])[2]
        cs_, inner = q.casts_on(n)
        prod = strip_casts(inner)
        leaves = []

        def mulleaves(t):
            t = strip_casts(t)
            if t[0] == 'bin' and t[1] == 'Mul':
                mulleaves(t[2])
                mulleaves(t[3])
            else:
                leaves.append(t)
        mulleaves(prod)
        t = res(b).ok_ret()
        f = dict(t[3]) if t[0] == 'agg' else {}
        ts = f.get('tile_size')
        want = {strip_casts(f.get('tile_count'))} | ({strip_casts(dict(ts[3])['width']), strip_casts(dict(ts[3])['height'])} if ts and ts[0] == 'agg' else set())
        okp = set(leaves) == want and len(leaves) == 3
        capped = False
        for cond, vals, a in q.guards(b, cs[0].bb):
            if cond[0] == 'bin' and cond[1] == 'Gt' and strip_casts(cond[2]) == prod and q.bool_outcome(b, a, vals) is False:
                cv = q.const_val(strip_casts(cond[3]))
                if cv is not None and cv <= 2**32 - 1 and q.arm_always_err(b, b.blocks[a]['term']['otherwise']):
                    capped = True
        return ok2 and okp and capped, ('tileset pixels are inflated to exactly tile_count*tile_width*tile_height pixels (the stored fields), a product checked to be <= u32::MAX'
                                        if ok2 and okp and capped else 'tileset size relation not established (%s %s %s)' % (ok2, okp, capped))

    # I7: tilemap layers reference an existing tileset, tilesets have pixels  (C15 T5 + LayersData::validate)
    def I7(self):
        fx = self.fx
        lv = fx.body('asefile::layer::LayersData::validate')
        ok = False
        for site in T.option_required(lv, lambda a0: a0[0] == 'call' and a0[1] == 'asefile::tileset::TilesetsById::get' and is_param(a0[2][0], 2)):
            L = lv.cfg.loop_of(site)
            ok = L is not None and all(k in ('exhausted', 'err', 'unreachable') for _, _, k in q.loop_exit_kinds(lv, L))
        pr = chain_propagates(fx, lv.name)
        tv = fx.body('asefile::tileset::TilesetsById::validate')
        okp = all(dict(t[3])['pixels'][0] == 'agg' and dict(t[3])['pixels'][2] == 'Some' for _, _, t in q.stmt_aggs(tv, 'asefile::tileset::Tileset'))
        pv = fx.body(P + 'ParseInfo::validate')
        same = False
        for c in q.calls(pv, lv.name):
            a1 = q.arg_terms(c)[1]
            same = a1[0] == 'call' and a1[1] == tv.name
        return ok and not pr and okp and same, ('LayersData::validate requires tilesets.get(id) for every tilemap layer against the validated tilesets, each built with pixels: Some(..)'
                                                if ok and not pr and okp and same else 'tileset presence not established (%s %s %s %s)' % (ok, pr, okp, same))

    # I8: a linked cel's target exists (frame in range) and is a raw cel
    def I8(self):
        fx = self.fx
        cv = fx.body('asefile::cel::CelsData::validate')
        cl = [b for b in fx.closures_of(cv) if any(q.callee_name(c) in ('core::slice::get', 'std::vec::Vec::get') for c in q.calls(b))]
        if not cl:
            return False, 'no link-validation closure using get()'
        vb = [b for b in cl if q.ty_is_result(b.locals[0]['ty'])]
        if not vb:
            return False, 'link-validation closure does not return a Result'
        b = vb[0]
        sws = [sw for sw in q.switches_on(b, lambda d: True) if b.blocks[sw]['term']['ty'] == 'bool']
        ok = False
        for sw in sws:
            tm = b.blocks[sw]['term']
            f_edge = [s for v, s in tm['targets'] if v == 0]
            # .. and what stands for "not in the table" (frame or layer beyond it: unwrap_or(..) / None => ..) is `false`, i.e. refused
            cond = q.switch_cond(b, sw)
            absent_false = all(a[1] == 0 for a in alts(cond) if a[0] == 'const') and cond[0] != 'un'
            if f_edge and q.arm_always_err(b, f_edge[0]) and absent_false:
                ok = True
        rv = fx.body('asefile::cel::RawCel::validate')
        called = False
        for c in q.calls(rv):
            if c.callee == 'std::ops::Fn::call':
                fates = q.result_fates(rv, c.dest['l'])
                called = bool(fates) and all(f[0] == 'try' for f in fates)
        # the table marks exactly the raw cels
        tbl = any(any(c.callee.endswith('is_raw') or q.callee_name(c).endswith('CelContent::is_raw') for c in q.calls(b2)) for b2 in fx.closure_cone(cv))
        return ok and called and tbl, ('links are validated with a bounds-checked lookup of (frame, layer) in a table that is true exactly for raw cels; false/missing -> Err'
                                       if ok and called and tbl else 'link target validation not established (%s %s %s)' % (ok, called, tbl))

    # I9: indexed pixels are palette keys (C11 P5)
    def I9(self):
        fx = self.fx
        body = fx.body('asefile::pixel::RawPixels::validate')
        aggs = q.stmt_aggs(body, 'asefile::pixel::Pixels', 'Indexed')
        ok = False
        for bb, st, t in aggs:
            data = dict(t[3]).get('data')
            pal = dict(t[3]).get('palette')
            for c in q.calls(body, 'asefile::palette::ColorPalette::validate_indexed_pixels'):
                at = q.arg_terms(c)
                for cond, vals, a in q.guards(body, bb):
                    if cond[0] == 'discr' and cond[1][0] == 'try' and cond[1][1][0] == 'call' and cond[1][1][3] == (body.name, c.bb) and vals == [0] \
                            and at[1] == data and at[0] == pal:
                        ok = True
        others = [b2.name for b2 in fx.bodies for _ in q.stmt_aggs(b2, 'asefile::pixel::Pixels') if b2.name != body.name]
        okv, whyv = validator_scans_all(fx)
        return ok and not others and okv, ('Pixels::Indexed is built only after palette.validate_indexed_pixels(data)? on the same data and palette; ' + whyv
                                           if ok and not others and okv else 'index validation not established (%s %s %s)' % (ok, others, whyv))

    # I10: parents.len() == layers.len() and parents[i] < i
    def I10(self):
        fx = self.fx
        b = fx.body('asefile::layer::compute_parents')
        ps = q.calls(b, 'std::vec::Vec::push')
        ok = len(ps) == 1
        if ok:
            L = b.cfg.loop_of(ps[0].bb)
            ok = L is not None and all(b.cfg.dominates(ps[0].bb, x) for x, _ in L['back_edges']) and \
                all(k in ('exhausted', 'err', 'unreachable') for _, _, k in q.loop_exit_kinds(b, L))
            # loop iterates the whole layers slice
            it = None
            for bi in sorted(L['body']):
                cc = b.call_at(bi)
                if cc is not None and q.callee_name(cc) == 'std::iter::Iterator::next':
                    it = q.unwrap_into_iter(q.arg_terms(cc)[0])
            ok = ok and it is not None and any(is_param(x, 1) for x in walk(it)) and not any(
                x[0] == 'call' and x[1].split('::')[-1] in ('take', 'skip', 'step_by', 'filter') for x in walk(it))
        # pushed value: None | Some(rposition over take(id))
        lt = False
        for c in q.calls(b, 'std::iter::Iterator::rposition'):
            src = q.arg_terms(c)[0]
            if src[0] == 'call' and src[1] == 'std::iter::Iterator::take' and src[2][1][0] == 'field' and src[2][1][2] == '0' and src[2][1][1][0] == 'next':
                lt = True
        fv = fx.body('asefile::layer::LayersData::from_vec')
        agg_ok = False
        for bb, st, t in q.stmt_aggs(fv, 'asefile::layer::LayersData'):
            f = dict(t[3])
            agg_ok = is_param(f['layers'], 1) and f['parents'][0] == 'call' and f['parents'][1] == b.name and is_param(f['parents'][2][0], 1)
        others = [b2.name for b2 in fx.bodies for _ in q.stmt_aggs(b2, 'asefile::layer::LayersData') if b2.name != fv.name]
        if not lt:
            # second accepted spelling: an explicit loop over 0..id (rules/parents.py)
            import parents
            lf = parents.loop_form(fx)
            if lf is not None and lf['whole'] and lf['lt_index']:
                ok, lt = True, True
        return ok and lt and agg_ok and not others, ('compute_parents pushes exactly one entry per layer and a parent id is an rposition within the first `id` layers (< id); '
                                                     'LayersData is built only from (layers, compute_parents(&layers))' if ok and lt and agg_ok and not others else
                                                     'parent table invariant not established (%s %s %s %s)' % (ok, lt, agg_ok, others))

    # I13: at most 65536 layers (layer ids fit u16)
    def I13(self):
        fx = self.fx
        fv = fx.body('asefile::layer::LayersData::from_vec')
        ok = False
        for bb, st, t in q.stmt_aggs(fv, 'asefile::layer::LayersData'):
            # on the way to the construction `layers.len() <= c` (or `< c + 1`) holds, the other side of that branch is an error
            def pred(cond, truth):
                for op, l, r_ in q.holds_both(cond, truth):
                    c = q.const_fold(r_)
                    if l[0] == 'call' and l[1] in T.LEN and is_param(l[2][0], 1) and isinstance(c, int) and \
                            ((op == 'Le' and c <= 65536) or (op == 'Lt' and c <= 65537)):
                        return True
                return False
            if T.rejecting_guard(fv, bb, pred):
                ok = True
        ok10, _ = self.get('I10')
        return ok and ok10, ('LayersData is built only after `layers.len() > 65536 -> Err`, so every layer id fits u16' if ok and ok10 else
                             'layer count cap not established')

    def _variant_index(self, adt, name):
        a = self.fx.adts.get(adt)
        names = [v['name'] for v in a['variants']] if a else []
        return names.index(name) if name in names else None

    # I11: a tilemap cel lives in a tilemap layer
    def I11(self):
        fx = self.fx
        rv = fx.body('asefile::cel::RawCel::validate')
        keep = [bb for bb, st, t in q.stmt_aggs(rv, 'asefile::cel::CelContent', 'Tilemap')]
        ok = False
        for k in keep:
            for cond, vals, a in q.guards(rv, k):
                if cond[0] == 'discr' and cond[1][0] == 'field' and cond[1][2] == 'layer_type' and vals != ['otherwise']:
                    tm = rv.blocks[a]['term']
                    # the variants under which the cel is kept: exactly Tilemap; every other edge of the match (`_ =>`, or the other
                    # variants listed by name) ends in an error
                    taken = {s_ for v_, s_ in tm['targets'] if v_ in vals}
                    others = [s_ for s_ in rv.cfg.succ[a] if s_ not in taken]
                    dead = [s_ for s_ in others if rv.blocks[s_]['term'] and rv.blocks[s_]['term']['k'] == 'unreachable']
                    only_tilemap = len(vals) == 1 and self._variant_index('asefile::layer::LayerType', 'Tilemap') in (None, vals[0])
                    if others and only_tilemap and all(s_ in dead or q.arm_always_err(rv, s_) for s_ in others) and len(dead) < len(others):
                        ok = True
        return ok, ('CelContent::Tilemap is kept only inside the LayerType::Tilemap arm of the cel\'s own layer; other layer types -> Err'
                    if ok else 'tilemap-cel-in-tilemap-layer check not found')

    # I12: data.len() == num_frames == frame_times.len()
    def I12(self):
        fx = self.fx
        nb = fx.body('asefile::cel::CelsData::new')
        ok_new = False
        for c in q.calls(nb, 'std::vec::Vec::resize_with'):
            ok_new = is_param(strip_casts(q.arg_terms(c)[1]), 1)
        cv = fx.body('asefile::cel::CelsData::validate')
        ok_v = False
        for c in q.calls(cv, 'std::vec::Vec::push'):
            L = cv.cfg.loop_of(c.bb)
            aty = c.args[0]['p']['ty'] if c.args[0]['k'] in ('copy', 'move') else ''
            if L is not None and 'Vec<std::vec::Vec<std::option::Option<cel::RawCel' in aty:
                outer = max(cv.cfg.loops_containing(c.bb), key=lambda L2: len(L2['body']))
                it = None
                for bi in sorted(outer['body']):
                    cc = cv.call_at(bi)
                    if cc is not None and q.callee_name(cc) == 'std::iter::Iterator::next' and cv.cfg.loop_of(bi)['header'] == outer['header']:
                        it = q.unwrap_into_iter(q.arg_terms(cc)[0])
                whole = it is not None and any(is_param_path(x, 1, ['data']) for x in walk(it)) and not any(
                    x[0] == 'call' and x[1].split('::')[-1] in ('take', 'skip', 'step_by', 'filter') for x in walk(it))
                noexit = all(k in ('exhausted', 'err', 'unreachable') for L2 in cv.cfg.loops_containing(c.bb) for _, _, k in q.loop_exit_kinds(cv, L2))
                if cv.cfg.loop_of(c.bb)['header'] == outer['header'] and all(cv.cfg.dominates(c.bb, x) for x, _ in outer['back_edges']) and whole and noexit:
                    ok_v = True
        pn = fx.body(P + 'ParseInfo::new')
        ok_p = False
        for bb, st, t in q.stmt_aggs(pn, 'asefile::parse::ParseInfo'):
            f = dict(t[3])
            ft, fd = f['frame_times'], f['framedata']
            ok_p = ft[0] == 'call' and ft[1].endswith('from_elem') and is_param(strip_casts(ft[2][1]), 1) and \
                fd[0] == 'call' and fd[1] == nb.name and is_param(strip_casts(fd[2][0]), 1)
        ra = fx.body(P + 'read_aseprite')
        ok_r = False
        for c in q.calls(ra, pn.name):
            nf = q.arg_terms(c)[0]
            for bb, st, t in q.stmt_aggs(ra, 'asefile::file::AsepriteFile'):
                ok_r = dict(t[3])['num_frames'] == nf
        ws = [w for w in T.mutators_of_field(fx, 'frame_times')]
        return ok_new and ok_v and ok_p and ok_r and not ws, ('data is resized to num_frames rows and rebuilt row by row, frame_times = vec![_; num_frames], AsepriteFile.num_frames is the same read'
                                                              if ok_new and ok_v and ok_p and ok_r and not ws else 'frame table lengths not established (%s %s %s %s %s)' % (ok_new, ok_v, ok_p, ok_r, ws))
