"""C15 - documented-unsupported features are refused (switch tables + error discipline).

For every refusal the rule extracts, from the MIR, the branch on the file field, the constant set it accepts,
and shows that the other side returns Err without building the Ok value, that the decoder is invoked on every
path that builds the decoded structure, and that its Err is `?`-propagated up to read_aseprite.
"""
import q
import callgraph as CG
import common
from q import res, is_param, strip_casts, show, alts, walk

A = 'asefile::'
UNSUPPORTED = 'UnsupportedFeature'

# value-match decoders: fn -> (param index of the matched value, {value: expected variant or callee}, callers)
MATCHERS = {
    'asefile::parse::parse_pixel_format': (1, {8: 'Indexed', 16: 'Grayscale', 32: 'Rgba'}, ['asefile::parse::read_aseprite']),
    'asefile::layer::parse_layer_type': (1, {0: 'Image', 1: 'Group', 2: 'Tilemap'}, ['asefile::layer::parse_chunk']),
    'asefile::layer::parse_blend_mode': (1, dict(enumerate(
        ['Normal', 'Multiply', 'Screen', 'Overlay', 'Darken', 'Lighten', 'ColorDodge', 'ColorBurn', 'HardLight',
         'SoftLight', 'Difference', 'Exclusion', 'Hue', 'Saturation', 'Color', 'Luminosity', 'Addition', 'Subtract',
         'Divide'])), ['asefile::layer::parse_chunk']),
    'asefile::cel::CelContent::parse': (3, {0: 'Raw', 1: 'Linked', 2: 'Raw', 3: 'Tilemap'}, ['asefile::cel::parse_chunk']),
    'asefile::tags::parse_animation_direction': (1, {0: 'Forward', 1: 'Reverse', 2: 'PingPong'}, ['asefile::tags::parse_chunk']),
    'asefile::color_profile::parse_color_profile_type': (1, {0: 'None', 1: 'Srgb', 2: 'ICC'}, ['asefile::color_profile::parse_chunk']),
    'asefile::parse::parse_chunk_type': (1, {0x0004: 'OldPalette04', 0x0011: 'OldPalette11', 0x2004: 'Layer', 0x2005: 'Cel',
                                             0x2006: 'CelExtra', 0x2007: 'ColorProfile', 0x2008: 'ExternalFiles',
                                             0x2016: 'Mask', 0x2017: 'Path', 0x2018: 'Tags', 0x2019: 'Palette',
                                             0x2020: 'UserData', 0x2022: 'Slice', 0x2023: 'Tileset'},
                                         ['asefile::parse::Chunk::read']),
}
# the spec field each matcher must be applied to (names of tables/spec_layout.json)
FIELD = {'asefile::parse::parse_pixel_format': 'depth', 'asefile::layer::parse_layer_type': 'type', 'asefile::layer::parse_blend_mode': 'blend',
         'asefile::cel::CelContent::parse': 'cel_type', 'asefile::tags::parse_animation_direction': 'dir',
         'asefile::color_profile::parse_color_profile_type': 'type', 'asefile::parse::parse_chunk_type': 'chunk_type'}
PXR = 'asefile::pixel::RawPixels::'
CEL_VIA = {0: PXR + 'from_raw', 2: PXR + 'from_compressed', 3: 'asefile::tilemap::TilemapData::parse_chunk', 1: 'asefile::reader::AseReader::word'}


def cel_arm_source(fx, inner):
    """what a `CelContent::X(payload)` arm of CelContent::parse decodes its payload with, seen through crate-local helpers (free
    functions, associated functions, closures passed to Result::map): the callee that reads the payload, or None.
    Image arms must be ImageContent{size: ImageSize::parse(reader), pixels: from_raw|from_compressed(reader, format, size.pixel_count())}"""
    import layout
    keep = (PXR + 'from_raw', PXR + 'from_compressed', 'asefile::tilemap::TilemapData::parse_chunk', 'asefile::cel::ImageSize::parse',
            'asefile::cel::ImageSize::pixel_count')
    e = q.expand(inner, fx, 3, layout.noinl(fx) + keep)
    if e[0] != 'agg' or not e[3]:
        return None
    pl = e[3][0][1]
    if pl[0] == 'call' and pl[1] in ('asefile::reader::AseReader::word', 'asefile::tilemap::TilemapData::parse_chunk') and is_param(pl[2][0], 1):
        return pl[1]
    if pl[0] == 'agg' and pl[2] == 'ImageContent':
        f = dict(pl[3])
        sz, px = f.get('size'), f.get('pixels')
        if sz is not None and px is not None and sz[0] == 'call' and sz[1] == 'asefile::cel::ImageSize::parse' and is_param(sz[2][0], 1) and \
                px[0] == 'call' and px[1] in (PXR + 'from_raw', PXR + 'from_compressed') and is_param(px[2][0], 1) and is_param(px[2][1], 2) and \
                px[2][2][0] == 'call' and px[2][2][1] == 'asefile::cel::ImageSize::pixel_count' and px[2][2][2][0] == sz:
            return px[1]
    return None


def otherwise_values(b, sw, pidx, limit=64):
    """the values of parameter pidx that can take the `_` edge of the match in block sw: what the dominating tests leave of its range
    (`if t >= 4 { return Err(..) }` before the match) minus the values the match lists.  None when the range is not bounded that way"""
    lo, hi = 0, None
    for op, l, r_ in q.facts_at(b, sw):
        if not is_param(strip_casts(l), pidx):
            continue
        c = q.const_fold(r_) if hasattr(q, 'const_fold') else q.const_val(r_)
        if not isinstance(c, int):
            continue
        if op == 'Lt':
            hi = c - 1 if hi is None else min(hi, c - 1)
        elif op == 'Le':
            hi = c if hi is None else min(hi, c)
        elif op == 'Ge':
            lo = max(lo, c)
        elif op == 'Gt':
            lo = max(lo, c + 1)
    if hi is None or hi - lo > limit:
        return None
    listed = {v for v, _ in b.blocks[sw]['term']['targets']}
    return [v for v in range(lo, hi + 1) if v not in listed]


def specialise(b, t, pidx, v):
    """term t with its alternatives cut down to those that can arise when parameter pidx has the value v: an alternative produced by a
    call whose block sits under a test of the parameter (`let compressed = t == 2; if compressed { from_compressed(..) } else
    { from_raw(..) }`) is dropped when the test goes the other way for v"""
    def consistent(x):
        for y in walk(x):
            if isinstance(y, tuple) and len(y) == 4 and y[0] == 'call' and isinstance(y[3], tuple) and y[3] and y[3][0] == b.name:
                for cond, vals, a in q.guards(b, y[3][1]):
                    ps = [z for z in walk(cond) if isinstance(z, tuple) and z and z[0] == 'param']
                    if not ps or any(z[1] != pidx for z in ps):
                        continue
                    want = q.bool_outcome(b, a, vals)
                    if want is None:
                        continue
                    try:
                        got = q.eval_term(cond, {ps[0]: v})
                    except q.CannotEval:
                        continue
                    if bool(got) != want:
                        return False
        return True

    def go(x):
        if not isinstance(x, tuple) or not x:
            return x
        if x[0] == 'any':
            keep = [go(m) for m in x[1] if consistent(m)]
            from terms import mk_any
            return mk_any(keep) if keep else x
        if x[0] == 'agg':
            return ('agg', x[1], x[2], tuple((f, go(y)) for f, y in x[3]))
        if x[0] in ('try',):
            return (x[0], go(x[1]))
        return x
    return go(t)


def variant_of(t):
    """variant name of the Ok payload a match arm produces"""
    t = q.payload(t) if q.is_ok_agg(t) else t
    if t[0] == 'agg':
        return t[2], t
    return None, t



def pixel_ratio(ctx, rule='T4'):
    """the pixel-ratio refusal, decided by abstract evaluation of the guards over value classes of the two header bytes"""
    fx = ctx.fx

    b = ctx.anchor('asefile::parse::read_aseprite')
    if b is not None:
        slots = q.return_slots(b)          # the refusal may sit in a helper that was inlined (`header.check_pixel_ratio()?`)
        errs = [(bb, t) for (l, pj, t, bb, sp) in q.defs_in(b, b.cfg.reach) if l in slots and not pj and t[0] == 'agg'
                and t[2] == 'Err' and dict(t[3])['0'][0] == 'agg' and dict(t[3])['0'][2] == UNSUPPORTED]
        ctx.floor('UnsupportedFeature returns in read_aseprite', len(errs), 1)
        for ebb, et in errs:
            # the header bytes tested on the way to the refusal: conditions of every switch from which the refusal is reachable
            # (a `match (w, h)` tests h in several blocks, none of which dominates the refusal)
            reads = []
            upstream = b.cfg.can_reach({ebb})
            for sw in sorted(q.switches_on(b, lambda d: d[0] != 'discr')):
                if sw not in upstream or sw == ebb:
                    continue
                cond = q.switch_cond(b, sw)
                for r_ in [x for x in walk(cond) if common.is_read(x, ('byte',))]:
                    if r_ not in reads:
                        reads.append(r_)
            first_sw = None
            if len(reads) == 2:
                # start interpreting right after the later of the two reads has been unwrapped by `?`
                sites = [x[3][1] for x in reads]
                later = sites[0] if b.cfg.dominates(sites[1], sites[0]) else sites[1]
                for sw in q.switches_on(b, lambda d: d[0] == 'discr' and d[1][0] == 'try' and d[1][1] in reads
                                        and d[1][1][3][1] == later):
                    cont = [s_ for v_, s_ in b.blocks[sw]['term']['targets'] if v_ == 0]
                    if cont:
                        first_sw = cont[0]
            if len(reads) != 2 or first_sw is None:
                ctx.inst(rule, 'pixel-ratio', False, 'the UnsupportedFeature return is guarded by comparisons on %d header '
                         'byte reads (expected the two pixel-ratio bytes)' % len(reads), b.blocks[ebb]['term'].get('span'),
                         key='asefile::parse::read_aseprite|%s|pixel-ratio-guards' % rule)
                continue

            def stop(bb, ebb=ebb):
                if bb == ebb:
                    return 'refuse'
                fwd = b.cfg.reachable_from(bb)
                if ebb not in fwd:
                    return 'accept'
                # every path from here runs into the Err construction?
                if not (b.cfg.reachable_from(bb, avoid={ebb}) & set(b.cfg.returns)):
                    return 'refuse'
                return None
            allok = True
            rows = []
            for w in (0, 1, 2, 255):
                for h in (0, 1, 2, 255):
                    want = 'refuse' if (w != 0 and h != 0 and not (w == 1 and h == 1)) else 'accept'
                    try:
                        got, path = q.interp(b, first_sw, {reads[0]: w, reads[1]: h}, stop)
                    except q.CannotEval as e:
                        got = 'cannot-evaluate(%s)' % e
                    rows.append((w, h, got))
                    ok = got == want
                    allok = allok and ok
                    ctx.inst(rule, 'pixel-ratio(%d:%d)' % (w, h), ok, 'pixel ratio %d:%d is %s; spec + README require %s'
                             % (w, h, got, want), b.blocks[ebb]['term'].get('span'),
                             key='asefile::parse::read_aseprite|%s|pixel-ratio|%d:%d' % (rule, w, h))
            ctx.note('pixel ratio truth table: %s' % rows)



def inlined_matcher(ctx, fn, table, callers):
    """the value-match decoder `fn` no longer exists as a function: accept the same match written inline in its caller
    (a switch on the file field itself with the same value set, each arm building the expected variant, `_` -> Err)"""
    fx = ctx.fx
    found = False
    for cn in callers:
        cb = fx.body(cn)
        if cb is None:
            continue
        for sw in q.switches_on(cb, lambda d: any(common.is_read(x, ('byte', 'word', 'dword')) for x in alts(strip_casts(d)))):
            tb = q.switch_table(cb, sw)
            if set(tb['values']) != set(table):
                continue
            found = True
            ctx.inst('T1', fn + '#set', True, 'accepted values %s (matched inline in %s); supported set per spec %s'
                     % (sorted(tb['values']), cn.split('asefile::')[-1], sorted(table)), tb['span'], key=fn + '|T1|value-set')
            for v, s_ in sorted(tb['values'].items()):
                reg = q.edge_region(cb, sw, s_)
                names = sorted({t[2] for (l, pj, t, bb, sp) in q.defs_in(cb, reg) if t[0] == 'agg' and t[2] is not None and
                                not (t[1] or '').startswith(('std::', 'core::', 'alloc::'))})
                ctx.inst('T1', '%s#%s' % (fn, v), names == [table[v]], 'value %s -> %s; expected %s' % (v, names, table[v]), tb['span'],
                         key='%s|T1|%s' % (fn, v))
            o = tb['otherwise']
            ok = o not in tb['values'].values() and q.arm_always_err(cb, o)
            ctx.inst('T2', fn, ok, 'the `_` arm %s' % ('returns Err on every path' if ok else 'does NOT always return Err '
                     '(unknown values would be accepted)'), tb['span'], key=fn + '|T2|otherwise')
            L = cb.cfg.loop_of(sw)
            if L is None:
                dom = common.dominates_ok_returns(cb, sw)
            else:
                dom = all(cb.cfg.dominates(sw, x) for x, _ in L['back_edges'])
            ctx.inst('T3', '%s in %s#dominates' % (fn, cn), dom, 'the inline match %s every %s' % (
                'dominates' if dom else 'does NOT dominate', 'completed iteration of its loop' if L is not None else 'non-error return'),
                tb['span'], key=ctx.key(cn, 'T3', 'dominates', fn))
            in_load = cb.path in CG.load_cone(fx)
            ctx.inst('T3', fn + '#reach', in_load, 'the function holding the match %s in the call-graph cone of read_aseprite'
                     % ('is' if in_load else 'is NOT'), cb.span, key=fn + '|T3|reach')
    return found


def matchers(ctx, bindings, only=None):
    """T1/T2/T3 for the value-match decoders (all, or those named in `only`): accepted constant set = the spec's, each value produces
    its variant, the `_` arm always errs, the decoder is reached on every path that builds the decoded structure, its Result is
    propagated and its argument is the whole spec field.  -> number of literal arms examined"""
    import layout
    fx = ctx.fx
    g = CG.get(fx)
    load = CG.load_cone(fx)
    literal_arms = 0
    for fn, (pidx, table, callers) in MATCHERS.items():
        if only is not None and fn not in only:
            continue
        if fx.body(fn) is None and inlined_matcher(ctx, fn, table, callers):
            literal_arms += len(table)
            continue
        b = ctx.anchor(fn)
        if b is None:
            continue
        sws = q.switches_on(b, lambda d, pidx=pidx: is_param(strip_casts(d), pidx))
        if len(sws) != 1:
            ctx.fail('%s|T1|no-switch' % fn, '%s: expected exactly one match on parameter %d, found %d' % (fn, pidx, len(sws)))
            continue
        tb = q.switch_table(b, sws[0])
        got = {}
        for v, s in tb['values'].items():
            arm = tb['arms'][s]
            names = []
            for rt in arm['ret']:
                for a in alts(rt):
                    if q.is_err_term(a):
                        continue          # the `?` of a read inside the arm: an error exit, not a decoded value
                    vn, inner = variant_of(a)
                    names.append((vn, inner))
            got[v] = names
        # values that reach the `_` arm although they are table values: the range was cut by an earlier refusal and the arm tells them
        # apart by later tests (`if t >= 4 {Err}; match t { 1 => .., 3 => .., _ => image cel, compressed iff t == 2 }`)
        ov = otherwise_values(b, sws[0], pidx)
        o_arm = tb['arms'].get(tb['otherwise'])
        bounded_other = ov is not None and o_arm is not None and set(ov) <= set(table)
        if bounded_other:
            for v in ov:
                names = []
                for rt in o_arm['ret']:
                    for a in alts(specialise(b, rt, pidx, v)):
                        if q.is_err_term(a):
                            continue
                        vn, inner = variant_of(a)
                        names.append((vn, specialise(b, inner, pidx, v)))
                got[v] = names
        literal_arms += len(got)
        ok_set = set(got) == set(table)
        ctx.inst('T1', fn + '#set', ok_set, 'accepted values %s; supported set per spec %s'
                 % (sorted(got), sorted(table)), tb['span'], key=fn + '|T1|value-set')
        for v in sorted(set(got) & set(table)):
            names = got[v]
            ok = len(names) == 1 and names[0][0] == table[v]
            if ok and fn.endswith('CelContent::parse'):
                ok = cel_arm_source(fx, names[0][1]) == CEL_VIA[v]
            ctx.inst('T1', '%s#%s' % (fn, v), ok, 'value %s -> %s; expected %s%s'
                     % (v, [n for n, _ in names], table[v], ' via ' + CEL_VIA[v].split('::')[-1] if fn.endswith('CelContent::parse') else ''),
                     tb['span'], key='%s|T1|%s' % (fn, v))
        # distinctness (no two codes produce the same variant unless the table says so)
        o = tb['otherwise']
        ok = (o not in tb['values'].values() and q.arm_always_err(b, o)) or bounded_other
        ctx.inst('T2', fn, ok, 'the `_` arm %s' % ('returns Err on every path' if ok else 'does NOT always return Err '
                 '(unknown values would be accepted)'), tb['span'], key=fn + '|T2|otherwise')
        # T3: callers
        in_load = b.path in load
        ctx.inst('T3', fn + '#reach', in_load, 'decoder %s in the call-graph cone of read_aseprite'
                 % ('is' if in_load else 'is NOT'), b.span, key=fn + '|T3|reach')
        for cn in callers:
            cb = ctx.anchor(cn)
            if cb is None:
                continue
            cs = q.calls(cb, fn)
            ctx.floor('calls of %s in %s' % (fn.split('::')[-1], cn.split('::')[-1]), len(cs), 1)
            for c in cs:
                common.propagated_call(ctx, cb, c, 'T3', 'refusal of %s' % fn.split('::')[-1])
                L = cb.cfg.loop_of(c.bb)
                if L is None:
                    dom = common.dominates_ok_returns(cb, c.bb)
                    what = 'every non-error return of %s' % cn.split('::')[-1]
                else:
                    # per-element decoder: must run on every completed iteration of its loop
                    dom = all(cb.cfg.dominates(c.bb, x) for x, _ in L['back_edges'])
                    what = 'every completed iteration of the per-element loop in %s' % cn.split('::')[-1]
                ctx.inst('T3', '%s in %s#dominates' % (fn, cn), dom,
                         'the decoder call %s %s' % ('dominates' if dom else 'does NOT dominate', what), c.span,
                         key=ctx.key(cn, 'T3', 'dominates', fn))
                at = q.arg_terms(c)[pidx - 1]
                def whole_field(x):
                    if is_param(strip_casts(x)):
                        return True
                    inner, bad = layout.unwrap_value(q.expand(x, fx, 2, layout.noinl(fx)))
                    return layout.is_read_term(inner) and not bad and bindings.get(inner[3], ('', ''))[1] == FIELD[fn]
                isread = all(whole_field(x) for x in alts(at))
                ctx.inst('T3', '%s in %s#arg' % (fn, cn), isread, 'matched value is %s (must be the whole `%s` field of the spec layout, not narrowed)'
                         % (show(at), FIELD[fn]), c.span, key=ctx.key(cn, 'T3', 'arg', fn))

    return literal_arms


def run(ctx):
    fx = ctx.fx
    g = CG.get(fx)
    load = CG.load_cone(fx)
    ctx.rules = ['L1 refusal fields at spec position/width', 'T1 value table', 'T2 otherwise->Err', 'T3 decoder reached + propagated', 'T4 condition refusals',
                 'T5 tileset pixels must-pass-through', 'P8 error discipline on the LOAD cone']
    ctx.explanation = (
        'Static switch-table extraction over MIR. For each documented refusal the check finds the branch on the file '
        'field, reads off the accepted constant set and the value each arm produces, requires the remaining edge to '
        'return Err on every path without constructing the Ok value, requires the decoder call to dominate the '
        'construction of the decoded structure in its caller and its Result to be ?-propagated, and requires the decoder '
        'to lie in the call-graph cone of read_aseprite. The pixel-ratio refusal is decided by abstractly evaluating the '
        'guard conditions over the value classes {0,1,other} of the two header bytes (a finite truth table). '
        'Error discipline (no dropped Result) is checked on all fallible call sites of the loader cone. '
        'Not decided: which error variant is used; features not on the property\'s list.')
    literal_arms = 0

    # ---------------- L1: the fields the refusals look at are read at their spec position and width (seed C15-g read the cel type as a
    # BYTE: the refusal then sees only the low half and 0x0100 loads as a raw cel)
    import layout
    import spec as SP
    import C07 as _c07
    spec = SP.load_spec()
    bindings = {}
    for fn in sorted(spec['decoders']):
        if fn in ('asefile::parse::read_aseprite', 'asefile::parse::Chunk::read', 'asefile::layer::parse_chunk', 'asefile::cel::parse_chunk',
                  'asefile::color_profile::parse_chunk', 'asefile::tags::parse_chunk', 'asefile::tileset::Tileset::parse_chunk'):
            bnd, _ = layout.check_layout(ctx, spec, fn, spec['decoders'][fn], rule='L1')
            for k, v in bnd.items():
                bindings.setdefault(k, v)
    ctx.floor('read sites bound to spec fields in the refusing decoders', len(bindings), 40)
    # .. and every chunk of a frame is handed to the dispatch (seed C15-h: min(old, new) count leaves the chunks after the 65535th,
    # and whatever unsupported feature they carry, unparsed)
    _c07.chunk_count_selection(ctx, 'T3')

    # ---------------- T1/T2/T3 value matchers
    literal_arms += matchers(ctx, bindings)
    common.arm_state_independence(ctx, 'T3')        # no arm consults what other chunks brought before deciding to decode (seed C15-m)

    pixel_ratio(ctx)

    # ---------------- T4b colour profile: flags&1 -> Err ; type == ICC -> Err
    b = ctx.anchor('asefile::color_profile::parse_chunk')
    if b is not None:
        found_gamma = found_icc = 0
        for sw in q.switches_on(b, lambda d: True):
            d = q.switch_cond(b, sw)
            tm = b.blocks[sw]['term']
            if d[0] == 'bin' and d[1] in ('Ne', 'Eq') and d[2][0] == 'bin' and d[2][1] == 'BitAnd':
                rd, mask = d[2][2], d[2][3]
                cmpv = q.const_val(d[3])
                if common.is_read(rd, ('word',)) and q.const_val(mask) == 1:
                    found_gamma += 1
                    # edge taken when the bit is set
                    if d[1] == 'Ne' and cmpv == 0 or d[1] == 'Eq' and cmpv == 1:
                        set_edge = tm['otherwise']
                    else:
                        set_edge = [s for v, s in tm['targets'] if v == 0][0]
                    ok = q.arm_always_err(b, set_edge)
                    ctx.inst('T4', 'color-profile#gamma', ok, 'flags & 1 set -> %s' % ('Err on every path' if ok else 'NOT always Err'),
                             tm['span'], key=b.name + '|T4|gamma-flag')
                    # ... and for every profile type: the test lies on every path to an Ok result
                    dom = common.dominates_ok_returns(b, sw)
                    ctx.inst('T4', 'color-profile#gamma-always', dom, 'the fixed-gamma test %s every non-error return (it must apply to all profile types)'
                             % ('dominates' if dom else 'does NOT dominate'), tm['span'], key=b.name + '|T4|gamma-always')
            if d[0] == 'call' and d[1].endswith('ColorProfileType as std::cmp::PartialEq>::eq'):
                rhs = [x for x in d[2] if x[0] == 'agg']
                lhs = [x for x in d[2] if x[0] == 'call' and x[1].endswith('parse_color_profile_type')]
                if rhs and rhs[0][2] == 'ICC' and lhs:
                    found_icc += 1
                    ok = q.arm_always_err(b, tm['otherwise'])
                    ctx.inst('T4', 'color-profile#icc', ok, 'profile type == ICC -> %s' % ('Err on every path' if ok else 'NOT always Err'),
                             tm['span'], key=b.name + '|T4|icc')
            if d[0] == 'discr' and any(x[0] == 'call' and x[1].endswith('parse_color_profile_type') for x in walk(d)) \
                    and tm['ty'] == 'isize' and d[1][0] != 'try':
                # `matches!(profile_type, ICC)` / a match on the decoded enum: the ICC arm (discriminant 2) must refuse
                import C10 as _c10v
                names_ = _c10v.switch_variants(b, sw)          # discriminant value -> variant name, from the enum as it is declared now
                icc_vals = [v_ for v_, n_ in names_.items() if n_ == 'ICC'] or [2]
                icc_edges = [q.thread_bool(b, s_) for v_, s_ in tm['targets'] if v_ in icc_vals]
                if not icc_edges and 'ICC' in names_.values() and tm.get('otherwise') is not None and not any(v_ in icc_vals for v_, _ in tm['targets']):
                    icc_edges = [q.thread_bool(b, tm['otherwise'])]     # ICC falls into the `_` arm
                if icc_edges:
                    found_icc += 1
                    ok = all(q.arm_always_err(b, e_) for e_ in icc_edges)
                    ctx.inst('T4', 'color-profile#icc', ok, 'profile type is ICC (by variant name) -> %s' % ('Err on every path' if ok else 'NOT always Err'),
                             tm['span'], key=b.name + '|T4|icc')
        ctx.floor('fixed-gamma flag tests', found_gamma, 1)
        ctx.floor('ICC profile tests', found_icc, 1)
        if found_icc == 0:
            ctx.inst('T4', 'color-profile#icc', False, 'no branch of color_profile::parse_chunk refuses the ICC profile type (== ICC / matches!(.., ICC) / match arm)',
                     b.span, key=b.name + '|T4|icc')
        literal_arms += 2

    # ---------------- T4c bits per tile
    b = ctx.anchor('asefile::tilemap::TilemapData::parse_chunk')
    if b is not None:
        n = 0
        for sw in q.switches_on(b, lambda d: d[0] == 'bin' and d[1] in ('Ne', 'Eq') and common.is_read(d[2], ('word',))
                                and q.const_val(d[3]) is not None):
            d = q.switch_cond(b, sw)
            tm = b.blocks[sw]['term']
            n += 1
            c = q.const_val(d[3])
            if d[1] == 'Ne':
                bad_edge = tm['otherwise']
            else:
                bad_edge = [s for v, s in tm['targets'] if v == 0][0]
            ok = c == 32 and q.arm_always_err(b, bad_edge)
            ctx.inst('T4', 'bits-per-tile', ok, 'bits_per_tile %s %s: other values -> %s' % (d[1], c, 'Err' if ok else 'NOT refused'),
                     tm['span'], key=b.name + '|T4|bits-per-tile')
            good_edge = [s for s in b.cfg.succ[sw] if s != bad_edge]
            for uz in q.calls(b, 'asefile::tile::Tiles::unzip'):
                dom = bool(good_edge) and b.cfg.edge_dominates(sw, good_edge[0], uz.bb)
                ctx.inst('T4', 'bits-per-tile#before-decode', dom, 'the bits-per-tile test %s the tile decoding call'
                         % ('dominates' if dom else 'does NOT dominate'), uz.span, key=b.name + '|T4|bits-dominates-unzip')
        ctx.floor('bits-per-tile tests', n, 1)
        literal_arms += 1
        for cn in g.callers(b.path):
            cb = fx.by_path[cn]
            for c in q.calls(cb, b.name):
                pass

    # ---------------- T3b: the refusing decoders see every chunk of their kind (in every frame)
    import C01 as _c01
    _c01.dispatch_always_decodes(ctx, 'T3')

    # ---------------- T5 tilesets without embedded pixels
    b = ctx.anchor('asefile::tileset::TilesetsById::validate')
    if b is not None:
        n = 0
        # alternative spellings of the same refusal: match / if-let on `.pixels`, or `.pixels.is_none()`
        for sw in q.switches_on(b, lambda d: True):
            d = q.switch_cond(b, sw)
            tm = b.blocks[sw]['term']
            none_edge = None
            if d[0] == 'discr' and q.field_path(d[1])[1][-1:] == ['pixels']:
                none_edge = [s_ for v_, s_ in tm['targets'] if v_ == 0] or [tm['otherwise']]
            elif d[0] == 'call' and d[1] in ('std::option::Option::is_none', 'std::option::Option::is_some') \
                    and q.field_path(d[2][0])[1][-1:] == ['pixels']:
                if d[1].endswith('is_none'):
                    none_edge = [tm['otherwise']]
                else:
                    none_edge = [s_ for v_, s_ in tm['targets'] if v_ == 0]
            if none_edge:
                n += 1
                ok = all(q.arm_always_err(b, e_) for e_ in none_edge)
                ctx.inst('T5', 'tileset-pixels#none-branch', ok, 'tileset.pixels == None -> %s' % ('Err on every path' if ok else
                         'NOT an error (tilesets without embedded pixels are accepted or skipped)'), tm['span'],
                         key=ctx.key(b.name, 'T5', 'none-branch', ''))
                # ... for every tileset: the test lies on every path to the insertion of the validated tileset
                ins_ = q.calls(b, 'std::collections::HashMap::insert')
                dom_ = bool(ins_) and all(b.cfg.dominates(sw, i_.bb) for i_ in ins_)
                ctx.inst('T5', 'tileset-pixels#test-always', dom_, 'the pixels-present test %s the insertion of the validated tileset (it must not be '
                         'conditional on anything else, e.g. on an external-file reference)' % ('dominates' if dom_ else 'does NOT dominate'), tm['span'],
                         key=ctx.key(b.name, 'T5', 'test-always', ''))
        for c in q.calls(b, 'std::option::Option::ok_or_else'):
            at = q.arg_terms(c)
            base, names = q.field_path(at[0])
            if names[-1:] != ['pixels']:
                continue
            n += 1
            item_is_loopvar = any(x[0] == 'next' for x in walk(base))
            ctx.inst('T5', 'tileset-pixels#subject', item_is_loopvar, 'pixels-present test applies to %s (must be the tileset of '
                     'the current loop iteration)' % show(at[0]), c.span, key=b.name + '|T5|subject')
            common.propagated_call(ctx, b, c, 'T5', 'missing tileset pixels')
            # the closure must produce an error value (any variant)
            ins = q.calls(b, 'std::collections::HashMap::insert')
            ctx.floor('result.insert in TilesetsById::validate', len(ins), 1)
            # the `?` continue edge must dominate the insert
            for i in ins:
                dom = b.cfg.dominates(c.bb, i.bb)
                ctx.inst('T5', 'tileset-pixels#dominates-insert', dom, 'the pixels-present test %s the insertion of the validated tileset'
                         % ('dominates' if dom else 'does NOT dominate'), i.span, key=b.name + '|T5|dominates-insert')
            # loop iterates the whole map: iterator is into_iter(self.0) with no adaptor
            its = [x for x in walk(base) if x[0] == 'next']
            whole = False
            for it in its:
                src = q.unwrap_into_iter(it[1])
                bb_, nn = q.field_path(src)
                whole = whole or (is_param(bb_, 1) and nn == ['0'])
            ctx.inst('T5', 'tileset-pixels#all-tilesets', whole, 'validation loop iterates %s' %
                     ('self.0.into_iter() directly (every tileset)' if whole else 'something other than the whole tileset map'),
                     c.span, key=b.name + '|T5|whole-map')
            # no break / early Ok: loop exits only via iterator exhaustion or error return
            L = b.cfg.loop_of(c.bb)
            if L is not None:
                kinds = q.loop_exit_kinds(b, L)
                exits_ok = all(k in ('exhausted', 'err', 'unreachable') for _, _, k in kinds)
                ctx.inst('T5', 'tileset-pixels#no-early-exit', exits_ok, 'validation loop %s' %
                         ('is left only when the iterator is exhausted or an error is returned' if exits_ok else
                          'has an early exit that skips remaining tilesets'), c.span, key=b.name + '|T5|loop-exits')
        ctx.floor('pixels-present tests in TilesetsById::validate', n, 1)
        pv = ctx.anchor('asefile::parse::ParseInfo::validate')
        if pv is not None:
            cs = q.calls(pv, b.name)
            ctx.floor('calls of TilesetsById::validate', len(cs), 1)
            for c in cs:
                common.propagated_call(ctx, pv, c, 'T5', 'tileset validation')
                dom = common.dominates_ok_returns(pv, c.bb)
                ctx.inst('T5', 'ParseInfo::validate#dominates', dom, 'tileset validation %s the Ok return of ParseInfo::validate'
                         % ('dominates' if dom else 'does NOT dominate'), c.span, key=pv.name + '|T5|dominates')
        literal_arms += 1
        # every decoded tileset chunk reaches that validation: TilesetsById::add stores its argument unconditionally under its own id (a
        # "keep the first" insert, seed C15-k, drops a later external-only redefinition before it can be refused)
        ab = ctx.anchor('asefile::tileset::TilesetsById::add')
        if ab is not None:
            ins = q.calls(ab, 'std::collections::HashMap::insert')
            muts = [q.callee_name(c_) for c_ in q.calls(ab) if q.callee_name(c_).startswith('std::collections::') and
                    q.callee_name(c_).split('::')[-1] in ('entry', 'or_insert', 'or_insert_with', 'remove', 'retain', 'try_insert', 'contains_key', 'get')]
            ok = len(ins) == 1 and not muts and is_param(q.arg_terms(ins[0])[2], 2) and q.must_pass(ab, 0, ins[0].bb)
            ctx.inst('T5', 'TilesetsById::add', ok, 'add(tileset): %s; must be one unconditional insert of the tileset (a later chunk with the same id replaces, '
                     'never silently loses to, an earlier one)' % ('insert(.., tileset)' if ok else 'inserts %d, other map calls %s' % (len(ins), muts)), ab.span,
                     key=ab.name + '|T5|add')

    # chain: decoders' callers up to read_aseprite all propagate (P8 on the whole LOAD cone)
    nsites = common.error_discipline(ctx, [fx.by_path[p] for p in sorted(load)])
    ctx.floor('fallible call sites in the LOAD cone', nsites, 150)
    ctx.floor('refusal rows', 7 + 5, 12)
    ctx.extra['literal_arms'] = literal_arms
    ctx.extra['load_cone_size'] = len(load)
    ctx.samples = [i for i in ctx.instances if i['rule'] in ('T1', 'T2', 'T4', 'T5')][:16]
