"""C18 - the optional utilities: the clauses that are visible in the shape of src/util.rs (analysed with `--features utils`).

G  the module exists only with the feature: no asefile::util::* body in the default configuration, the four public functions with it.
E1 extrude_border returns from_raw(w + 2, h + 2, data) with (w, h) = image.dimensions().
E2 the rows written are  once(0) ++ 0..h ++ once(h - 1)   (= clamp(y - 1, 0, h - 1) for y in 0..h+2).
E3 per row exactly three appends to `data`, in this order, all from image.as_raw():
   [ofs .. ofs+4] (pixel 0), [ofs .. ofs+4w] (pixels 0..w), [ofs+4w-4 .. ofs+4w] (pixel w-1), ofs = row*4*w
   (= clamp(x - 1, 0, w - 1) for x in 0..w+2); nothing else writes `data`.
M1 PaletteMapper::lookup: alpha != 255 -> self.transparent; otherwise map.get(key(r,g,b)) or self.failure.
M2 PaletteMapper::new: transparent = options.transparent.unwrap_or(options.failure); failure = options.failure; every palette entry
   is inserted under key(red, green, blue) - the same key polynomial as in lookup - with value `index as u8` only under index < 256,
   else options.failure.
M3 to_indexed_image returns (image.dimensions(), image.pixels().map(|c| lookup(c[0], c[1], c[2], c[3])).collect()).
NOT decided: which of several palette entries with equal RGB wins (HashMap iteration order; the statement avoids it), pixel values.
"""
import q
import poly as P
from q import res, is_param, is_param_path, strip_casts, show, alts, walk, expand

NEEDS_UTILS = 'always'
U = 'asefile::util::'


def key_shape(t, leaves):
    """t == R + (G << 8) + (B << 16) for the three leaf predicates"""
    p = P.poly(t)
    if len(p) != 3 or any(v != 1 for v in p.values()) or any(len(k) != 1 for k in p):
        return False
    atoms = [k[0] for k in p]
    r = [a for a in atoms if leaves[0](a)]
    g = [a for a in atoms if a[0] == 'bin' and a[1] == 'Shl' and leaves[1](a[2]) and q.const_val(a[3]) == 8]
    b = [a for a in atoms if a[0] == 'bin' and a[1] == 'Shl' and leaves[2](a[2]) and q.const_val(a[3]) == 16]
    return len(r) == 1 and len(g) == 1 and len(b) == 1


def gate(ctx, fx0, fxu):
    d = [b.name for b in fx0.bodies if b.name.startswith(U)]
    ctx.inst('G', 'default features', not d, 'bodies of asefile::util in the default configuration: %s (must be none)' % d[:3], None, key='crate|G|default')
    have = {b.name for b in fxu.bodies if b.name.startswith(U) and b.kind == 'fn'}
    want = {U + 'extrude_border', U + 'PaletteMapper::new', U + 'PaletteMapper::lookup', U + 'to_indexed_image'}
    ctx.inst('G', 'utils feature', want <= have, 'functions of asefile::util with --features utils: %s' % sorted(x.split('::', 2)[-1] for x in have), None,
             key='crate|G|utils')


def extrude(ctx):
    b = ctx.anchor(U + 'extrude_border')
    if b is None:
        return
    dims = ('call', 'image::ImageBuffer::dimensions', (('param', 1, 'image'),), None)
    W, H = P.canon(('field', dims, '0')), P.canon(('field', dims, '1'))
    t = res(b).ret()
    ok = t[0] == 'call' and t[1] == 'image::ImageBuffer::from_raw' and len(alts(t)) == 1
    data = None
    if ok:
        ok = P.poly(t[2][0]) == P.make((1, W), (2,)) and P.poly(t[2][1]) == P.make((1, H), (2,))
        data = t[2][2]
    ctx.inst('E1', 'extrude_border#dims', ok, 'returns %s; must be from_raw(w + 2, h + 2, data) of the input dimensions' % show(t)[:150], b.span, key=b.name + '|E1')
    # E2 row sequence
    nx = [c for c in q.calls(b, 'std::iter::Iterator::next')]
    rows = None
    okr = False
    d = 'no row loop'
    for c in nx:
        it = q.unwrap_into_iter(q.arg_terms(c)[0])
        d = show(it)[:200]
        if it[0] == 'call' and it[1] == 'std::iter::Iterator::chain':
            a, last = it[2]
            if a[0] == 'call' and a[1] == 'std::iter::Iterator::chain':
                first, mid = a[2]
                f0 = first[0] == 'call' and first[1] == 'std::iter::once' and q.const_val(first[2][0]) == 0
                m0 = mid[0] == 'agg' and mid[1] == 'std::ops::Range' and q.const_val(dict(mid[3])['start']) == 0 and P.poly(dict(mid[3])['end']) == P.make((1, H))
                l0 = last[0] == 'call' and last[1] == 'std::iter::once' and P.poly(last[2][0]) == P.make((1, H), (-1,))
                okr = f0 and m0 and l0
                rows = P.canon(('next', q.arg_terms(c)[0]))
    ctx.inst('E2', 'extrude_border#rows', okr, 'row sequence = %s; must be once(0).chain(0..h).chain(once(h - 1))' % d, b.span, key=b.name + '|E2')
    # E3 the three appends
    ext = q.calls(b, 'std::vec::Vec::extend_from_slice')
    other = [c for c in q.calls(b) if c.callee.startswith('std::vec::Vec::') and c.callee.split('::')[-1] in
             ('push', 'extend', 'insert', 'resize', 'truncate', 'append', 'extend_from_within', 'clear', 'swap', 'reverse') ]
    ctx.floor('appends in extrude_border', len(ext), 3)
    oko = len(ext) == 3 and not other and all(b.cfg.dominates(ext[i].bb, ext[i + 1].bb) for i in range(len(ext) - 1))
    L = b.cfg.loop_of(ext[0].bb) if ext else None
    oko = oko and L is not None and all(b.cfg.loop_of(c.bb) is L and all(b.cfg.dominates(c.bb, x) for x, _ in L['back_edges']) for c in ext)
    ctx.inst('E3', 'extrude_border#appends', oko, '%d appends (%d other writes) per row, each on every iteration and in a fixed order' % (len(ext), len(other)),
             b.span, key=b.name + '|E3|order')
    if rows is not None and len(ext) == 3:
        row = None
        for c in nx:
            row = P.canon(('next', q.arg_terms(c)[0]))
        ofs = [(4, row, W)]
        want = [
            (P.make(*ofs), P.make(*ofs, (4,)), 'pixel 0 of the row'),
            (P.make(*ofs), P.make(*ofs, (4, W)), 'the whole row'),
            (P.make(*ofs, (4, W), (-4,)), P.make(*ofs, (4, W)), 'pixel w-1 of the row'),
        ]
        for i, (c, (ws, we, what)) in enumerate(zip(ext, want)):
            at = q.arg_terms(c)
            sl = at[1]
            okk = sl[0] == 'call' and sl[1] == 'std::ops::Index::index' and sl[2][0][0] == 'call' and sl[2][0][1] == 'image::ImageBuffer::as_raw' and \
                is_param(sl[2][0][2][0], 1) and sl[2][1][0] == 'agg' and sl[2][1][1] == 'std::ops::Range'
            d = show(sl)[:80]
            if okk:
                f = dict(sl[2][1][3])
                ps, pe = P.poly(f['start']), P.poly(f['end'])
                okk = ps == ws and pe == we and (data is None or P.canon(at[0]) == P.canon(data))
                d = '[%s .. %s]' % (P.show(ps)[:90], P.show(pe)[:90])
            ctx.inst('E3', 'extrude_border#append%d' % (i + 1), okk, 'append %d copies raw%s; must be %s: raw[%s .. %s]' % (i + 1, d, what, P.show(ws)[:60], P.show(we)[:60]),
                     c.span, key=b.name + '|E3|append%d' % (i + 1))


def option_or_default(body, defs, is_opt, is_default):
    """two definitions of one value: one is the payload of an Option satisfying is_opt (its term, the engine erases the `as Some`
    projection - safe Rust can only take it in the Some arm), the other satisfies is_default and is made on the None edge of a match /
    if-let on that same Option"""
    hit = [(t, bb) for t, bb in defs if len(alts(t)) == 1 and is_opt(strip_casts(list(alts(t))[0]))]
    dfl = [(t, bb) for t, bb in defs if len(alts(t)) == 1 and is_default(strip_casts(list(alts(t))[0]))]
    if len(hit) != 1 or len(dfl) != 1 or len(defs) != 2:
        return False
    for cond, vals, a in q.guards(body, dfl[0][1]):
        subj = cond[1] if cond[0] == 'discr' else None
        if subj is not None and is_opt(strip_casts(subj)):
            tm = body.blocks[a]['term']
            explicit = [v for v, _ in tm['targets']]
            if vals == [0] or (vals == ['otherwise'] and explicit == [1]):
                return True
        if cond[0] == 'call' and cond[1] in ('std::option::Option::is_some', 'std::option::Option::is_none') and is_opt(strip_casts(cond[2][0])):
            if q.bool_outcome(body, a, vals) is (cond[1].endswith('is_none')):
                return True
    return False


def field_operand_root(body, st, field):
    """the user local a struct-literal field is initialised from (plain copies followed), or None"""
    rv = st['rv']
    names = rv.get('fields') or []
    ops = rv.get('ops') or []
    for n_, o_ in zip(names, ops):
        if n_ == field:
            return q.root_local(body, o_)
    return None


def mapper(ctx):
    fx = ctx.fx
    lb = ctx.anchor(U + 'PaletteMapper::lookup')
    if lb is not None:
        defs = [(t, bb) for (l, pj, t, bb, sp) in q.defs_in(lb, lb.cfg.reach) if l == 0 and not pj]
        ok_t = ok_o = False
        opaque_defs = []
        for t, bb in defs:
            gs = [(c, q.bool_outcome(lb, a, v)) for c, v, a in q.guards(lb, bb)]

            def alpha_ne(c):
                return c[0] == 'bin' and c[1] in ('Ne', 'Eq') and is_param(strip_casts(c[2]), 5) and q.const_val(c[3]) == 255
            pol = [(c[1] == 'Ne') == tr for c, tr in gs if alpha_ne(c) and tr is not None]
            al = list(alts(t))
            if pol == [True]:
                ok_t = len(al) == 1 and is_param_path(al[0], 1, ['transparent'])
            elif pol == [False]:
                opaque_defs.append((t, bb))

        def is_get(a):
            return a[0] == 'call' and a[1].endswith('HashMap::get') and is_param_path(a[2][0], 1, ['map']) and \
                key_shape(a[2][1], [lambda x: is_param(x, 2), lambda x: is_param(x, 3), lambda x: is_param(x, 4)])
        # one definition `*map.get(&key).unwrap_or(&self.failure)`, or the same written as a match: the hit under Some, failure under None
        if len(opaque_defs) == 1:
            al = list(alts(opaque_defs[0][0]))
            ok_o = len(al) == 2 and sum(1 for a in al if is_get(a)) == 1 and sum(1 for a in al if is_param_path(a, 1, ['failure'])) == 1
        elif len(opaque_defs) == 2:
            ok_o = option_or_default(lb, opaque_defs, is_get, lambda a: is_param_path(a, 1, ['failure']))
        ctx.inst('M1', 'lookup#transparent', ok_t, 'alpha != 255 -> %s' % ('self.transparent' if ok_t else 'NOT (only) self.transparent'), lb.span, key=lb.name + '|M1|transparent')
        ctx.inst('M1', 'lookup#opaque', ok_o, 'alpha == 255 -> %s' % ('map.get(r + (g << 8) + (b << 16)) or self.failure' if ok_o else 'NOT map.get(key(r,g,b)).unwrap_or(failure)'),
                 lb.span, key=lb.name + '|M1|opaque')
    nb = ctx.anchor(U + 'PaletteMapper::new')
    if nb is not None:
        t = res(nb).ret()
        ok = t[0] == 'agg' and t[1] == U + 'PaletteMapper'
        if ok:
            f = dict(t[3])
            tr = set(alts(f.get('transparent')))
            ok = len(tr) == 2 and any(is_param_path(x, 2, ['failure']) for x in tr) and any(is_param_path(x, 2, ['transparent']) for x in tr) and \
                is_param_path(f.get('failure'), 2, ['failure'])
            uo = q.calls(nb, 'std::option::Option::unwrap_or')
            if uo:
                ok = ok and len(uo) == 1 and is_param_path(q.arg_terms(uo[0])[0], 2, ['transparent']) and is_param_path(q.arg_terms(uo[0])[1], 2, ['failure'])
            else:
                # written as a match / if let: the payload under Some, options.failure under None
                root = None
                for bb_, st_, t_ in q.stmt_aggs(nb, U + 'PaletteMapper'):
                    root = field_operand_root(nb, st_, 'transparent')
                ds = q.local_defs(nb, root) if root is not None else []
                ok = ok and len(ds) == 2 and option_or_default(nb, ds, lambda a: is_param_path(a, 2, ['transparent']), lambda a: is_param_path(a, 2, ['failure']))
        ctx.inst('M2', 'new#options', ok, 'PaletteMapper{transparent: %s, failure: %s}; must be (options.transparent.unwrap_or(options.failure), options.failure)'
                 % (show(dict(t[3]).get('transparent'))[:70] if t[0] == 'agg' else '?', show(dict(t[3]).get('failure'))[:40] if t[0] == 'agg' else '?'), nb.span,
                 key=nb.name + '|M2|options')
        ins = q.calls(nb, 'std::collections::HashMap::insert')
        ctx.floor('map inserts in PaletteMapper::new', len(ins), 1)
        for c in ins:
            at = q.arg_terms(c)
            item = None
            L = nb.cfg.loop_of(c.bb)
            whole = False
            if L is not None:
                for bi in sorted(L['body']):
                    cc = nb.call_at(bi)
                    if cc is not None and q.callee_name(cc) == 'std::iter::Iterator::next' and nb.cfg.loop_of(bi) is L:
                        it = q.unwrap_into_iter(q.arg_terms(cc)[0])
                        item = ('next', q.arg_terms(cc)[0])
                        whole = (it[0] == 'call' and it[1].endswith('HashMap::iter') and is_param_path(it[2][0], 1, ['entries'])) or \
                            is_param_path(it, 1, ['entries'])          # `for .. in &palette.entries`
                whole = whole and all(nb.cfg.dominates(c.bb, x) for x, _ in L['back_edges']) and \
                    all(k in ('exhausted', 'err', 'unreachable') for _, _, k in q.loop_exit_kinds(nb, L))

            def colour(nm):
                return lambda a: a[0] == 'call' and a[1] == 'asefile::palette::ColorPaletteEntry::' + nm and item is not None and \
                    P.canon(a[2][0]) == P.canon(('field', item, '1'))
            okk = whole and key_shape(at[1], [colour('red'), colour('green'), colour('blue')])
            ctx.inst('M2', 'new#key', okk, 'every palette entry is inserted under %s; must be red + (green << 8) + (blue << 16) of that entry (the key lookup() uses)'
                     % show(at[1])[:100], c.span, key=nb.name + '|M2|key')
            # value: index as u8 under index < 256, else options.failure
            val_ok = True
            n = 0
            ldst = c.args[2]['p']['l'] if c.args[2]['k'] in ('copy', 'move') else None
            import C11 as _c11
            root = _c11.root_local(nb, c.args[2]) if ldst is not None else None
            for tt, bb in (_c11.local_defs(nb, root) if root is not None else []):
                n += 1
                # what is known about the entry index where this value is chosen, in any spelling (`< 256`, `<= 255`, `!(>= 256)`, mirrored)
                known = [(op_, q.const_val(r_)) for op_, l_, r_ in q.facts_at(nb, bb)
                         if item is not None and P.canon(l_) == P.canon(('field', item, '0')) and isinstance(q.const_val(r_), int)]
                small = ('Lt', 256) in known or ('Le', 255) in known
                big = ('Ge', 256) in known or ('Gt', 255) in known
                pol = [True] if small and not big else [False] if big and not small else []
                s0 = strip_casts(tt)
                if item is not None and P.canon(tt) == P.canon(('field', item, '0')):
                    val_ok = val_ok and pol == [True]
                elif is_param_path(s0, 2, ['failure']):
                    val_ok = val_ok and pol == [False]
                else:
                    val_ok = False
            ctx.inst('M2', 'new#value', val_ok and n == 2, 'stored index = %s; must be `index as u8` under index < 256 and options.failure otherwise' % show(at[2])[:110],
                     c.span, key=nb.name + '|M2|value')
    ib = ctx.anchor(U + 'to_indexed_image')
    if ib is not None:
        t = res(ib).ret()
        ok = t[0] == 'tuple' and len(t[1]) == 2 and len(alts(t)) == 1
        d = show(t)[:160]
        if ok:
            dm, dat = t[1]
            okd = dm[0] == 'call' and dm[1] == 'image::ImageBuffer::dimensions' and is_param(dm[2][0], 1)
            okc = dat[0] == 'call' and dat[1] == 'std::iter::Iterator::collect' and dat[2][0][0] == 'call' and dat[2][0][1] == 'std::iter::Iterator::map' and \
                dat[2][0][2][0][0] == 'call' and dat[2][0][2][0][1] == 'image::ImageBuffer::pixels' and is_param(dat[2][0][2][0][2][0], 1)
            okl = False
            if okc:
                clo = dat[2][0][2][1]
                cb = fx.by_path.get(clo[1]) if clo[0] == 'closure' else None
                if cb is not None:
                    r = res(cb).ret()
                    if r[0] == 'call' and r[1] == U + 'PaletteMapper::lookup' and len(r[2]) == 5 and len(alts(r)) == 1:
                        chans = []
                        for a in r[2][1:]:
                            a = strip_casts(a)
                            if a[0] == 'index' and a[1][0] == 'field' and a[1][2] == '0' and is_param(a[1][1], 2):
                                chans.append(q.const_val(a[2]))
                        okl = chans == [0, 1, 2, 3] and r[2][0][0] == 'field' and is_param(r[2][0][1], 1)
                        caps = list(clo[2])
                        okl = okl and len(caps) >= 1 and is_param(strip_casts(caps[0][1]), 2)
            ok = okd and okc and okl
        ctx.inst('M3', 'to_indexed_image', ok, 'returns %s; must be (image.dimensions(), image.pixels().map(|c| mapper.lookup(c[0], c[1], c[2], c[3])).collect())' % d,
                 ib.span, key=ib.name + '|M3')


def run(ctx):
    ctx.rules = ['G feature gate', 'E1 extruded dimensions', 'E2 row sequence', 'E3 the three appends per row', 'M1 lookup', 'M2 mapper construction',
                 'M3 indexed image conversion']
    ctx.assumptions += ['image::ImageBuffer is row-major RGBA8 (4 bytes per pixel), pixels() iterates in row-major order (documented)',
                        'Iterator::once/chain/map/collect and HashMap::get/insert behave as documented']
    ctx.explanation = (
        'src/util.rs is analysed in the `utils` configuration (a second fact extraction). The clamp formula of the statement is, for a '
        'row-major buffer, exactly: rows 0, 0..h, h-1 (E2) and per row pixel 0, pixels 0..w, pixel w-1 (E3) into a (w+2) x (h+2) image (E1); '
        'offsets are compared as polynomials over atoms, so spelling does not matter. For the mapper: the transparent / failure / hit '
        'branches of lookup (M1), the construction of the three fields and of the key, which must be the same polynomial in new() and '
        'lookup() (sibling agreement), with indices >= 256 mapped to the failure index (M2), and the conversion wiring with channel order '
        'r,g,b,a = c[0..3] (M3). G: the module has bodies only with the feature. An implementation of extrude_border by another algorithm '
        '(say get_pixel with clamped coordinates) would be reported as an unrecognised form. NOT decided: which duplicate RGB entry wins.')
    fx0, fxu = ctx.fx, ctx.fx_utils
    if fxu is None:
        ctx.fail('crate|C18|utils-facts', 'no fact file for the utils configuration')
        return
    gate(ctx, fx0, fxu)
    ctx.fx = fxu
    try:
        extrude(ctx)
        mapper(ctx)
    finally:
        ctx.fx = fx0
    ctx.extra['bodies_in_utils_configuration'] = len(fxu.bodies)
    ctx.samples = [i for i in ctx.instances][:16]
