"""C16 - immutable, thread-safe value; deterministic results.
Clause 1 (Send + Sync) is proved by rustc (witness crate, level proof); clauses 2-6 are static rules over the facts."""
LEVEL = 'proof'

import os
import re
import shutil
import subprocess
import time
import q
import panics
import effects
import intervals as IV
import callgraph as CG
import layout
import totality as T
import invariants
import render
import C04 as _c04
import C05 as _c05
from q import res, is_param, is_param_path, field_path, strip_casts, show, alts, walk, expand

BAD_ADTS = ('std::cell::UnsafeCell', 'std::cell::Cell', 'std::cell::RefCell', 'std::cell::OnceCell', 'std::sync::Mutex', 'std::sync::RwLock',
            'std::sync::OnceLock', 'std::sync::atomic::', 'std::rc::Rc', 'std::rc::Weak', 'std::cell::LazyCell', 'std::sync::LazyLock',
            'std::sync::Once', 'std::sync::mpsc::', 'std::thread::', 'core::cell::', 'std::sync::Condvar')
AMBIENT = ('std::time::', 'std::env::', 'std::thread::', 'rand::', 'std::process::', 'std::net::', 'std::fs::', 'std::os::',
           'std::collections::hash_map::RandomState', 'std::ptr::', 'std::hash::RandomState')
HASH_ITER = ('values', 'keys', 'iter', 'iter_mut', 'into_iter', 'drain', 'into_values', 'into_keys', 'values_mut')
# every iteration over a hash map in the crate, classified by reading
HASH_ITER_ALLOWED = {
    'asefile::tileset::TilesetsById::iter': 'public accessor documented as "arbitrary order"',
    'asefile::tileset::TilesetsById::validate': 'rebuilds a map element by element: order-insensitive (only *which* Err is reported when several tilesets are invalid)',
}


def witnesses(ctx):
    """run the compile-time witnesses; returns proof coverage dict"""
    wd = '/verif/witness'
    root = getattr(ctx, 'root', '/repo')
    t0 = time.time()
    tmp = None
    env = dict(os.environ, CARGO_NET_OFFLINE='true')
    if root != '/repo':
        # self-test against a scratch copy: private copy of the witness crate and target dir
        import tempfile
        tmp = tempfile.mkdtemp(prefix='asewit.')
        shutil.copytree(wd, os.path.join(tmp, 'w'), ignore=shutil.ignore_patterns('target'))
        wd = os.path.join(tmp, 'w')
        toml = open(os.path.join(wd, 'Cargo.toml')).read()
        open(os.path.join(wd, 'Cargo.toml'), 'w').write(toml.replace('path = "/repo"', 'path = "%s"' % root))
        env['CARGO_TARGET_DIR'] = os.path.join(tmp, 'target')
    try:
        shutil.copy(os.path.join(root, 'Cargo.lock'), os.path.join(wd, 'Cargo.lock'))
    except OSError:
        pass
    cmd = ['cargo', '+nightly', 'test', '--doc', '--offline']
    try:
        r = subprocess.run(cmd, cwd=wd, capture_output=True, text=True, env=env)
    finally:
        if tmp is not None:
            shutil.rmtree(tmp, ignore_errors=True)
    out = r.stdout + r.stderr
    tests = re.findall(r'^test (src/lib\.rs - \S+ \(line \d+\)(?: - compile fail)?) \.\.\. (\w+)', out, re.M)
    ob = len(tests)
    ok = sum(1 for _, v in tests if v == 'ok')
    for name, v in tests:
        ctx.inst('S1', name.replace('src/lib.rs - ', ''), v == 'ok', 'rustc %s witness %s' % ('rejects' if 'compile fail' in name else 'accepts', name), None,
                 key='witness|S1|' + re.sub(r' \(line \d+\)', '', name))
    if r.returncode != 0 or ob == 0:
        ctx.fail('witness|S1|run', 'witness crate did not build / run: %s' % out[-600:])
    ctx.floor('compile-time witnesses', ob, 9)
    return {'obligations': ob, 'discharged': ok, 'checker_cmd': 'cd /verif/witness && cargo +nightly test --doc --offline',
            'trusted_base': ['rustc trait solver and type checker', 'std auto-trait impls (Send/Sync)'], 'witness_wall_s': round(time.time() - t0, 1)}



def static_state_rules(ctx, fx, scope):
    """clauses 2-5 on an arbitrary fact set (also used by the positive controls on the fixture crate)"""
    # ---------- S2 type walk
    for a in fx.j['adts']:
        cl = a['closure']
        bad = [x for x in cl['adts'] if x.startswith(BAD_ADTS)]
        flags = [f for f in cl['flags'] if f.startswith(('raw-ptr:', 'dyn:', 'mut-ref:', 'other:'))]
        if not a.get('exported') and not bad and not flags:
            continue
        ok = not bad and not flags
        ctx.inst('S2', a['path'], ok, 'field-type closure of %s (%d types): %s' % (a['path'].split('asefile::')[-1], cl['types_visited'],
                 'no interior mutability, Rc, raw pointer or dyn' if ok else 'contains %s %s' % (bad, flags)), a['span'], key=a['path'] + '|S2')

    # ---------- S3 statics / unsafe
    for s_ in fx.statics:
        cl = s_['closure']
        bad = [x for x in cl['adts'] if x.startswith(BAD_ADTS)] + [f for f in cl['flags'] if f.startswith(('raw-ptr:', 'dyn:'))]
        ok = not s_['mut'] and 'thread_local' not in s_['attrs'] and not bad
        ctx.inst('S3', s_['path'], ok, 'static %s: %s: mutable=%s thread_local=%s interior=%s' % (s_['path'], s_['ty'], s_['mut'], 'thread_local' in s_['attrs'], bad),
                 s_['span'], key=s_['path'] + '|S3|static')
    user_unsafe = [u for u in fx.unsafe if not u['from_expansion']]
    for u in user_unsafe:
        ctx.inst('S3', u['path'], False, '%s in %s' % (u['what'], u['path']), u['span'], key=ctx.key(u['path'], 'S3', u['what'], ''))
    ctx.inst('S3', 'unsafe', not user_unsafe, 'user-written unsafe blocks/fns/impls in the crate: %d (derive/bitflags expansions: %d, not user code)'
             % (len(user_unsafe), len(fx.unsafe) - len(user_unsafe)), None, key='crate|S3|unsafe')
    tl = [c for b in fx.bodies for c in q.calls(b) if c.callee.startswith(('std::thread::LocalKey', 'std::thread::local'))]
    ctx.inst('S3', 'thread_local', not tl, 'thread-local accesses in the crate: %d' % len(tl), None, key='crate|S3|thread_local')

    # ---------- S4 accessors cannot mutate
    npub = 0
    for b in fx.bodies:
        if b.kind != 'fn' or not b.exported or b.vis != 'pub':
            continue
        npub += 1
        sig = b.sig or {}
        ins = sig.get('inputs', [])
        out = sig.get('output', '')
        # the receiver, and any parameter that points into a type of this crate, must not be &mut
        local_names = [a['path'].split('asefile::')[-1] for a in fx.j['adts']]
        # values the API hands out by value (the caller owns them): mutating them cannot change the sprite
        OWNED = ('file::LayersIter', 'layer::LayerFlags', 'InternalBitFlags', 'tileset::TilesetFlags')
        mut_in = []
        for i, t in enumerate(ins):
            if '&mut ' not in t:
                continue
            if any(o in t for o in OWNED):
                continue
            if (i == 0 and sig.get('has_self')) or any(n and n in t for n in local_names):
                mut_in.append(t)
        self_owned = bool(ins) and any(o in ins[0] for o in OWNED)
        ok = not mut_in and ('&mut ' not in out or self_owned)
        ctx.inst('S4', b.name, ok, '%s(%s) -> %s: %s' % (b.name.split('asefile::')[-1], ', '.join(ins)[:80], out[:50],
                 'shared/by-value receiver, no &mut in or out' if ok else 'takes or returns &mut'), b.span, key=b.name + '|S4', nontrivial=bool(ins))
    ctx.extra['exported_pub_fns'] = npub

    # ---------- S5 ambient inputs and hash iteration
    amb = 0
    hit = 0
    for b in scope:
        for c in q.calls(b):
            if c.callee.startswith(AMBIENT):
                allowed = c.callee == 'std::fs::File::open' and b.name == 'asefile::file::AsepriteFile::read_file'
                amb += 1
                ctx.inst('S5', '%s -> %s' % (b.name.split('asefile::')[-1], c.callee), allowed, '%s calls %s (%s)' % (b.name, c.callee,
                         'the documented file loader' if allowed else 'ambient input: results may differ between calls/runs'), c.span,
                         key=ctx.key(b.name, 'S5', c.callee, ''))
            # hash-map iteration
            nm = c.callee.split('::')[-1]
            recv_ty = c.args[0]['p']['ty'] if c.args and c.args[0]['k'] in ('copy', 'move') else ''
            is_map = 'collections::HashMap<' in recv_ty or 'collections::hash_map::' in recv_ty or 'collections::HashSet<' in recv_ty
            if nm in HASH_ITER and is_map and not (nm in ('iter',) and False):
                if 'BuildHasherDefault<nohash' in recv_ty or 'nohash::' in recv_ty:
                    kind_ = 'IntMap (identity hasher: iteration order is a function of the insertion history)'
                    ok = True
                else:
                    kind_ = HASH_ITER_ALLOWED.get(b.name)
                    ok = kind_ is not None
                    if b.sig and b.sig.get('trait') == 'std::fmt::Debug':
                        ok, kind_ = True, 'Debug formatting'
                hit += 1
                ctx.inst('S5', '%s hash-iteration' % b.name.split('asefile::')[-1], ok, '%s iterates a hash map via %s(): %s' % (b.name, nm,
                         kind_ or 'NOT on the reviewed list: RandomState order may leak into results'), c.span, key=ctx.key(b.name, 'S5', 'hash-iter', nm))
    # the one ambient input the crate does consult is the process-wide log level (log::max_level inside debug!/warn!..).  It may
    # decide whether a record is emitted and nothing else: the code run only when the level is enabled must fall through to the same
    # continuation as the disabled side - no early return / `?` (seed C16-h parsed a chunk inside the macro arguments, so Err or Ok
    # depended on the level), no write to the function's result or to anything reachable from its parameters
    nlog = 0
    E = effects.get(fx)
    for b in scope:
        for sw in q.switches_on(b, lambda d: any(isinstance(x, tuple) and x and x[0] == 'call' and str(x[1]).startswith(('log::max_level', 'log::logger', 'log::__private_api::enabled'))
                                                 for x in walk(d))):
            tm = b.blocks[sw]['term']
            nlog += 1
            probs = []
            # the level-dependent region: everything between the test and the first block all its continuations share (its immediate
            # post-dominator; an early return inside pushes that block out to the function's exit and pulls the error path in)
            pd = b.cfg.pdom.get(sw)
            if pd is None:
                probs.append('the test cannot reach a normal return')
                reg = set()
            else:
                cands = pd - {sw}
                J = max(cands, key=lambda x: len(b.cfg.pdom[x]))
                reg = b.cfg.reachable_from(sw, avoid=(J,)) - {sw, J}
                reg = {x for x in reg if not b.blocks[x]['cleanup']}
            if any(d[0] == 0 for d in q.defs_in(b, reg)):
                probs.append('the function result is assigned (an early return / `?`) inside the level-dependent region')
            ws = [w for w in E.writes(b, blocks=reg) if effects.root_of(w[0])[0] is not None]
            if ws:
                probs.append('state reachable from a parameter is written inside the level-dependent region (%s)' % show(ws[0][0])[:60])
            ctx.inst('S5', '%s log-level' % b.name.split('asefile::')[-1], not probs, '%s branches on the process-wide log level: %s'
                     % (b.name.split('asefile::')[-1], '; '.join(sorted(set(probs))) if probs else 'both sides fall through to the same continuation, nothing but the record is produced'),
                     tm.get('span'), key=ctx.key(b.name, 'S5', 'log-level', ''))
    ctx.extra['log_level_branches'] = nlog
    # results must not depend on how much stack the calling thread happens to have (or on whether the optimiser turned a recursion into
    # a loop): no recursive cycle in the accessor / loader cones other than write_cel's bounded link step (seed C16-n made is_visible
    # recursive again)
    g_ = CG.get(fx)
    for scc in g_.sccs({b_.path for b_ in scope}):
        names_ = [fx.by_path[p_].name for p_ in scc]
        okr = names_ == ['asefile::file::AsepriteFile::write_cel']
        ctx.inst('S5', 'recursion ' + ','.join(n_.split('::')[-1] for n_ in names_), okr, 'recursive cycle %s: %s' % (names_, 'the bounded link step (depth <= 2, C05 U5)' if okr else
                 'depth grows with the input: the outcome depends on the stack of the calling thread'), None, key='S5|recursion|' + ','.join(names_))
    ctx.extra['ambient_calls'] = amb
    ctx.extra['hash_iterations'] = hit



def run(ctx):
    fx = ctx.fx
    ctx.rules = ['S1 Send + Sync (rustc witnesses)', 'S2 no interior mutability (type walk)', 'S3 no hidden state (statics, thread-locals, unsafe)',
                 'S4 accessors cannot mutate', 'S5 no ambient inputs / hash-order dependence', 'S6 no wrap-dependent arithmetic or truncation']
    ctx.assumptions += ['Rust aliasing rules: a value without interior mutability cannot change behind a shared reference',
                        'floating-point determinism across targets is not decided',
                        'collection sizes that are only bounded by the input size (palette entries, tilesets, slices) fit u32']
    ctx.explanation = (
        'Clause 1 is proof-level: a witness crate applies fn req<T: Send + Sync>() to AsepriteFile and every exported value/handle type; '
        'rustc\'s trait solver discharges the obligations, and compile_fail twins (Rc wrapper, &mut return) show the witnesses can fail. '
        'Clauses 2-6 are static rules over the MIR/ADT facts of /repo: the transitive field-type closure of every exported type contains '
        'no UnsafeCell/Cell/RefCell/Once*/Mutex/RwLock/Atomic*/Rc/raw pointer/dyn; the crate has no static mut, no thread_local, no '
        'unsafe block/fn/impl, and its only static is immutable; every exported method other than the two loaders takes self by shared '
        'reference or value and none returns &mut; the loader and accessor cones call nothing from std::time/env/thread/process/fs '
        '(except File::open in read_file)/rand, and every hash-map iteration is on a reviewed list; every arithmetic site that can trap in '
        'debug and wrap in release (overflow asserts of the C04/C05 inventories) is discharged, and every truncating `as` cast outside '
        'blend.rs has its operand proven in range (interval, guard or named invariant). Not decided: blend.rs channel casts (C17), float '
        'determinism across targets, behaviour under actual concurrent calls (follows from clauses 1-4 by Rust\'s aliasing rules).')
    proof = witnesses(ctx)

    load = CG.load_cone(fx)
    _, use = _c05.use_cone(fx)
    scope = [fx.by_path[p] for p in sorted(load | use) if fx.by_path[p].kind != 'promoted']
    static_state_rules(ctx, fx, scope)
    # S5 (cont.): "loading the same bytes gives equal observations" must not depend on how the Read source fragments the bytes:
    # the loader touches its input only through exact-length reads (the same who-may-call rule as C13/C14)
    import iorules
    iorules.exact_reads_only(ctx, [fx.by_path[p] for p in sorted(load) if fx.by_path[p].kind != 'promoted'], 'S5', error_mapping_ok=True)
    ctx.floor('exported types walked', len([a_ for a_ in fx.j['adts'] if a_.get('exported')]), 20)
    ctx.floor('statics examined', len(fx.statics), 1)
    ctx.floor('exported pub fns', ctx.extra.get('exported_pub_fns', 0), 80)
    ctx.floor('hash-map iterations classified', ctx.extra.get('hash_iterations', 0), 2)

    # ---------- S6a overflow sites (union of the C04 and C05 inventories)
    I = invariants.Inv(ctx)

    def need(*names):
        bad = [n for n in names if not I.get(n)[0]]
        return (not bad), ('relies on %s' % ', '.join(names)) + ('' if not bad else ' - NOT ESTABLISHED: %s' % ', '.join(bad))
    handles = dict(layer=True, frame=True, cel=True, tilemap=True)
    bodies = [b for b in scope if not b.name.startswith('asefile::blend::')]
    inv = [s for s in panics.inventory(fx, bodies) if s.kind.startswith(('overflow:', 'neg', 'div0'))]
    ctx.floor('arithmetic trap sites outside blend.rs', len(inv), 40)
    counts = {}
    for s in inv:
        n = counts.get((s.body.name, s.kind, s.what), 0)
        counts[(s.body.name, s.kind, s.what)] = n + 1
        reason = T.auto(s)
        ok = reason is not None
        if not ok:
            f = _c04.find_row(s)
            if f is not None:
                try:
                    ok, reason = f(ctx, s)
                except Exception as e:
                    ok, reason = False, 'obligation crashed: %r' % (e,)
            else:
                ok, reason, _ = _c05.discharge(ctx, I, s, handles, need)
        ctx.inst('S6', '%s %s' % (s.body.name.split('asefile::')[-1], s.kind), ok, '%s at %s cannot trap/wrap: %s' % (s.kind, s.what[:70], reason), s.span,
                 key='S6|' + s.key(n))
    # ---------- S6b truncating casts
    sums = IV.get(fx)
    ncast = 0
    for b in bodies:
        if '::_::' in b.name or 'InternalBitFlags' in b.name:
            continue
        iv = sums.of(b)
        r_ = res(b)
        for bi, blk in enumerate(b.blocks):
            if blk['cleanup'] or bi not in b.cfg.reach:
                continue
            for st in blk['stmts']:
                if not (st['k'] == 'assign' and st['rv']['k'] == 'cast' and st['rv']['ck'].startswith(('IntToInt', 'FloatToInt'))):
                    continue
                fr, to = st['rv']['from'], st['rv']['to']
                if layout.value_preserving(fr, to):
                    continue
                ncast += 1
                rng = iv.operand(st['rv']['op'], (), bi)
                term = r_.operand(st['rv']['op'])
                if IV.fits(rng, to):
                    ok, why = True, 'operand range %s fits %s' % (rng, to)
                else:
                    ok, why = cast_row(ctx, I, b, bi, st, term, fr, to, need)
                ctx.inst('S6', '%s cast %s->%s' % (b.name.split('asefile::')[-1], fr, to), ok, '`%s as %s`: %s' % (show(term)[:60], to, why), st['span'],
                         key=ctx.key(b.name, 'S6', 'cast', '%s->%s' % (fr, to)))
    ctx.floor('truncating casts outside blend.rs', ncast, 30)
    ctx.samples = [i for i in ctx.instances if i['rule'] in ('S1', 'S2', 'S3', 'S5')][:16]
    return proof


def cast_row(ctx, I, b, bb, st, term, fr, to, need):
    """truncating casts whose operand needs more than an interval"""
    fx = ctx.fx
    fn = b.name
    t = strip_casts(term)
    g_ = _c05.assert_guards(b, bb)
    # index < count guards with a count bounded by an invariant
    if t[0] == 'call' and t[1] in ('std::iter::Iterator::count', 'std::iter::ExactSizeIterator::len') and to in ('u32', 'i64', 'u64', 'i32'):
        # the number of items of an iterator over 0..E (below adapters that do not add items) is at most E; E of a type no wider than the
        # target fits
        src = t[2][0]
        while src[0] == 'call' and src[1].startswith('std::iter::Iterator::') and src[1].split('::')[-1] in (
                'filter', 'filter_map', 'map', 'rev', 'skip', 'take', 'step_by', 'skip_while', 'take_while', 'inspect', 'enumerate', 'into_iter') and src[2]:
            src = src[2][0]
        if src[0] == 'agg' and src[1] == 'std::ops::Range':
            rf = dict(src[3])
            end = rf['end']
            ety = end[3] if end[0] == 'cast' else None
            et = strip_casts(end)
            small = (ety in ('u8', 'u16', 'u32') or (et[0] == 'call' and et[1] in (_c05.AF + 'num_layers', _c05.AF + 'num_frames', _c05.AF + 'num_tags')) or
                     isinstance(q.const_val(et), int) and q.const_val(et) < 2**31)
            if isinstance(q.const_val(rf['start']), int) and q.const_val(rf['start']) >= 0 and small and to != 'i32':
                return True, 'a count of items drawn from 0..E with E a 32-bit quantity: at most E'
    if to == 'u16' and fr == 'u32' and t[0] == 'next':
        # a loop variable of 0..num_layers(): below the layer count, which I13 caps at 65536
        rg = q.unwrap_into_iter(t[1])
        if rg[0] == 'agg' and rg[1] == 'std::ops::Range':
            rf = dict(rg[3])
            if q.const_val(rf['start']) == 0 and _c05.is_count(strip_casts(rf['end']), 'layers'):
                ok, why = need('I13')
                return ok, 'loop variable of 0..num_layers() <= 65536: ' + why
    if to == 'u16' and fr == 'u32':
        for op, a, c in g_:
            if op == 'Lt' and a == t and _c05.is_count(c, 'layers'):
                ok, why = need('I13')
                return ok, 'dominated by x < num_layers() <= 65536: ' + why
        if is_param_path(t, 1, ['layer_id']):
            ok, why = need('I13')
            return ok, 'Layer.layer_id < num_layers <= 65536 (handle invariant): ' + why
        if is_param_path(t, 1, ['index']):
            ok, why = need('I12')
            return ok, 'Frame.index < num_frames <= 65535 (handle invariant): ' + why
    if fn == 'asefile::file::AsepriteFile::num_layers' or fn == 'asefile::layer::compute_parents':
        ok, why = need('I13')
        return ok, 'bounded by the layer count <= 65536: ' + why
    if fn == 'asefile::file::AsepriteFile::num_tags':
        return True, 'tags.len() <= 65535: one push per iteration of a 0..WORD loop (C04 row tag_index)'
    if fn.startswith(('asefile::cel::CelsData::validate', 'asefile::cel::CelsData::frame_cels', 'asefile::<cel::CelsData as std::fmt::Debug>')):
        ok12, why12 = need('I12')
        # enumerate / range indices over the frame table (len = num_frames <= 65535) or over a row (len <= layer_index + 1 <= 65536)
        is_idx = (t[0] == 'field' and t[2] == '0' and t[1][0] == 'next') or t[0] == 'next' or (t[0] == 'field' and is_param(t[1]))
        return ok12 and is_idx, 'an index into the frame table (len = num_frames <= 65535) or into a cel row (len <= 65536, rows are sized layer_index + 1): ' + why12
    if fn == 'asefile::file::write_raw_cel_to_image' and fr == 'u32' and to == 'i32':
        dims = [x for x in walk(term) if x[0] == 'call' and x[1] == 'image::ImageBuffer::dimensions']
        wc = fx.body('asefile::file::AsepriteFile::write_cel')
        ok = bool(dims)
        # the image is the canvas created from two u16 fields (C02 K1)
        for fn2 in ('asefile::file::AsepriteFile::frame_image', 'asefile::file::AsepriteFile::layer_image'):
            b2 = fx.body(fn2)
            tt = res(b2).ret()
            ok = ok and tt[0] == 'call' and tt[1] == render.NEW and all(x[0] == 'cast' and x[2] == 'u16' for x in tt[2])
        return ok, 'image dimensions are the u16 canvas size (frame_image/layer_image create RgbaImage::new(width as u32, height as u32))'
    if fn in ('asefile::file::write_tilemap_cel_to_image', 'asefile::file::write_raw_cel_to_image') and fr in ('i64', 'i32') and to == 'u32':
        img = render.param_named(b, ty_contains='image::ImageBuffer')
        okx = render.clip_guarded(b, bb, term, ('width', '0'), img) or render.clip_guarded(b, bb, term, ('height', '1'), img)
        return okx, 'under the clip guard 0 <= coordinate < image dimension (u32)'
    if fn in ('asefile::parse::ParseInfo::add_layer', 'asefile::parse::ParseInfo::add_slice', 'asefile::palette::ColorPalette::num_colors',
              'asefile::tileset::TilesetsById::len'):
        isl = t[0] == 'call' and t[1] in ('std::vec::Vec::len', 'std::collections::HashMap::len') and to in ('u32', 'i64', 'u64')      # not u16 (seed C10-k)
        return isl, 'a collection length bounded only by the input size (one element per >= 6 input bytes): assumed to fit u32 (listed assumption)'
    return False, 'operand range %s not proven to fit %s' % ('?', to)
