"""Discharge rules for panic-capable sites (shared by C04 / C05 / C16)."""
import q
import effects
import common
import layout
from q import res, is_param, is_param_path, field_path, strip_casts, show, alts, walk, expand

IDX = ('std::ops::Index::index', 'std::ops::IndexMut::index_mut')
LEN = ('std::vec::Vec::len', 'core::slice::len')


def auto(site):
    """discharges that need no table: returns reason or None"""
    d = site.detail
    if d.get('safe_by_width'):
        if site.kind.startswith('overflow'):
            return 'P1 width: operands %s, %s: result %s fits %s' % (d.get('a'), d.get('b'), d.get('result'), d.get('ty'))
        if site.kind == 'div0':
            return 'P1 width: divisor range %s excludes 0' % (d.get('divisor'),)
        return 'P1 width'
    if site.kind == 'neg' and d.get('safe_by_width'):
        return 'P1 width: operand range %s excludes %s::MIN (the only value whose negation overflows)' % (d.get('a'), d.get('ty'))
    if site.kind == 'overflow:Div':
        dv = d.get('b')
        if dv is not None and dv[0] >= 0:
            return 'P1 width: divisor range %s excludes -1 (the only overflowing divisor)' % (dv,)
    if site.kind == 'ext:chunks_exact':
        n = q.const_val(d['args'][1]) if len(d.get('args', [])) > 1 else None
        if isinstance(n, int) and n > 0:
            return 'chunk size is the non-zero constant %d' % n
    if site.kind == 'ext:clamp':
        rs = d.get('arg_ranges') or []
        if len(rs) == 3 and rs[1] is not None and rs[2] is not None and rs[1][1] <= rs[2][0]:
            return 'clamp(min, max): min in %s never exceeds max in %s' % (rs[1], rs[2])
    if site.kind == 'assert-other' and ('vec' in site.macros or 'format' in site.macros or 'format_args' in site.macros):
        return 'compiler-inserted pointer check inside a std macro expansion (%s) on a freshly allocated box' % site.macros[0]
    return None


def guard_index(site):
    """G1: Index(v, i) dominated by a comparison i < len(v) (or i >= len(v) leaving)"""
    if site.kind not in ('ext:index', 'ext:index_mut'):
        return None
    b = site.body
    at = site.detail['args']
    base, idx = at[0], strip_casts(at[1])
    for cond, vals, a in q.guards(b, site.bb):
        truth = q.bool_outcome(b, a, vals)
        if cond[0] != 'bin' or truth is None:
            continue
        l, r_ = strip_casts(cond[2]), strip_casts(cond[3])
        op = cond[1]
        if not truth:
            op = {'Lt': 'Ge', 'Ge': 'Lt', 'Gt': 'Le', 'Le': 'Gt'}.get(op)
        if op is None:
            continue

        def is_len_of(t, v):
            return t[0] == 'call' and t[1] in LEN and (t[2][0] == v or strip_casts(t[2][0]) == v) or (t[0] == 'len' and t[1] == v)
        if op == 'Lt' and l == idx and is_len_of(r_, base):
            return 'G1: dominated by %s < len of the same vector' % show(idx)[:60]
        if op == 'Gt' and r_ == idx and is_len_of(l, base):
            return 'G1: dominated by len > %s of the same vector' % show(idx)[:60]
    return None


def enumerate_index_of(t):
    """t is `i` of `for (i, x) in V.iter().enumerate()` -> the collection term V (None otherwise); i < len(V) inside the loop"""
    t = strip_casts(t)
    if t[0] == 'field' and t[2] == '0' and t[1][0] == 'next':
        it = q.unwrap_into_iter(t[1][1])
        if it[0] == 'call' and it[1] == 'std::iter::Iterator::enumerate':
            src = q.unwrap_into_iter(it[2][0])
            while src[0] == 'call' and src[1].split('::')[-1] in ('iter', 'iter_mut', 'into_iter'):
                src = q.unwrap_into_iter(src[2][0])
            return src
    return None


def guard_index_enumerate(site):
    """G2: v[j] where j runs over 0..i (ascending or .rev()) or is i itself, i being the enumerate() index of a loop over the same v"""
    if site.kind != 'bounds':
        return None
    idx = strip_casts(site.detail['index_term'])
    ln = site.detail['len_term']
    bound = None
    if idx[0] == 'next':
        it = q.unwrap_into_iter(idx[1])
        if it[0] == 'call' and it[1] == 'std::iter::Iterator::rev':
            it = q.unwrap_into_iter(it[2][0])
        if it[0] == 'agg' and it[1] == 'std::ops::Range':
            f = dict(it[3])
            lo = q.const_val(f['start'])
            if isinstance(lo, int) and lo >= 0:
                bound = f['end']
    elif enumerate_index_of(idx) is not None:
        bound = idx
    if bound is None:
        return None
    v = enumerate_index_of(bound)
    if v is None:
        return None
    lv = [x for x in walk(ln) if x == v]
    if (ln[0] == 'len' and ln[1] == v) or (ln[0] == 'call' and ln[1] in LEN and ln[2][0] == v) or lv:
        return 'G2: index runs below the enumerate() index of a loop over the same slice, which is < its length'
    return None


def guard_unwrap(site):
    """G3: Option::unwrap(x) dominated by a successful `x.as_ref().ok_or_else(..)?` / is_some test on the same place"""
    if site.kind != 'ext:unwrap':
        return None
    b = site.body
    x = site.detail['args'][0]
    for cond, vals, a in q.guards(b, site.bb):
        if cond[0] == 'discr' and cond[1][0] == 'try' and cond[1][1] == x and vals == [0]:
            return 'G3: dominated by the Continue edge of `?` on ok_or_else of the same Option'
        if cond[0] == 'call' and cond[1] == 'std::option::Option::is_some' and cond[2][0] == x and q.bool_outcome(b, a, vals) is True:
            return 'G3: dominated by is_some() of the same Option'
        if cond[0] == 'discr' and cond[1] == x and vals == [1]:
            return 'G3: inside the Some arm of a match on the same Option'
    return None


# ------------------------------------------------------------------ obligation helpers
def dominating_call(body, bb, callee, propagated=True):
    """calls to `callee` that dominate bb (and whose Result is ?-propagated)"""
    out = []
    for c in q.calls(body, callee):
        if body.cfg.dominates(c.bb, bb) and c.bb != bb:
            if propagated:
                fates = q.result_fates(body, c.dest['l'])
                if not fates or not all(f[0] == 'try' for f in fates):
                    continue
                # and the site lies on the Continue side
                ok = False
                for cond, vals, a in q.guards(body, bb):
                    if cond[0] == 'discr' and cond[1][0] == 'try' and any(x[0] == 'call' and x[3] == (body.name, c.bb) for x in walk(cond)) and vals == [0]:
                        ok = True
                if not ok:
                    continue
            out.append(c)
    return out


def callee_rejects(body, pred):
    """the callee has a branch whose condition satisfies pred(cond) -> (taken_edge_truth) and that edge always returns Err"""
    for sw in q.switches_on(body, lambda d: True):
        cond = q.switch_cond(body, sw)
        want = pred(cond)
        if want is None:
            continue
        tm = body.blocks[sw]['term']
        edge = tm['otherwise'] if want else [s for v, s in tm['targets'] if v == 0][0]
        if q.arm_always_err(body, edge):
            return True
    return False


def field_writes(fx, struct_field):
    """all effect-level mutations (push/resize/clear/assign...) of a field name, crate-wide: [(body, kind, span)]"""
    E = effects.get(fx)
    out = []
    for b in fx.bodies:
        if b.kind == 'promoted':
            continue
        for loc, val, kind, site in E._writes(b, None) if False else []:
            pass
    return out


def mutators_of_field(fx, field):
    """call sites of Vec/HashMap mutators whose receiver is `<something>.field` (whole-vector mutations), plus
    direct assignments to the field"""
    out = []
    for b in fx.bodies:
        if b.kind == 'promoted':
            continue
        for c in q.calls(b):
            if c.callee in effects.MUTATORS:
                a0 = q.arg_terms(c)[0]
                base, ns = field_path(a0)
                if ns[-1:] == [field]:
                    out.append((b, effects.MUTATORS[c.callee][0], c.span, c))
        for bi, blk in enumerate(b.blocks):
            if blk['cleanup'] or bi not in b.cfg.reach:
                continue
            for st in blk['stmts']:
                if st['k'] == 'assign':
                    fl = [e for e in st['p']['p'] if e['k'] == 'field']
                    if fl and fl[-1]['n'] == field and st['p']['p'][-1] is fl[-1]:
                        out.append((b, 'assign', st.get('span'), st))
    return out


def rejecting_guard(body, bb, pred):
    """a switch dominating bb whose condition satisfies pred(cond, truth_on_the_path_to_bb) and whose other edge returns Err on
    every path: the construct `if bad(x) { return Err(..) }` (or the `?` of a helper that does that) seen from below"""
    for cond, vals, a in q.guards(body, bb):
        truth = q.bool_outcome(body, a, vals)
        if truth is None or not pred(cond, truth):
            continue
        tm = body.blocks[a]['term']
        taken = set()
        for v in vals:
            if v == 'otherwise':
                taken.add(tm['otherwise'])
            else:
                taken |= {s for vv, s in tm['targets'] if vv == v}
        others = [s for s in body.cfg.succ[a] if s not in taken]
        if others and all(q.arm_always_err(body, s) for s in others):
            return True
    return False


def rejecting_fact(body, bb, want):
    """a switch dominating bb such that on the edge towards bb a comparison (op, l, r) with want(op, l, r) is known to hold (any
    spelling: mirrored operands, negation, `!(a < b)`) while the other edge returns Err on every path"""
    return rejecting_guard(body, bb, lambda cond, truth: any(want(op, l, r_) for op, l, r_ in q.holds_both(cond, truth)))


def holding_fact(body, bb, want):
    """[switch bb] of the dominating tests on whose edge towards bb a comparison with want(op, l, r) holds"""
    out = []
    for cond, vals, a in q.guards(body, bb):
        if any(want(op, l, r_) for op, l, r_ in q.holds_both(cond, q.bool_outcome(body, a, vals))):
            out.append(a)
    return out


def callee_passes_only_if(body, want):
    """the function has a test one side of which always returns Err and on the other side of which want(op, l, r) holds"""
    for sw in q.switches_on(body, lambda d: True):
        tm = body.blocks[sw]['term']
        if tm['ty'] != 'bool':
            continue
        succs = body.cfg.succ[sw]
        errs = [s_ for s_ in succs if q.arm_always_err(body, s_)]
        if len(errs) != 1 or len(succs) != 2:
            continue
        other = [s_ for s_ in succs if s_ != errs[0]][0]
        cond = q.switch_cond(body, sw)
        if any(want(op, l, r_) for op, l, r_ in q.holds_both(cond, q.bool_outcome(body, sw, q.edge_value(body, sw, other)))):
            return True
    return False


def rejections(body):
    """every boolean test one of whose edges always ends in Err while the other does not: [(switch bb, [(op, l, r) facts that hold on the
    rejected edge, both spellings], condition term)] - the inputs this function turns away by an explicit comparison"""
    out = []
    for sw in q.switches_on(body, lambda d: True):
        tm = body.blocks[sw]['term']
        if tm['ty'] != 'bool':
            continue
        succs = body.cfg.succ[sw]
        errs = [s_ for s_ in succs if q.arm_always_err(body, s_)]
        if len(errs) != 1 or len(succs) != 2:
            continue
        cond = q.switch_cond(body, sw)
        out.append((sw, q.holds_both(cond, q.bool_outcome(body, sw, q.edge_value(body, sw, errs[0]))), cond))
    return out


def option_required(body, is_subject):
    """sites where an Option-valued term satisfying is_subject(term) is required to be Some, the None case ending in Err:
    `x.ok_or(..)?` / `x.ok_or_else(..)?`, `if x.is_none() { return Err }`, `match x { None => return Err, .. }`.
    -> [block index of the requirement]"""
    out = []
    for c in q.calls(body):
        if c.callee in ('std::option::Option::ok_or_else', 'std::option::Option::ok_or'):
            a0 = q.arg_terms(c)[0]
            if is_subject(a0):
                fates = q.result_fates(body, c.dest['l'])
                if fates and all(f[0] == 'try' for f in fates):
                    out.append(c.bb)
    for sw in q.switches_on(body, lambda d: True):
        d = q.switch_cond(body, sw)
        tm = body.blocks[sw]['term']
        none_edges = None
        if d[0] == 'call' and d[1] in ('std::option::Option::is_none', 'std::option::Option::is_some') and is_subject(d[2][0]):
            if d[1].endswith('is_none'):
                none_edges = [tm['otherwise']]
            else:
                none_edges = [s_ for v_, s_ in tm['targets'] if v_ == 0]
        elif d[0] == 'un' and d[1] == 'Not' and d[2][0] == 'call' and d[2][1] in ('std::option::Option::is_none', 'std::option::Option::is_some') and is_subject(d[2][2][0]):
            if d[2][1].endswith('is_some'):
                none_edges = [tm['otherwise']]
            else:
                none_edges = [s_ for v_, s_ in tm['targets'] if v_ == 0]
        elif d[0] == 'discr' and d[1][0] != 'try' and is_subject(d[1]) and tm.get('ty') == 'isize':
            none_edges = [s_ for v_, s_ in tm['targets'] if v_ == 0]
            if not none_edges and any(v_ == 1 for v_, s_ in tm['targets']):
                none_edges = [tm['otherwise']]          # `if let Some(..)`: [1 -> some, otherwise -> none]
        if none_edges and all(q.arm_always_err(body, e) for e in none_edges):
            out.append(sw)
    return out
