"""Who-may-call rules on the input reader, shared by C13 and C14."""
import q
import callgraph as CG
import common
from q import res, is_param, is_param_path, field_path, strip_casts, show, alts, walk

# external callees that may touch a reader, and how
EXACT = {'std::io::Read::read_exact', 'byteorder::ReadBytesExt::read_u8', 'byteorder::ReadBytesExt::read_u16',
         'byteorder::ReadBytesExt::read_i16', 'byteorder::ReadBytesExt::read_u32', 'byteorder::ReadBytesExt::read_i32',
         'byteorder::ReadBytesExt::read_u64', 'byteorder::ReadBytesExt::read_i64', 'byteorder::ReadBytesExt::read_i8'}
TO_END = {'std::io::Read::read_to_end'}
WRAP = {'std::io::Read::take', 'flate2::read::ZlibDecoder::new', 'std::io::Cursor::new', 'std::io::BufReader::new', 'std::io::BufReader::with_capacity',
        'std::io::Read::by_ref'}
FORBIDDEN_PREFIX = ('std::io::Read::read', 'std::io::Read::read_buf', 'std::io::Read::read_vectored', 'std::io::Read::bytes',
                    'std::io::Read::read_to_string', 'std::io::Read::chain', 'std::io::Seek::', 'std::io::BufRead::',
                    'std::io::Error::kind', 'std::io::Error::raw_os_error')


def io_calls(fx, bodies):
    """all calls to std::io / byteorder / flate2 reader functions in the given bodies"""
    out = []
    for b in bodies:
        for c in q.calls(b):
            n = c.callee
            # everything in std::io counts (free functions such as io::copy included: seed C13-g discarded bytes through
            # io::copy, which reports a short count instead of failing), except printing and the construction of error values
            if n.startswith(('std::io::', 'byteorder::', 'flate2::')) and not n.startswith(('std::io::_print', 'std::io::_eprint',
                                                                                              'std::io::Error::new', 'std::io::Error::other',
                                                                                              'std::io::Error::from', 'std::io::stdout',
                                                                                              'std::io::stderr')):
                out.append((b, c))
    return out


def exact_reads_only(ctx, bodies, rule, error_mapping_ok=False):
    """X1 / Y1: the input is touched only through exact-length reads, or read_to_end on a bounded/decoding wrapper"""
    fx = ctx.fx
    n = 0
    for b, c in io_calls(fx, bodies):
        name = c.callee
        n += 1
        at = q.arg_terms(c)
        if name in EXACT:
            ok, why = True, 'exact-length read'
        elif name in TO_END:
            # receiver must be a bounded (take) or decoding (zlib) wrapper, never the raw input
            recv = at[0]
            wrapped = recv[0] == 'call' and recv[1] in ('std::io::Read::take', 'flate2::read::ZlibDecoder::new')
            ok, why = wrapped, 'read_to_end on %s' % (recv[1].split('::')[-2] + '::' + recv[1].split('::')[-1] if wrapped else 'the RAW input')
        elif name in ('std::io::BufReader::new', 'std::io::BufReader::with_capacity'):
            # a buffering wrapper reads ahead; what it has read ahead is lost when it is dropped.  Harmless only if it owns the input
            # for the rest of the load - over a borrowed reader (`BufReader::new(&mut self.input)`, seed C14-g) the bytes after the
            # record go missing whenever the source delivers them early, so the result depends on how the source fragments its data
            op = c.args[-1]
            ty = op['p'].get('ty', '') if op['k'] in ('copy', 'move') else op.get('ty', '')
            ok = not ty.startswith('&')
            why = 'buffering wrapper that owns its input (%s)' % ty[:40] if ok else \
                'buffering wrapper over a BORROWED reader (%s): its read-ahead is discarded when it is dropped' % ty[:40]
        elif name in WRAP:
            ok, why = True, 'wrapper construction'
        elif error_mapping_ok and name in ('std::io::Error::kind', 'std::io::Error::raw_os_error') and \
                'AsepriteParseError' in b.locals[0]['ty'] and 'Result' not in b.locals[0]['ty'] and 'Option' not in b.locals[0]['ty']:
            # an error -> error conversion: whatever it looks at, a failed read stays a failure (which variant is C14's business)
            ok, why = True, 'inspects the I/O error inside an error-to-error conversion (returns %s): cannot turn a failed read into success' % b.locals[0]['ty']
        elif name.startswith(FORBIDDEN_PREFIX) or name == 'std::io::Read::read':
            ok, why = False, 'forbidden: short reads / reader-dependent behaviour'
        else:
            ok, why = False, 'unlisted I/O callee'
        ctx.inst(rule, '%s -> %s' % (b.name.split('asefile::')[-1], name.split('::')[-1]), ok, '%s calls %s: %s'
                 % (b.name.split('asefile::')[-1], name, why), c.span, key=ctx.key(b.name, rule, name, ''))
    return n


def take_bytes_length_check(ctx, rule):
    for fn in ('asefile::reader::AseReader::take_bytes', 'asefile::reader::AseReader::read_vec', 'asefile::reader::AseReader::unzip'):
        _length_check(ctx, rule, fn)


def _length_check(ctx, rule, fn):
    """a bounded read_to_end must be followed by `delivered length != requested -> Err` dominating the Ok return"""
    b = ctx.anchor(fn)
    if b is None:
        return
    n = 0
    for sw in q.switches_on(b, lambda d: d[0] == 'bin' and d[1] in ('Ne', 'Eq')):
        d = q.switch_cond(b, sw)
        sides = [strip_casts(d[2]), strip_casts(d[3])]
        has_len = any(x[0] == 'call' and x[1] == 'std::vec::Vec::len' for x in sides)
        has_lim = any(is_param(x, 2) for x in sides)
        if not (has_len and has_lim):
            continue
        n += 1
        tm = b.blocks[sw]['term']
        bad = tm['otherwise'] if d[1] == 'Ne' else [s for v, s in tm['targets'] if v == 0][0]
        ok = q.arm_always_err(b, bad)
        good = [s_ for s_ in b.cfg.succ[sw] if s_ != bad]
        dom = bool(good) and all(b.cfg.edge_dominates(sw, good[0], bb_) for bb_, _ in common.ok_defs(b))
        short = fn.split('::')[-1]
        ctx.inst(rule, short + '#length', ok and dom, '%s: delivered length != requested -> %s; the test %s every Ok return'
                 % (short, 'Err' if ok else 'NOT an error', 'dominates' if dom else 'does NOT dominate'), tm['span'],
                 key=b.name + '|%s|length' % rule)
    ctx.floor('length comparisons in ' + fn.split('::')[-1], n, 1)
    # a `take(bound)` in front of the read must let the whole requested length through: bound = requested + k, k >= 0.  A bound
    # derived from anything else (say the capped preallocation) turns every larger well-formed payload into an error (seed C07-h)
    import poly as P
    for c in q.calls(b, 'std::io::Read::read_to_end'):
        for x in walk(q.arg_terms(c)[0]):
            if x[0] == 'call' and x[1] == 'std::io::Read::take':
                bound = P.poly(x[2][1])
                want = P.poly(('param', 2, None))
                rest = dict(bound)
                for k_, v_ in want.items():
                    rest[k_] = rest.get(k_, 0) - v_
                rest = {k_: v_ for k_, v_ in rest.items() if v_ != 0}
                okb = all(k_ == () for k_ in rest) and rest.get((), 0) >= 0
                # a constant bound no input can reach (`take(usize::MAX as u64)` through a shared helper) lets everything through as well
                if not okb and set(bound) == {()} and bound[()] >= (1 << 62):
                    okb = True
                ctx.inst(rule, fn.split('::')[-1] + '#take-bound', okb, '%s bounds the reader with take(%s); must be the requested length (+ a non-negative constant)'
                         % (fn.split('::')[-1], q.show(x[2][1])[:80]), c.span, key=b.name + '|%s|take-bound' % rule)


def outer_reader_calls(ctx, rule):
    """X2: functions generic over the outer reader use only exact primitives on it"""
    fx = ctx.fx
    allowed = {'byte', 'word', 'short', 'dword', 'long', 'read_exact', 'read_vec', 'skip_reserved', 'with'}
    outer = ['asefile::parse::read_aseprite', 'asefile::parse::parse_frame', 'asefile::parse::Chunk::read', 'asefile::parse::Chunk::read_all']
    n = 0
    for fn in outer:
        b = ctx.anchor(fn)
        if b is None:
            continue
        for c in q.calls(b):
            nm = q.callee_name(c)
            if nm.startswith(common.READER):
                k = nm[len(common.READER):]
                n += 1
                ctx.inst(rule, '%s -> %s' % (fn.split('::')[-1], k), k in allowed, '%s uses reader.%s() on the outer reader (%s)'
                         % (fn.split('::')[-1], k, 'exact' if k in allowed else 'NOT an exact-length primitive: tolerates a short tail'),
                         c.span, key=ctx.key(fn, rule, k, ''))
    ctx.floor('outer-reader primitive calls', n, 22)
    return n


def count_driven_loops(ctx, rule, bindings=None):
    """X3: frames loop and chunk loop are count-driven with a propagating read inside and no early exit"""
    fx = ctx.fx
    for fn, callee in (('asefile::parse::read_aseprite', 'asefile::parse::parse_frame'), ('asefile::parse::Chunk::read_all', 'asefile::parse::Chunk::read')):
        b = ctx.anchor(fn)
        if b is None:
            continue
        cs = q.calls(b, callee)
        if not cs:
            # second spelling: (0..count).map(|_| callee(..)).collect::<Result<Vec<_>>>() - the closure is the loop body, collect
            # into Result stops at the first Err and hands it on; the collected Result must itself be returned / ?-propagated
            import schedule as _sch
            S = _sch.get(fx)
            done = False
            for c in q.calls(b, 'std::iter::Iterator::collect'):
                ic = S._iter_closure(b, c)
                if ic is None:
                    continue
                rng, cl, cb = ic
                rt = res(cb).ret()
                only_callee = all(a[0] == 'call' and a[1] == callee for a in alts(rt)) and len(q.calls(cb, callee)) == 1
                src = q.unwrap_into_iter(rng)
                ok_r = src[0] == 'agg' and src[1] == 'std::ops::Range' and q.const_val(dict(src[3])['start']) == 0
                end = dict(src[3])['end'] if ok_r else None
                ok_r = ok_r and (common.is_read(end, ('word',)) if fn.endswith('read_aseprite') else is_param(end, 1))
                fates = q.result_fates(b, c.dest['l'])
                ok_prop = q.ty_is_result(c.dest['ty']) and bool(fates) and all(f[0] in ('try', 'returned', 'ret') for f in fates)
                ctx.inst(rule, fn.split('::')[-1] + '#loop', only_callee and ok_r and ok_prop, '%s: collect::<Result<_>>() over (0..count).map(closure): the closure '
                         'returns %s(..) itself %s, range 0..count %s, collected Result propagated %s' % (fn.split('::')[-1], callee.split('::')[-1], only_callee, ok_r, ok_prop),
                         c.span, key=fn + '|%s|loop' % rule)
                done = True
            if done:
                continue
        ctx.floor('%s calls in %s' % (callee.split('::')[-1], fn.split('::')[-1]), len(cs), 1)
        for c in cs:
            L = b.cfg.loop_of(c.bb)
            ok_loop = L is not None
            kinds = q.loop_exit_kinds(b, L) if L else []
            ok_exit = ok_loop and all(k in ('exhausted', 'err', 'unreachable') for _, _, k in kinds)
            fates = q.result_fates(b, c.dest['l'])
            ok_prop = bool(fates) and all(f[0] == 'try' for f in fates)
            every = ok_loop and all(b.cfg.dominates(c.bb, x) for x, _ in L['back_edges'])
            ctx.inst(rule, fn.split('::')[-1] + '#loop', ok_loop and ok_exit and ok_prop and every,
                     '%s(..)? inside the count loop of %s: in loop %s, exits only by exhaustion/Err %s, result ?-propagated %s, runs every '
                     'iteration %s' % (callee.split('::')[-1], fn.split('::')[-1], ok_loop, ok_exit, ok_prop, every), c.span,
                     key=fn + '|%s|loop' % rule)
            if L is not None:
                # the range: 0..count, no step/skip/take adaptor
                it = None
                for bi in sorted(L['body']):
                    cc = b.call_at(bi)
                    if cc is not None and q.callee_name(cc) == 'std::iter::Iterator::next':
                        it = q.arg_terms(cc)[0]
                src = q.unwrap_into_iter(it) if it is not None else None
                ok_r = src is not None and src[0] == 'agg' and src[1] == 'std::ops::Range' and q.const_val(dict(src[3])['start']) == 0
                end = dict(src[3])['end'] if ok_r else None
                if fn.endswith('read_aseprite'):
                    ok_r = ok_r and common.is_read(end, ('word',))
                    what = 'the header frame count read'
                else:
                    ok_r = ok_r and is_param(end, 1)
                    what = 'the count parameter'
                ctx.inst(rule, fn.split('::')[-1] + '#range', ok_r, 'loop range = %s; must be 0..%s with no adaptor' % (show(src)[:100], what), c.span,
                         key=fn + '|%s|range' % rule)


def reader_dependent_state(ctx, bodies, rule):
    """Y2: no Seek/BufRead/ErrorKind in the loader; floor 0 (positive control in the fixture crate)"""
    bad = []
    for b in bodies:
        for c in q.calls(b):
            if c.callee.startswith(('std::io::Seek::', 'std::io::BufRead::', 'std::io::Error::kind', 'std::io::Error::raw_os_error',
                                    'std::io::Error::get_ref', 'std::io::Error::downcast')):
                bad.append((b, c))
        for bi, blk in enumerate(b.blocks):
            t = blk['term']
            if t and t['k'] == 'switch' and 'ErrorKind' in t.get('ty', ''):
                bad.append((b, None))
            for st in blk['stmts']:
                if st['k'] == 'assign' and st['rv']['k'] == 'discr' and 'io::ErrorKind' in st['rv']['p']['ty']:
                    bad.append((b, None))
    for b, c in bad:
        ctx.inst(rule, b.name, False, '%s interprets the reader or the I/O error kind (%s): result may depend on reader behaviour'
                 % (b.name, c.callee if c else 'match on io::ErrorKind'), c.span if c else b.span, key=ctx.key(b.name, rule, 'kind', ''))
    ctx.inst(rule, 'loader', not bad, 'no Seek / BufRead / io::ErrorKind use in %d loader bodies' % len(bodies), None, key='LOAD|%s|none' % rule)


ENTRY_CALLEES = ('std::fs::File::open', 'std::io::BufReader::new', 'std::io::BufReader::with_capacity', 'asefile::parse::read_aseprite',
                 'std::ops::Try::branch', 'std::ops::FromResidual::from_residual', 'std::convert::From::from', 'std::convert::Into::into',
                 'std::convert::AsRef::as_ref', 'std::ops::Deref::deref')


def entry_points(ctx, rule):
    """the two public loaders add nothing to the one parser: read_file = read_aseprite(BufReader::new(File::open(path)?)), read =
    read_aseprite(input), and neither looks at the bytes, the file size or anything else on its own (seeds C07-j: a size check that
    rejects trailing bytes; C13-i: an unguarded peek at the magic that panics on a 5-byte file; C13-j: a prefetch loop that pads a
    truncated input with zeros)"""
    fx = ctx.fx
    rf = ctx.anchor('asefile::file::AsepriteFile::read_file')
    if rf is not None:
        t = res(rf).ok_ret()
        ok = t[0] == 'call' and t[1] == 'asefile::parse::read_aseprite' and t[2][0][0] == 'call' and t[2][0][1] == 'std::io::BufReader::new' \
            and t[2][0][2][0][0] == 'call' and t[2][0][2][0][1] == 'std::fs::File::open' and is_param(t[2][0][2][0][2][0], 1)
        ctx.inst(rule, 'read_file', ok, 'read_file = %s; must be read_aseprite(BufReader::new(File::open(path)?))' % show(t), rf.span, key=rf.name + '|%s' % rule)
        for c in q.calls(rf, 'std::fs::File::open'):
            fates = q.result_fates(rf, c.dest['l'])
            ctx.inst(rule, 'read_file#open', bool(fates) and all(f[0] == 'try' for f in fates), 'File::open error is ?-propagated (-> IoError)',
                     c.span, key=rf.name + '|%s|open' % rule)
    rd = ctx.anchor('asefile::file::AsepriteFile::read')
    if rd is not None:
        t = res(rd).ret()
        ok = t[0] == 'call' and t[1] == 'asefile::parse::read_aseprite' and is_param(t[2][0], 1)
        ctx.inst(rule, 'read', ok, 'read = %s; must be read_aseprite(input)' % show(t), rd.span, key=rd.name + '|%s' % rule)
    for b in (rf, rd):
        if b is None:
            continue
        for c in q.calls(b):
            nm = q.callee_name(c)
            if nm in ENTRY_CALLEES or c.callee in ENTRY_CALLEES or any(nm.endswith(x.split('std::')[-1]) for x in ENTRY_CALLEES if x.startswith('std::convert') or x.startswith('std::ops')):
                continue
            ctx.inst(rule, '%s -> %s' % (b.name.split('::')[-1], nm.split('::')[-1]), False, '%s calls %s; the public loaders must hand their input to '
                     'read_aseprite untouched (no peeking, sizing, prefetching or checks of their own)' % (b.name.split('asefile::')[-1], nm), c.span,
                     key=ctx.key(b.name, rule, 'entry-extra', nm))
