"""C08 - tilemap and tileset images agree with tile lookups: the clauses that are visible in the shape of the code.

Index arithmetic is compared as *polynomials over atoms* (engine/poly.py), so association, commutation, casts and temporaries do
not matter; what matters is which quantity multiplies which and which axis is paired with which dimension.

Q1 Tilemap::tile: results are tiles[(y-oy)*W + (x-ox)] (W = stored width, (ox,oy) = tile_offsets()) under 0 <= x-ox < W and
   0 <= y-oy < H, or the static EMPTY_TILE, whose id is 0.
Q2 AsepriteFile::tilemap: logical size = (ceil(canvas width / tile width), ceil(canvas height / tile height)) of the layer's own
   tileset; Tilemap::width/height return it.
Q3 Tilemap::tile_offsets = (cel x / tile width, cel y / tile height); pixel_offsets = the cel's top_left = (cel.x, cel.y).
Q4 Tileset::tile_image(i) = from_raw(tw, th, all pixels .skip(i*tw*th).take(tw*th)); Tileset::image = from_raw(tw, th*count, all
   pixels): the full image is the tile images stacked vertically in index order, each tile image has exactly the tile size.
Q5 the tilemap rasteriser: for (tx, ty) in 0..W x 0..H, (px, py) in 0..tw x 0..th it blends tile_slice(pixels, size,
   tile(tx, ty).id)[py*tw + px] onto (cel.x + tx*tw + px, cel.y + ty*th + py) with opacity layer x cel; TilemapData::tile(x, y)
   = tiles[y*W + x]; tile_slice = pixels[ppt*id .. ppt*id + ppt]; Tilemap::image = its cel's image.
NOT decided: that the three index computations agree as numbers when the cel offset is not a multiple of the tile size, the
sign behaviour of `/` on negative offsets, and every pixel value.
"""
import q
import poly as P
import render
from q import res, is_param, is_param_path, strip_casts, show, alts, walk, expand

TM = 'asefile::tilemap::'
TS = 'asefile::tileset::'
AF = 'asefile::file::AsepriteFile::'
F = 'asefile::file::'


def call_is(t, name):
    t = strip_casts(t)
    return t[0] == 'call' and t[1] == name


def mono(p, n):
    """monomials of p with n atoms -> list of (atoms, coef)"""
    return [(k, v) for k, v in p.items() if len(k) == n]


def is_dim(a, axis):
    """a is the tile width (axis 0) / height (axis 1) in one of its spellings"""
    nm = 'width' if axis == 0 else 'height'
    if a[0] == 'call' and a[1] == TS + 'TileSize::' + nm:
        return True
    if a[0] == 'field' and a[2] == str(axis) and a[1][0] == 'call' and a[1][1].startswith('std::convert::From::from') and 'TileSize' in a[1][1]:
        return True
    # the accessor seen through (inlined): <tileset>.tile_size.width
    if a[0] == 'field' and a[2] == nm and a[1][0] == 'field' and a[1][2] == 'tile_size':
        return True
    return False


def stored_dim(t, nm):
    """t is the stored tilemap's width / height: the accessor TilemapData::width(..), or (a crate-private helper of TilemapData inlined)
    the field itself of the handle's own tilemap data"""
    t = strip_casts(t)
    if t[0] == 'call' and t[1] == TM + 'TilemapData::' + nm:
        return True
    return t[0] == 'field' and t[2] == nm and t[1][0] == 'call' and t[1][1] == TM + 'Tilemap::tilemap' and is_param(t[1][2][0], 1)


def loop_end(a):
    r = P.loop_var_end(a)
    return None if r is None else r


def tileset_lookup_by_id(ctx, rule):
    fx = ctx.fx
    # .. and `get(id)` is the lookup by the tileset's own id, whatever order the tileset chunks came in (seed C08-o kept the tilesets in a
    # Vec in file order and looked them up by position: sparse or unordered ids got the wrong tileset)
    gb = ctx.anchor(TS + 'TilesetsById::get')
    ab_ = fx.body(TS + 'TilesetsById::add')
    if gb is not None:
        gt = res(gb).ret()
        key_ = gt[2][1] if gt[0] == 'call' and gt[1] == 'std::collections::HashMap::get' and len(gt[2]) == 2 else None
        okg_ = key_ is not None and is_param_path(gt[2][0], 1, ['0']) and [x[:2] for x in walk(key_) if x[0] == 'param'] == [('param', 2)] and \
            (is_param(strip_casts(key_), 2) or (key_[0] == 'call' and key_[1].endswith('TilesetId::from_raw')) or key_[0] == 'agg')
        oki_ = False
        if ab_ is not None:
            for c_ in q.calls(ab_, 'std::collections::HashMap::insert'):
                a_ = q.arg_terms(c_)
                k_ = strip_casts(a_[1])
                if k_[0] == 'call' and k_[1].endswith('TilesetId::from_raw') and len(k_[2]) == 1:
                    k_ = strip_casts(k_[2][0])
                # the same key construction on both sides (raw id, or TilesetId::from_raw of it)
                oki_ = is_param_path(k_, 2, ['id']) and is_param(a_[2], 2)
        ctx.inst(rule, 'TilesetsById::get', okg_ and oki_, 'get(id) = %s, add(t) stores under %s; must be a map lookup of the id among tilesets stored under their own id'
                 % (show(gt)[:80], 't.id' if oki_ else 'SOMETHING ELSE'), gb.span, key=gb.name + '|%s|by-id' % rule)


def lookup(ctx):
    fx = ctx.fx
    b = ctx.anchor(TM + 'Tilemap::tile')
    if b is None:
        return
    ret = res(b).ret()
    al = list(alts(ret))
    statics = [a for a in al if a[0] == 'static']
    idxs = [a for a in al if a[0] == 'call' and a[1].endswith('ops::Index>::index') or (a[0] == 'call' and a[1] == 'std::ops::Index::index')]
    other = [a for a in al if a not in statics and a not in idxs]
    ok = len(statics) == 1 and statics[0][1].endswith('tile::EMPTY_TILE') and len(idxs) >= 1 and not other
    ctx.inst('Q1', 'Tilemap::tile#results', ok, 'tile() returns %s; must be an element of the stored tiles or the static EMPTY_TILE'
             % [show(a)[:50] for a in al], b.span, key=b.name + '|Q1|results')
    eb = fx.body('asefile::tile::EMPTY_TILE')
    okz = False
    if eb is not None:
        t = res(eb).ret()
        if t[0] == 'agg':
            idt = dict(t[3]).get('id')
            okz = idt is not None and [q.const_val(x) for x in walk(idt) if x[0] == 'const'] == [0]
    ctx.inst('Q1', 'EMPTY_TILE', okz, 'EMPTY_TILE.id = %s; must be tile 0' % (show(dict(res(eb).ret()[3]).get('id')) if eb is not None else '?'),
             eb.span if eb is not None else None, key='asefile::tile::EMPTY_TILE|Q1|id')
    import C05
    for n, a in enumerate(idxs):
        base, idx = a[2][0], a[2][1]
        p = P.poly(idx)
        m1, m2 = mono(p, 1), mono(p, 2)
        shape = False
        why = P.show(p)
        offs = P.canon(('call', TM + 'Tilemap::tile_offsets', (('param', 1, 'self'),), None))

        def off(i):
            return P.canon(('field', offs, str(i)))
        want = None
        ws = [x for k, v in m2 for x in k if stored_dim(x, 'width')]
        if ws:
            W = ws[0]
            want = P.make((1, ('param', 3, 'y'), W), (-1, off(1), W), (1, ('param', 2, 'x')), (-1, off(0)))
            shape = p == want
        okb = any(x[0] == 'field' and x[2] == 'tiles' for x in walk(base))
        ctx.inst('Q1', 'Tilemap::tile#index', shape and okb, 'index = %s; must be (y - offsets.1) * stored width + (x - offsets.0) into .tiles' % why[:200],
                 b.span, key=b.name + '|Q1|index@%d' % n)
        # guards of the indexing block
        site_bb = a[3][1] if a[3] else None
        g = C05.assert_guards(b, site_bb) if site_bb is not None else []

        xs = P.make((1, ('param', 2, 'x')), (-1, off(0)))
        ys = P.make((1, ('param', 3, 'y')), (-1, off(1)))

        def has(op, pv, rhs):
            for o, l, r in g:
                if o == op and P.poly(l) == pv and rhs(P.canon(r)):
                    return True
            return False
        okg = has('Lt', xs, lambda r: stored_dim(r, 'width')) and \
            has('Lt', ys, lambda r: stored_dim(r, 'height')) and \
            has('Ge', xs, lambda r: r[0] == 'const' and r[1] == 0) and has('Ge', ys, lambda r: r[0] == 'const' and r[1] == 0)
        ctx.inst('Q1', 'Tilemap::tile#range', okg, 'the stored tile is read only under 0 <= x-ox < stored width and 0 <= y-oy < stored height (%s); '
                 'everything else yields EMPTY_TILE' % ('yes' if okg else [(o, show(l)[:40], show(r)[:40]) for o, l, r in g]), b.span,
                 key=b.name + '|Q1|range@%d' % n)
    ctx.floor('stored-tile results of Tilemap::tile', len(idxs), 1)


def ceil_div(t, canvas_fn, axis):
    """t = ceil(canvas dim / tile dim) in one of the accepted spellings -> (ok, description)"""
    t = strip_casts(t)
    if t[0] == 'bin' and t[1] == 'Div':
        num, den = P.poly(t[2]), P.poly(t[3])
        dk = list(den.items())
        if len(dk) == 1 and dk[0][1] == 1 and len(dk[0][0]) == 1 and is_dim(dk[0][0][0], axis):
            D = dk[0][0][0]
            cands = [k[0] for k, v in mono(num, 1) if v == 1 and k[0] != D]
            for Pc in cands:
                canvas = (Pc[0] == 'call' and Pc[1] == AF + canvas_fn) or is_param_path(Pc, 1, [canvas_fn])
                if canvas and num == P.make((1, Pc), (1, D), (-1,)):
                    return True, '(%s + tile %s - 1) / tile %s' % (canvas_fn, canvas_fn, canvas_fn)
        return False, 'Div(%s ; %s)' % (P.show(num)[:120], P.show(den)[:60])
    if t[0] == 'call' and t[1].endswith('::div_ceil') and len(t[2]) == 2:
        a, b_ = P.canon(t[2][0]), P.canon(t[2][1])
        canvas = (a[0] == 'call' and a[1] == AF + canvas_fn) or is_param_path(a, 1, [canvas_fn])
        return canvas and is_dim(b_, axis), 'div_ceil(%s, %s)' % (show(a)[:40], show(b_)[:40])
    return False, show(t)[:120]


def logical_size(ctx):
    fx = ctx.fx
    b = ctx.anchor(AF + 'tilemap')
    if b is None:
        return
    aggs = list(q.stmt_aggs(b, TM + 'Tilemap'))
    ctx.floor('Tilemap constructions', len(aggs), 1)
    for bb, st, t in aggs:
        f = dict(t[3])
        ls = expand(f.get('logical_size', ('unknown',)), fx, 3)      # see through crate-local helpers such as a ceil_div function
        ok = ls[0] == 'tuple' and len(ls[1]) == 2
        d = [show(ls)[:100]]
        if ok:
            r0 = ceil_div(ls[1][0], 'width', 0)
            r1 = ceil_div(ls[1][1], 'height', 1)
            ok = r0[0] and r1[0]
            d = [r0[1], r1[1]]
            # both quotients use the tileset that is stored in the handle
            raw = f.get('logical_size')
            tsets = {x for e in (raw[1] if raw[0] == 'tuple' else ()) for x in walk(P.canon(e))
                     if isinstance(x, tuple) and x and x[0] == 'call' and x[1] == TS + 'TilesetsById::get'}
            same = tsets == {P.canon(f.get('tileset'))}
            if not same:
                # after inlining helpers the lookup itself may be inlined: compare the inlined forms
                tse = P.canon(expand(f.get('tileset'), fx, 3))
                same = all(any(x == tse for x in walk(P.canon(e))) for e in ls[1])
            ok = ok and same
        ctx.inst('Q2', 'AsepriteFile::tilemap#size', ok, 'logical size = (%s); must be (ceil(width / tile width), ceil(height / tile height)) of the handle\'s tileset'
                 % ', '.join(d), st.get('span'), key=b.name + '|Q2|size')
        tileset_lookup_by_id(ctx, 'Q2')
        tsv = f.get('tileset', ('unknown',))
        okt = tsv[0] == 'call' and tsv[1] == TS + 'TilesetsById::get' and any(
            x[0] == 'call' and x[1] == 'asefile::layer::Layer::layer_type' and x[2][0][0] == 'call' and x[2][0][1] == AF + 'layer' and
            is_param(x[2][0][2][1], 2) for x in walk(tsv[2][1]))
        ctx.inst('Q2', 'AsepriteFile::tilemap#tileset', okt, 'tileset = %s; must be tilesets.get(tileset id of layer(layer_id))' % show(tsv)[:120], st.get('span'),
                 key=b.name + '|Q2|tileset')
    for nm, i in (('width', '0'), ('height', '1')):
        gb = ctx.anchor(TM + 'Tilemap::' + nm)
        if gb is not None:
            t = strip_casts(res(gb).ret())
            ok = is_param_path(t, 1, ['logical_size', i])
            ctx.inst('Q2', 'Tilemap::' + nm, ok, 'Tilemap::%s() = %s; must be logical_size.%s' % (nm, show(t), i), gb.span, key=gb.name + '|Q2')


def offsets(ctx):
    fx = ctx.fx
    b = ctx.anchor(TM + 'Tilemap::tile_offsets')
    if b is not None:
        t = res(b).ret()
        ok = t[0] == 'tuple' and len(t[1]) == 2 and len(alts(t)) == 1
        d = show(t)[:160]
        if ok:
            for i, e in enumerate(t[1]):
                e = strip_casts(e)
                oke = e[0] == 'bin' and e[1] == 'Div'
                if oke:
                    n, dd = P.canon(e[2]), P.canon(e[3])
                    oke = n[0] == 'field' and n[2] == str(i) and n[1][0] == 'call' and n[1][1] == TM + 'Tilemap::pixel_offsets' and is_param(n[1][2][0], 1) and \
                        is_dim(dd, i) and any(x[0] == 'call' and x[1] == TM + 'Tilemap::tileset' for x in walk(dd))
                ok = ok and oke
        ctx.inst('Q3', 'Tilemap::tile_offsets', ok, 'tile_offsets() = %s; must be (pixel_offsets.0 / tile width, pixel_offsets.1 / tile height) of its own tileset' % d,
                 b.span, key=b.name + '|Q3')
    pb = ctx.anchor(TM + 'Tilemap::pixel_offsets')
    if pb is not None:
        t = res(pb).ret()
        ok = t[0] == 'call' and t[1] == 'asefile::cel::Cel::top_left' and is_param_path(t[2][0], 1, ['cel']) and len(alts(t)) == 1
        ctx.inst('Q3', 'Tilemap::pixel_offsets', ok, 'pixel_offsets() = %s; must be self.cel.top_left()' % show(t)[:80], pb.span, key=pb.name + '|Q3')
    tb = ctx.anchor('asefile::cel::Cel::top_left')
    if tb is not None:
        cl = [x for x in fx.bodies if x.name.startswith('asefile::cel::Cel::top_left::') and x.kind == 'closure']
        okc = False
        seen = []
        for x in cl:
            t = res(x).ret()
            seen.append(show(t)[:60])
            if t[0] == 'tuple' and len(t[1]) == 2:
                a, b_ = strip_casts(t[1][0]), strip_casts(t[1][1])
                if a[0] == 'field' and a[2] == 'x' and b_[0] == 'field' and b_[2] == 'y' and a[1] == b_[1] and a[1][0] == 'field' and a[1][2] == 'data':
                    okc = True
        if not cl:
            t = expand(res(tb).ret(), fx, 2)
            seen.append(show(t)[:80])
            okc = any(x[0] == 'tuple' and len(x[1]) == 2 and strip_casts(x[1][0])[0] == 'field' and strip_casts(x[1][0])[2] == 'x' and
                      strip_casts(x[1][1])[0] == 'field' and strip_casts(x[1][1])[2] == 'y' for x in walk(t))
        ctx.inst('Q3', 'Cel::top_left', okc, 'top_left() = %s; must be (data.x, data.y) of the cel' % seen, tb.span, key=tb.name + '|Q3')


def tileset_images(ctx):
    fx = ctx.fx
    ti = ctx.anchor(TS + 'Tileset::tile_image')
    if ti is not None:
        cs = q.calls(ti, 'image::ImageBuffer::from_raw')
        ctx.floor('from_raw in tile_image', len(cs), 1)
        for c in cs:
            at = q.arg_terms(c)
            w, h, raw = P.canon(at[0]), P.canon(at[1]), at[2]
            okd = is_dim(w, 0) and is_dim(h, 1) and is_param_path(w[2][0], 1, ['tile_size']) and is_param_path(h[2][0], 1, ['tile_size'])
            sk = [x for x in walk(raw) if x[0] == 'call' and x[1] == 'std::iter::Iterator::skip']
            tk = [x for x in walk(raw) if x[0] == 'call' and x[1] == 'std::iter::Iterator::take']
            rg = [x for x in walk(raw) if x[0] == 'agg' and x[1] == 'std::ops::Range']
            oks = False
            d = 'no skip/take or range'
            if len(sk) == 1 and len(tk) == 1:
                ps, pt = P.poly(sk[0][2][1]), P.poly(tk[0][2][1])
                oks = pt == P.make((1, w, h)) and ps == P.make((1, ('param', 2, 'tile_index'), w, h))
                d = 'skip(%s).take(%s)' % (P.show(ps)[:80], P.show(pt)[:60])
            elif len(rg) == 1:
                f = dict(rg[0][3])
                ps, pe = P.poly(f['start']), P.poly(f['end'])
                oks = ps == P.make((1, ('param', 2, 'tile_index'), w, h)) and pe == P.make((1, ('param', 2, 'tile_index'), w, h), (1, w, h))
                d = '[%s .. %s]' % (P.show(ps)[:80], P.show(pe)[:80])
            whole = any(x[0] == 'call' and x[1].endswith('clone_as_image_rgba') and is_param_path(x[2][0], 1, ['pixels']) for x in walk(raw))
            ctx.inst('Q4', 'Tileset::tile_image', okd and oks and whole, 'tile_image(i) = from_raw(%s, %s, pixels %s); must be from_raw(tw, th, pixels[i*tw*th ..][.. tw*th])'
                     % (show(at[0])[:30], show(at[1])[:30], d), c.span, key=ti.name + '|Q4')
    im = ctx.anchor(TS + 'Tileset::image')
    if im is not None:
        cs = q.calls(im, 'image::ImageBuffer::from_raw')
        ctx.floor('from_raw in Tileset::image', len(cs), 1)
        for c in cs:
            at = q.arg_terms(c)
            w, raw = P.canon(at[0]), at[2]
            ph = P.poly(at[1])
            hd = [k for k, v in ph.items()]
            okh = len(hd) == 1 and ph[hd[0]] == 1 and len(hd[0]) == 2 and any(is_dim(a, 1) for a in hd[0]) and \
                any(is_param_path(a, 1, ['tile_count']) or (a[0] == 'call' and a[1] == TS + 'Tileset::tile_count') for a in hd[0])
            cut = [x for x in walk(raw) if x[0] == 'call' and x[1].split('::')[-1] in ('skip', 'take', 'rev', 'step_by', 'filter', 'chunks', 'rchunks')] + \
                [x for x in walk(raw) if x[0] == 'agg' and x[1].startswith('std::ops::Range')]
            whole = any(x[0] == 'call' and x[1].endswith('clone_as_image_rgba') and is_param_path(x[2][0], 1, ['pixels']) for x in walk(raw))
            ctx.inst('Q4', 'Tileset::image', is_dim(w, 0) and okh and whole and not cut, 'image() = from_raw(%s, %s, %s); must be from_raw(tw, th*tile_count, all pixels in stored order)'
                     % (show(at[0])[:30], P.show(ph)[:60], 'all pixels' if whole and not cut else 'a REORDERED or PARTIAL pixel sequence'), c.span, key=im.name + '|Q4')


def rasteriser(ctx):
    fx = ctx.fx
    b = ctx.anchor(F + 'write_tilemap_cel_to_image')
    if b is None:
        return
    calls = render.blend_calls(b)
    ctx.floor('blend calls in the tilemap rasteriser', len(calls), 1)
    cd = render.param_named(b, ty_contains='cel::CelCommon')
    td = render.param_named(b, ty_contains='tilemap::TilemapData')
    px = render.param_named(b, ty_contains='pixel::Pixels') or render.param_named(b, name='pixels')
    for c, fterm, (dst, src, op) in calls:
        okd = dst[0] == 'call' and dst[1] == 'image::ImageBuffer::get_pixel'
        vars_ = {}
        if okd:
            for axis, fld, coord in ((0, 'x', dst[2][1]), (1, 'y', dst[2][2])):
                p = P.poly(coord)
                m1, m2 = mono(p, 1), mono(p, 2)
                ok = len(p) == 3 and len(m1) == 2 and len(m2) == 1 and all(v == 1 for v in p.values())
                d = P.show(p)[:220]
                if ok:
                    cel = [k[0] for k, v in m1 if is_param_path(k[0], cd, [fld])]
                    pvar = [k[0] for k, v in m1 if P.loop_var_end(k[0]) is not None]
                    dims = [a for a in m2[0][0] if is_dim(a, axis)]
                    tvar = [a for a in m2[0][0] if P.loop_var_end(a) is not None]
                    ok = len(cel) == 1 and len(pvar) == 1 and len(dims) == 1 and len(tvar) == 1
                    if ok:
                        ps, pe = P.loop_var_end(pvar[0])
                        ts_, te = P.loop_var_end(tvar[0])
                        nm = 'width' if axis == 0 else 'height'
                        ok = P.within_zero_to(pvar[0], lambda t_: t_ == dims[0]) and q.const_val(ts_) == 0 and \
                            P.canon(te)[0] == 'call' and P.canon(te)[1] == TM + 'TilemapData::' + nm and is_param(P.canon(te)[2][0], td)
                        vars_[axis] = (tvar[0], pvar[0], dims[0])
                ctx.inst('Q5', 'rasteriser#target-' + fld, ok, 'target %s = %s; must be cel.%s + t%s * tile %s + p%s with t%s in 0..stored %s, p%s in 0..tile %s'
                         % (fld, d, fld, fld, 'width' if axis == 0 else 'height', fld, fld, 'width' if axis == 0 else 'height', fld,
                            'width' if axis == 0 else 'height'), c.span, key=b.name + '|Q5|target-' + fld)
        # source
        s = src
        oks = False
        d = show(s)[:160]
        if s[0] == 'index' or (s[0] == 'call' and s[1] == 'std::ops::Index::index'):
            base, idx = (s[1], s[2]) if s[0] == 'index' else (s[2][0], s[2][1])
            if base[0] == 'call' and base[1] == F + 'tile_slice' and len(vars_) == 2:
                (tx, pxv, tw), (ty, pyv, th) = vars_[0], vars_[1]
                a = base[2]
                tile = a[2]
                okt = tile[0] == 'field' and tile[2] == 'id' and tile[1][0] == 'call' and tile[1][1] == TM + 'TilemapData::tile' and \
                    is_param(tile[1][2][0], td) and P.canon(tile[1][2][1]) == tx and P.canon(tile[1][2][2]) == ty
                okp = is_param(a[0], px) if px else True
                oki = P.poly(idx) == P.make((1, pyv, tw), (1, pxv))
                oks = okt and okp and oki
                d = 'tile_slice(.., tile(%s).id)[%s]' % ('tx, ty' if okt else show(tile)[:60], P.show(P.poly(idx))[:120])
        ctx.inst('Q5', 'rasteriser#source', oks, 'source = %s; must be tile_slice(pixels, tile size, tile(tx, ty).id)[py * tile width + px] for the same tx, ty, px, py'
                 % d, c.span, key=b.name + '|Q5|source')
    render.opacity_and_mode(ctx, rule_o='Q5', rule_m=None)
    render.no_extra_skips(ctx, rule='Q5')
    # the tilemap image is the image of its cel drawn by the shared routine, whenever the cel exists - also on a hidden layer (seed
    # C08-h moved the visibility test into a helper shared with layer_image: Tilemap::image of a hidden tilemap came out blank)
    render.image_delegation(ctx, rule='Q5', only=('asefile::tilemap::Tilemap::image', 'asefile::cel::Cel::image'))
    render.layer_image_unconditional(ctx, rule='Q5')
    # helpers
    tb = ctx.anchor(TM + 'TilemapData::tile')
    if tb is not None:
        idxs = [x for x in alts(res(tb).ret()) if x[0] == 'call' and (x[1] == 'std::ops::Index::index' or x[1].endswith('ops::Index>::index'))]
        # Option-wrapped: look at every Index call instead
        n = 0
        for cc in q.calls(tb):
            if q.callee_name(cc) in ('std::ops::Index::index',) or q.callee_name(cc).endswith('ops::Index>::index'):
                at = q.arg_terms(cc)
                if not any(x[0] == 'field' and x[2] == 'tiles' for x in walk(at[0])):
                    continue
                n += 1
                p = P.poly(at[1])
                ok = p == P.make((1, ('param', 3, 'y'), ('field', ('param', 1, 'self'), 'width')), (1, ('param', 2, 'x')))
                ctx.inst('Q5', 'TilemapData::tile', ok, 'TilemapData::tile(x, y) reads tiles[%s]; must be tiles[y * width + x]' % P.show(p)[:120], cc.span,
                         key=tb.name + '|Q5|index')
        ctx.floor('tile reads in TilemapData::tile', n, 1)
    sb = ctx.anchor(F + 'tile_slice')
    if sb is not None:
        t = res(sb).ret()
        rg = [x for x in walk(t) if x[0] == 'agg' and x[1] == 'std::ops::Range']
        ok = len(rg) == 1 and len(alts(t)) == 1
        d = show(t)[:120]
        if ok:
            f = dict(rg[0][3])
            ps, pe = P.poly(f['start']), P.poly(f['end'])
            ppt = [a for k in ps for a in k if a[0] == 'call' and a[1].endswith('pixels_per_tile')]
            ok = bool(ppt) and ps == P.make((1, ppt[0], ('field', ('param', 3, 'tile_id'), '0'))) and \
                pe == P.make((1, ppt[0], ('field', ('param', 3, 'tile_id'), '0')), (1, ppt[0]))
            d = '[%s .. %s]' % (P.show(ps)[:80], P.show(pe)[:100])
        ctx.inst('Q5', 'tile_slice', ok, 'tile_slice = pixels%s; must be pixels[ppt*id .. ppt*id + ppt]' % d, sb.span, key=sb.name + '|Q5')
        pp = ctx.anchor(TS + 'TileSize::pixels_per_tile')
        if pp is not None:
            p = P.poly(res(pp).ret())
            ok = p == P.make((1, ('field', ('param', 1, 'self'), 'width'), ('field', ('param', 1, 'self'), 'height')))
            ctx.inst('Q5', 'pixels_per_tile', ok, 'pixels_per_tile = %s; must be width * height' % P.show(p)[:80], pp.span, key=pp.name + '|Q5')
    ib = ctx.anchor(TM + 'Tilemap::image')
    if ib is not None:
        t = res(ib).ret()
        ok = t[0] == 'call' and t[1] == 'asefile::cel::Cel::image' and is_param_path(t[2][0], 1, ['cel']) and len(alts(t)) == 1
        ctx.inst('Q5', 'Tilemap::image', ok, 'Tilemap::image() = %s; must be self.cel.image()' % show(t)[:80], ib.span, key=ib.name + '|Q5')


GEOMETRY = (TM + 'Tilemap::tile', TM + 'Tilemap::tile_offsets', TM + 'TilemapData::tile', AF + 'tilemap', F + 'tile_slice',
            F + 'write_tilemap_cel_to_image', TS + 'TileSize::pixels_per_tile', TS + 'Tileset::tile_image', TS + 'Tileset::image')


def no_wrap(ctx, rule='Q6', functions=None):
    """Q6: the index polynomials above ignore casts and widths, so the same functions' checked arithmetic must not be able to wrap
    (a wrapped index makes lookup, slice and image disagree): every overflow / division site is width-safe or discharged by the
    rows C04/C05/C16 use"""
    import panics
    import totality as T
    import invariants
    import C04 as _c04
    import C05 as _c05
    fx = ctx.fx
    I = invariants.Inv(ctx)

    def need(*names):
        bad = [n for n in names if not I.get(n)[0]]
        return (not bad), ('relies on %s' % ', '.join(names)) + ('' if not bad else ' - NOT ESTABLISHED: %s' % ', '.join(bad))
    handles = dict(layer=True, frame=True, cel=True, tilemap=True)
    bodies = [fx.body(n) for n in (functions or GEOMETRY) if fx.body(n) is not None]
    inv = [s_ for s_ in panics.inventory(fx, bodies) if s_.kind.startswith(('overflow:', 'neg', 'div0'))]
    ctx.floor('arithmetic sites examined for wrapping (%s)' % rule, len(inv), 10)
    counts = {}
    for s_ in inv:
        n = counts.get((s_.body.name, s_.kind, s_.what), 0)
        counts[(s_.body.name, s_.kind, s_.what)] = n + 1
        reason = T.auto(s_)
        ok = reason is not None
        if not ok:
            f = _c04.find_row(s_)
            if f is not None:
                try:
                    ok, reason = f(ctx, s_)
                except Exception as e:
                    ok, reason = False, 'obligation crashed: %r' % (e,)
            else:
                ok, reason, _ = _c05.discharge(ctx, I, s_, handles, need)
        ctx.inst(rule, '%s %s' % (s_.body.name.split('asefile::')[-1], s_.kind), ok, '%s at %s cannot wrap: %s' % (s_.kind, s_.what[:70], reason), s_.span,
                 key=rule + '|' + s_.key(n))


def run(ctx):
    ctx.rules = ['Q1 tile lookup: stored tile in range, EMPTY_TILE (id 0) otherwise', 'Q2 logical size = ceil(canvas / tile size)',
                 'Q3 tile offsets = cel offset / tile size', 'Q4 tileset image = tile images stacked in index order',
                 'Q5 tilemap rasteriser wiring (tile, slice, strides, target position, opacity)',
                 'Q6 the arithmetic of these functions cannot wrap']
    ctx.assumptions += ['image::ImageBuffer::from_raw(w, h, buf) is row-major with row length w (documented)',
                        'Iterator::skip/take/collect and slice indexing behave as documented',
                        'width safety of the arithmetic (no wrap) is decided with the same discharge rows as C04/C05/C16 (rule Q6)']
    ctx.explanation = (
        'C08 relates three index computations. What is decided here is their wiring, compared as polynomials over atoms so that only '
        'the pairing of quantities matters: the lookup reads tiles[(y-oy)*W + (x-ox)] exactly inside the stored area and yields the static '
        'tile 0 outside (Q1); the logical size is the rounded-up quotient per axis of the canvas and the handle\'s own tileset (Q2); the '
        'offsets are the cel position divided per axis by the tile size (Q3); a tile image is the i-th block of tw*th pixels and the full image '
        'is all blocks in order with height th*count (Q4); the rasteriser blends pixel py*tw+px of the slice of tile(tx,ty).id onto '
        '(cel.x + tx*tw + px, cel.y + ty*th + py) with the layer x cel opacity, TilemapData::tile reads tiles[y*W+x] and tile_slice cuts '
        'pixels[ppt*id .. +ppt] (Q5). An axis swap, a wrong stride, a different tileset, a rounded-down size, a non-zero empty tile or a '
        'dropped offset term each change one of these polynomials. NOT decided: numerical agreement when the cel offset is not a multiple '
        'of the tile size (truncating division), and all pixel values.')
    lookup(ctx)
    logical_size(ctx)
    offsets(ctx)
    tileset_images(ctx)
    rasteriser(ctx)
    no_wrap(ctx)
    import layout as _layout
    _layout.tile_words(ctx, 'Q5')          # the tile ids that lookup, slice and image all consume
    # loading refuses a tilemap only for a tile id that really is >= the tile count (no stricter test: seed C08-n compared
    # `max().unwrap_or(0)`, which refuses an empty map on an empty tileset), every tileset chunk is decoded wherever it stands
    # (seed C08-m kept only those of frame 0), and no new refusal has appeared in the loader
    import common as _common
    import totality as _T
    import C01 as _c01
    _common.rejection_inventory(ctx, 'Q1')
    import invariants as _inv7
    ok7_, why7_ = _inv7.Inv(ctx).get('I7')        # a tileset that loads has pixels to show (seed C08-s let link-only tilesets through)
    ctx.inst('Q6', 'tilesets have pixels', ok7_, why7_, None, key='asefile::tileset::TilesetsById::validate|Q6|I7')
    # a sprite with tilesets must load with them: the user data chunks Aseprite writes after a tileset chunk (for the tileset and its
    # tiles) go through the attachment state machine, which must not run into its "dangling user data" refusal (seed C08-p reset the
    # context after the sprite's own record) - C10's rules on that machine, under this property's rule Q6
    import C10 as _c10q
    import rule as _Rq
    _c10q.run(_Rq.View(ctx, {k_: 'Q6' for k_ in ('S1', 'S2', 'S3', 'S4', 'S5', 'S6', 'S7', 'S8')}))
    _c01.dispatch_always_decodes(ctx, 'Q4')
    vt = ctx.anchor('asefile::tilemap::TilemapData::validate_tile_ids')
    if vt is not None:
        nrej = 0
        for sw, facts, cond in _T.rejections(vt):
            nrej += 1
            okr = False
            for op, l_, r_ in facts:
                if op == 'Ge' and is_param(strip_casts(r_), 2):
                    ids = [a_ for a_ in alts(l_)]
                    okr = bool(ids) and all((a_[0] == 'call' and a_[1].endswith('Tile::id')) or (a_[0] == 'field' and a_[2] == 'id') or
                                            (a_[0] == 'call' and a_[1] == 'std::iter::Iterator::max') for a_ in ids)
            ctx.inst('Q1', 'validate_tile_ids#refusal', okr, 'validate_tile_ids refuses under %s; must be `a tile id of the map >= tile_count` and nothing else '
                     '(no default standing in for "no tile")' % show(cond)[:100], vt.blocks[sw]['term'].get('span'), key=vt.name + '|Q1|refusal')
        if nrej == 0:
            # written with find / any / position / max: the predicate `id >= tile_count` over every tile is what I3 establishes
            import invariants as _inv3
            ok3, why3 = _inv3.Inv(ctx).get("I3")
            ctx.inst('Q1', 'validate_tile_ids#refusal', ok3, 'validate_tile_ids (iterator form): %s' % why3, vt.span, key=vt.name + '|Q1|refusal')
    # the tileset chunk itself: tile count, tile size and the embedded pixels are read where the format puts them - also when the chunk
    # additionally links an external file (seed C08-j skipped the embedded tiles then and the sprite no longer loads)
    import spec as _SP
    _spec = _SP.load_spec()
    # .. and the tileset a tilemap layer names: the layer chunk's DWORD tileset index, stored as read (seed C08-k read a WORD)
    _bl, _ = _layout.check_layout(ctx, _spec, 'asefile::layer::parse_chunk', 'LAYER', rule='Q2')
    _layout.check_stores(ctx, _spec, 'asefile::layer::parse_chunk', 'LAYER', _bl, rule='Q2')
    _bnd, _ = _layout.check_layout(ctx, _spec, 'asefile::tileset::Tileset::parse_chunk', 'TILESET', rule='Q4')
    _layout.check_stores(ctx, _spec, 'asefile::tileset::Tileset::parse_chunk', 'TILESET', _bnd, rule='Q4')
    ctx.samples = [i for i in ctx.instances][:16]
