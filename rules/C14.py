"""C14 - result independent of reader behaviour; I/O errors are returned as IoError with source()."""
import q
import common
import iorules
import callgraph as CG
from q import res, is_param, show, alts, walk

ERR = 'asefile::error::AsepriteParseError'


def run(ctx):
    fx = ctx.fx
    ctx.rules = ['Y1 exact reads only', 'Y2 no reader-dependent state', 'Y3 I/O errors surface as IoError with source', 'Y4 one parser',
                 'P8 error discipline']
    ctx.assumptions += ['std::io::Read::read_exact and read_to_end loop over short reads and retry ErrorKind::Interrupted (documented '
                        'contract, also binding for user readers that override them)']
    ctx.explanation = (
        'read_exact and read_to_end are specified to loop over short reads and retry Interrupted; a parser that touches its input only '
        'through them is, by that contract, insensitive to how the reader chunks the stream. The check therefore decides shapes: (Y1) '
        'who-may-call on the input over the whole loader cone; (Y2) no Seek/BufRead call and no branch on io::ErrorKind (the error kind '
        'is never interpreted, so there is no "EOF means done"); (Y3) AsepriteParseError::IoError is constructed only in '
        'From<io::Error>::from from its argument, every io::Result in the cone is converted by map_err(to_ase) / ? / into() and never '
        'formatted into another variant, Error::source returns Some(err) exactly for IoError; (Y4) read_file = File::open(path)? -> '
        'BufReader::new -> read_aseprite and read -> the same read_aseprite; plus no dropped Result. Not decided: readers that violate '
        'the Read contract.')
    load = [fx.by_path[p] for p in sorted(CG.load_cone(fx)) if fx.by_path[p].kind != 'promoted']
    entry = [b for b in fx.bodies if b.name in ('asefile::file::AsepriteFile::read_file', 'asefile::file::AsepriteFile::read')]
    n = iorules.exact_reads_only(ctx, load + entry, 'Y1')
    ctx.floor('I/O call sites in the loader cone', n, 10)
    iorules.take_bytes_length_check(ctx, 'Y1')
    iorules.reader_dependent_state(ctx, load + entry, 'Y2')
    # .. nor anywhere else in the crate: a wrapper around the input (`impl Read for Patient<R>` retrying WouldBlock, seed C14-r) is
    # called by std's read_exact, not by the loader, so the call-graph cone does not contain it.  The crate implements no I/O trait.
    io_impls = sorted(b_.name for b_ in fx.bodies if b_.kind == 'fn' and ' as std::io::' in b_.name)
    ctx.inst('Y2', 'io-trait impls', not io_impls, 'the crate implements std::io traits for %s; must be none (the input is read as the caller hands it in)'
             % (io_impls or 'nothing'), None, key='LOAD|Y2|io-impls')
    rest = [b_ for b_ in fx.bodies if b_ not in load and b_ not in entry and b_.kind != 'promoted' and not b_.name.startswith('asefile::util::')]
    iorules.reader_dependent_state(ctx, rest, 'Y2b')
    # .. and nothing is carried from one load to the next (seed C14-t parked chunk buffers in a thread-local: a load after a failed one
    # started with stale bytes) - C16's rule on statics and thread-locals, here as Y2
    import C16 as _c16s
    import rule as _Rs
    _c16s.static_state_rules(_Rs.View(ctx, {'S2': 'Y2s', 'S3': 'Y2', 'S4': 'Y2s', 'S5': 'Y2s'}), fx, [])

    # ---------- Y3a: constructions of IoError
    sites = []
    for b in fx.bodies:
        for bb, st, t in q.stmt_aggs(b, ERR, 'IoError'):
            sites.append((b, st, t))
        # ctor passed as a function value (e.g. map_err(AsepriteParseError::IoError))
        for x in [y for bb, blk in enumerate(b.blocks) for st in blk['stmts'] if st['k'] == 'assign' for y in q.rv_operands(st['rv'])] + \
                 [a for c in q.calls(b) for a in c.args]:
            if x.get('k') == 'const' and x.get('fn', {}).get('ctor') and x['fn'].get('ctor_of', '').endswith('AsepriteParseError::IoError'):
                sites.append((b, {'span': b.span}, ('agg', ERR, 'IoError', (('0', ('unknown', 'ctor-as-fn')),))))
    ctx.floor('IoError constructions', len(sites), 1)
    for b, st, t in sites:
        infrom = b.sig and b.sig.get('trait') == 'std::convert::From' and 'std::io::Error' in b.sig.get('trait_ref', '')
        pay = dict(t[3])['0']
        ok = bool(infrom) and is_param(pay, 1)
        if not ok and not infrom:
            # written out by hand (`Err(e) => Err(AsepriteParseError::IoError(e))`): the wrapped value is the failing call's own error,
            # untouched - or a fresh error where there is no underlying one (read_vec's short read) - never one error rebuilt from another
            bare = pay[0] == 'field' and pay[2] == '0' and pay[1][0] == 'variant' and pay[1][2] == 'Err' and pay[1][1][0] == 'call'
            derived = any(isinstance(x, tuple) and x and ((x[0] == 'variant' and x[2] == 'Err') or
                                                           (x[0] == 'param' and 'io::Error' in b.locals[x[1]]['ty'])) for x in walk(pay))
            ok = bare or not derived
        ctx.inst('Y3', 'IoError@' + b.name.split('asefile::')[-1], ok, 'IoError(%s) constructed in %s; must be only From<io::Error>::from(err) '
                 'wrapping its argument' % (show(dict(t[3])['0']), b.name), st['span'], key=ctx.key(b.name, 'Y3', 'IoError-ctor', ''))

    # ---------- Y3b: every io::Result is converted through From<io::Error>
    nio = 0
    for b in load + entry:
        for c in q.calls(b):
            ty = c.dest['ty']
            if not (q.ty_is_result(ty) and ty.rstrip('>').endswith('std::io::Error')):
                continue
            if q.callee_name(c) in q.RESULT_PROPAGATORS:
                continue
            nio += 1
            ok = False
            how = []
            # a hand-written `?`: `match r { Ok(..) => .., Err(e) => return Err(e.into()) }` - every error the Err arm returns is the
            # payload of this very result passed through From<io::Error> for the crate's error type
            sw = q._manual_question_mark(b, c.dest['l']) if not c.dest['p'] else None
            if sw is not None:
                tm_ = b.blocks[sw]['term']
                err_e = [s_ for v_, s_ in tm_['targets'] if v_ == 1] or [tm_['otherwise']]
                slots_ = q.return_slots(b)
                ho_ = q._handoffs(b)
                ds_ = [d for e_ in err_e for d in q.defs_in(b, b.cfg.reachable_from(e_)) if d[0] in slots_ and not d[1] and (d[3], d[0]) not in ho_]

                def converted(t_):
                    if t_[0] == 'residual':
                        return True           # the `?` that hands an already built error value on
                    if not (t_[0] == 'agg' and t_[2] == 'Err'):
                        return False
                    p_ = dict(t_[3]).get('0')
                    if p_ and p_[0] == 'agg' and p_[2] == 'IoError':
                        a_ = dict(p_[3]).get('0', ('unknown',))          # the variant spelled out: IoError(e)
                    elif p_ and p_[0] == 'call' and ('convert::From' in p_[1] or p_[1].endswith('Into::into')) and 'AsepriteParseError' in p_[1] + b.locals[0]['ty']:
                        a_ = p_[2][0]
                    else:
                        return False
                    return a_[0] == 'field' and a_[1][0] == 'variant' and a_[1][2] == 'Err' and a_[1][1][0] == 'call' and a_[1][1][3] == (b.name, c.bb)
                ok = bool(ds_) and all(converted(a_) for d in ds_ for a_ in alts(d[2])) and any(a_[0] == 'agg' for d in ds_ for a_ in alts(d[2]))
                ctx.inst('Y3', '%s -> %s' % (b.name.split('asefile::')[-1], c.callee.split('::')[-1]), ok,
                         'io::Result of %s is matched by hand; its Err arm returns %s' % (c.callee, 'Err(From<io::Error>::from(e)) of that error' if ok else
                                                                                        'something other than the converted error'),
                         c.span, key=ctx.key(b.name, 'Y3', 'io-result', c.callee))
                continue
            for kind, ubb, obj in q.uses(b, c.dest['l']):
                if kind == 'drop':
                    continue
                if kind == 'call-arg':
                    t_, i = obj
                    cc = b.call_at(ubb)
                    nm = q.callee_name(cc)
                    if nm == 'std::result::Result::map_err':
                        f = q.arg_terms(cc)[1]
                        conv = f[0] == 'fn' and (f[1] == 'asefile::reader::to_ase' or f[1].endswith('std::convert::From::from') or f[1].endswith('Into::into'))
                        how.append('map_err(%s)' % show(f))
                        ok = conv
                    elif nm == 'std::ops::Try::branch':
                        # `?` in a function returning our Result: from_residual converts with From<io::Error>
                        okq = b.locals[0]['ty'].rstrip('>').endswith('error::AsepriteParseError')
                        how.append('?')
                        ok = okq
                    else:
                        how.append('passed to ' + nm)
                        ok = False
                else:
                    how.append(kind)
                    ok = False
            ctx.inst('Y3', '%s -> %s' % (b.name.split('asefile::')[-1], c.callee.split('::')[-1]), ok,
                     'io::Result of %s is converted by %s; must reach From<io::Error> (map_err(to_ase) / ? / into())' % (c.callee, how or 'NOTHING'),
                     c.span, key=ctx.key(b.name, 'Y3', 'io-result', c.callee))
    ctx.floor('io::Result call sites', nio, 8)
    ta = fx.body('asefile::reader::to_ase')        # a convenience wrapper; gone when every site uses `?` / into() directly
    if ta is not None:
        t = res(ta).ret()
        ok = t[0] == 'call' and t[1].startswith('std::convert::From::from<error::AsepriteParseError<-std::io::Error') and is_param(t[2][0], 1)
        ctx.inst('Y3', 'to_ase', ok, 'to_ase(e) = %s; must be e.into() through From<io::Error>' % show(t), ta.span, key=ta.name + '|Y3')
    # no io::Error is formatted into a message
    fmt_bad = []
    for b in load:
        for c in q.calls(b):
            if c.callee.startswith('core::fmt::rt::Argument::new_') and c.fn and any('std::io::Error' in a for a in c.fn.get('args', [])):
                fmt_bad.append((b, c))
    ctx.inst('Y3', 'no-format', not fmt_bad, 'io::Error values formatted into messages in the loader: %s (must be none)'
             % [(b.name, c.span) for b, c in fmt_bad], None, key='LOAD|Y3|format')
    # ---------- Y3c: source()
    sb = ctx.anchor('asefile::<error::AsepriteParseError as std::error::Error>::source')
    if sb is not None:
        import C10 as _c10
        sws = q.switches_on(sb, lambda d: d[0] == 'discr' and is_param(d[1], 1))
        okk = False
        detail = ''
        if len(sws) == 1:
            names = _c10.switch_variants(sb, sws[0])
            tb = q.switch_table(sb, sws[0])
            got = {}
            for v, s in list(tb['values'].items()) + [('_', tb['otherwise'])]:
                rets = tb['arms'][s]['ret'] if s in tb['arms'] else []
                for r_ in rets:
                    for a in alts(r_):
                        got.setdefault(names.get(v, '_') if v != '_' else '_', []).append(a)
            io = got.get('IoError', [])
            others = [a for k, vs in got.items() if k != 'IoError' for a in vs]
            ok_io = len(io) == 1 and io[0][0] == 'agg' and io[0][2] == 'Some' and any(x[0] == 'variant' and x[2] == 'IoError' for x in walk(io[0]))
            ok_ot = bool(others) and all(a[0] == 'agg' and a[2] == 'None' for a in others)
            okk = ok_io and ok_ot
            detail = {k: [show(a)[:50] for a in vs] for k, vs in got.items()}
        ctx.inst('Y3', 'source()', okk, 'Error::source table %s; must be {IoError(err) -> Some(err), _ -> None}' % detail, sb.span, key=sb.name + '|Y3')

    # ---------- Y4 one parser
    iorules.entry_points(ctx, 'Y4')
    ns = common.error_discipline(ctx, load + entry, 'P8')
    ctx.floor('fallible call sites', ns, 150)
    ctx.samples = [i for i in ctx.instances if i['rule'] in ('Y1', 'Y2', 'Y3', 'Y4')][:18]
