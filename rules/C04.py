"""C04 - loading is total: every site in the loader's call-graph cone that can stop the program other than by
returning (panic, abort, unbounded recursion, non-progressing loop) is enumerated and must be discharged."""
import q
import panics
import intervals as IV
import callgraph as CG
import common
import effects
import totality as T
import schedule
import layout
from q import res, is_param, is_param_path, field_path, strip_casts, show, alts, walk, expand

P = 'asefile::parse::'
PAL = 'asefile::palette::'


# ------------------------------------------------------------------ table rows (P3): each re-verifies its obligation
def row_chunk_size_minus_header(ctx, site):
    """chunk_size - 6: the size was rejected when < 6, by a guard in Chunk::read itself or in a helper it calls with `?`"""
    b0 = site.body
    b = ctx.fx.inlined_view(b0.name, [P + 'check_chunk_bytes']) or b0
    m = b0.blocks[site.bb]['term']['msg']
    import poly as PL
    minuend = PL.canon(q.expand(res(b0).operand(m['a']), ctx.fx, 2))
    k = q.const_val(res(b0).operand(m['b']))

    def pred(cond, truth):
        cond = q.expand(cond, ctx.fx, 2)
        if cond[0] != 'bin':
            return False
        l, r_ = PL.canon(cond[2]), PL.canon(cond[3])
        kk = q.const_fold(r_)
        if cond[1] == 'Lt' and l == minuend and kk is not None and kk >= k and truth is False:
            return True
        if cond[1] == 'Ge' and l == minuend and kk is not None and kk >= k and truth is True:
            return True
        # `size <= k'` rejected with k' >= k-1 protects the subtraction just as well (whether that also turns away conformant
        # chunks is C01's framing rule, not a panic question)
        if cond[1] == 'Le' and l == minuend and kk is not None and kk >= k - 1 and truth is False:
            return True
        if cond[1] == 'Gt' and l == minuend and kk is not None and kk >= k - 1 and truth is True:
            return True
        return False
    if not T.rejecting_guard(b, site.bb, pred):
        return False, 'chunk_size - %s is not dominated by a rejection of chunk_size < %s (neither inline nor through check_chunk_bytes(..)?)' % (k, k)
    return True, 'dominated by `chunk_size < %s -> Err` (directly or via check_chunk_bytes(..)?)' % k


def row_bytes_available(ctx, site):
    """*bytes_available -= chunk_size: chunk_size > bytes_available was rejected before"""
    b0 = site.body
    b = ctx.fx.inlined_view(b0.name, [P + 'check_chunk_bytes']) or b0
    m = b0.blocks[site.bb]['term']['msg']
    import poly as PL
    sub = PL.canon(q.expand(res(b0).operand(m['b']), ctx.fx, 2))
    minu = PL.canon(q.expand(res(b0).operand(m['a']), ctx.fx, 2))

    def pred(cond, truth):
        cond = q.expand(cond, ctx.fx, 2)
        if cond[0] != 'bin':
            return False
        l, r_ = PL.canon(cond[2]), PL.canon(cond[3])
        if cond[1] == 'Gt' and l == sub and r_ == minu and truth is False:
            return True
        if cond[1] == 'Le' and l == sub and r_ == minu and truth is True:
            return True
        if cond[1] == 'Lt' and l == minu and r_ == sub and truth is False:
            return True
        if cond[1] == 'Ge' and l == minu and r_ == sub and truth is True:
            return True
        return False
    if not T.rejecting_guard(b, site.bb, pred):
        return False, 'bytes_available - chunk_size is not dominated by a rejection of chunk_size > bytes_available'
    return True, 'dominated by `chunk_size > *bytes_available -> Err` (directly or via check_chunk_bytes(..)?), so the difference stays >= 0'


def _old_palette_loop_facts(b):
    """(packet loop, word-read trip count?, skip accumulation sites, count accumulation sites)"""
    import C11 as _c11
    rngs = [(bb, st) for bb, blk in enumerate(b.blocks) for st in blk['stmts']
            if st['k'] == 'assign' and st['rv']['k'] == 'agg' and st['rv'].get('adt', '').endswith('ops::Range')]
    inner = [x for x in rngs if b.cfg.loop_of(x[0]) is not None]
    outer = [x for x in rngs if b.cfg.loop_of(x[0]) is None]
    return inner, outer, _c11


def row_old_palette_skip(ctx, site):
    b = site.body
    inner, outer, _c11 = _old_palette_loop_facts(b)
    L = b.cfg.loop_of(site.bb)
    if L is None or len(outer) != 1:
        return False, 'not inside the single packet loop'
    end = res(b).operand(outer[0][1]['rv']['ops'][1])
    if not common.is_read(strip_casts(end), ('word', 'byte')):
        return False, 'packet count %s is not a 16-bit read' % show(end)
    m = b.blocks[site.bb]['term']['msg']
    addend = res(b).operand(m['b'])
    casts, inner_t = q.casts_on(addend)
    if not common.is_read(inner_t, ('byte',)):
        return False, 'addend %s is not a byte read' % show(addend)
    ls = _c11.root_local(b, m['a']) if m['a']['k'] in ('copy', 'move') else None
    defs = _c11.local_defs(b, ls) if ls is not None else []
    inits = [t for t, bb_ in defs if q.const_val(t) == 0 and b.cfg.loop_of(bb_) is None]
    accs = [t for t, bb_ in defs if t[0] == 'bin' and t[1] == 'Add']
    if len(inits) != 1 or len(accs) != 1 or len(defs) != 2:
        return False, 'running offset has definitions %s (expected: 0 outside the loop + one accumulation)' % [show(t) for t, _ in defs]
    return True, 'offset <= 65535 packets x 255 < 2^32: trip count is a 16-bit read, addend a byte read, single accumulation from 0'


def row_old_palette_count(ctx, site):
    b = site.body
    import C11 as _c11
    m = b.blocks[site.bb]['term']['msg']
    lc = _c11.root_local(b, m['a']) if m['a']['k'] in ('copy', 'move') else None
    defs = _c11.local_defs(b, lc) if lc is not None else []
    ok_parts = True
    for t, bb_ in defs:
        if t[0] == 'bin' and t[1] == 'Add':
            continue
        inner_t = strip_casts(t)
        if common.is_read(inner_t, ('byte',)) or q.const_val(t) == 256:
            continue
        ok_parts = False
    # the other operand is the running offset, bounded by the row above
    other = res(b).operand(m['b'])
    if not ok_parts:
        return False, 'entry count has unexpected definitions %s' % [show(t)[:40] for t, _ in defs]
    return True, 'count <= 256 (byte read or the constant 256) + offset < 2^24: fits u32'


def row_tag_index_plus_one(ctx, site):
    b = site.body
    fx = ctx.fx
    # tags.get_mut(tag_index) was required to be Some (ok_or_else(..)?, let-else, match, is_none test) before the increment
    req = T.option_required(b, lambda x: any(y[0] == 'call' and y[1] in ('core::slice::get_mut', 'std::vec::Vec::get_mut', 'core::slice::get', 'std::vec::Vec::get')
                                               and is_param(strip_casts(y[2][1]), 3) for y in walk(x)))
    ok_guard = any(b.cfg.dominates(r_, site.bb) and r_ != site.bb for r_ in req)
    if not ok_guard:
        return False, 'tag_index + 1 is not dominated by a successful tags.get_mut(tag_index)'
    tb = fx.body('asefile::tags::parse_chunk')
    if tb is None:
        return False, 'tags::parse_chunk missing'
    ps = q.calls(tb, 'std::vec::Vec::push')
    oks = []
    for c in ps:
        L = tb.cfg.loop_of(c.bb)
        if L is None:
            oks.append(False)
            continue
        it = None
        for bi in sorted(L['body']):
            cc = tb.call_at(bi)
            if cc is not None and q.callee_name(cc) == 'std::iter::Iterator::next':
                it = q.unwrap_into_iter(q.arg_terms(cc)[0])
        end = dict(it[3]).get('end') if it is not None and it[0] == 'agg' else None
        oks.append(end is not None and common.is_read(strip_casts(end), ('word',)))
    # the tags vector is only ever replaced wholesale by add_tags(tags::parse_chunk(..))
    ws = [w for w in T.mutators_of_field(fx, 'tags') if w[0].name.startswith('asefile::parse::')]
    only_assign = all(k == 'assign' for _, k, _, _ in ws)
    if not (oks and all(oks) and only_assign):
        return False, 'cannot bound tags.len(): pushes %s, writers %s' % (oks, [(w[0].name, w[1]) for w in ws])
    return True, 'tag_index < tags.len() (get_mut succeeded) and tags.len() <= 65535 (one push per iteration of a 0..WORD loop), so +1 fits u16'


def row_add_cel_outer(ctx, site):
    b = site.body
    cs = T.dominating_call(b, site.bb, 'asefile::cel::CelsData::check_valid_frame_id')
    idx = strip_casts(site.detail['args'][1])
    if not cs or strip_casts(q.arg_terms(cs[0])[1]) != idx:
        return False, 'not dominated by check_valid_frame_id(frame_id)? on the same index'
    cb = ctx.fx.body('asefile::cel::CelsData::check_valid_frame_id')

    def want(op, l, r_):
        return op == 'Lt' and is_param(l, 2) and r_[0] == 'call' and r_[1] in T.LEN and is_param_path(r_[2][0], 1, ['data'])
    if cb is None or not T.callee_passes_only_if(cb, want):
        return False, 'check_valid_frame_id no longer rejects frame_id >= data.len()'
    return True, 'dominated by check_valid_frame_id(frame_id)? which returns Err when frame_id >= data.len()'


def row_add_cel_inner(ctx, site):
    b = site.body
    at = site.detail['args']
    idx = strip_casts(at[1])
    # dominated by: if layers.len() < n { layers.resize_with(n) }  with n = idx + 1
    rs = [c for c in q.calls(b, 'std::vec::Vec::resize_with')]
    for c in rs:
        ra = q.arg_terms(c)
        n = strip_casts(ra[1])
        if not (n[0] == 'bin' and n[1] == 'Add' and strip_casts(n[2]) == idx and q.const_val(n[3]) == 1):
            continue
        if strip_casts(ra[0]) != strip_casts(at[0]) and ra[0] != at[0]:
            continue
        # the resize is skipped only when len >= n (any spelling of `len < n` on the edge into the resize)
        for a in T.holding_fact(b, c.bb, lambda op, l, r_: op == 'Lt' and l[0] == 'call' and l[1] in T.LEN and r_ == n):
            if b.cfg.dominates(a, site.bb):
                return True, 'dominated by `if row.len() < layer+1 { row.resize_with(layer+1) }` on the same row and index'
    return False, 'no dominating resize_with(index + 1) under len < index + 1 on the same row'


def row_cel_mut_outer(ctx, site):
    fx = ctx.fx
    g = CG.get(fx)
    load = CG.load_cone(fx)
    callers = [p for p in g.callers(site.body.path) if p in load]
    ok = True
    why = []
    for p in callers:
        cb = fx.by_path[p]
        for c in q.calls(cb, site.body.name):
            cid = q.arg_terms(c)[1]
            good = cid[0] == 'field' and cid[2] == '0' and cid[1][0] == 'variant' and cid[1][2] == 'CelId' and \
                effects.root_of(cid[1][1])[1] == ['user_data_context']
            ok = ok and good
            why.append('%s passes %s' % (cb.name.split('::')[-1], show(cid)[:60]))
    # the CelId context is only set after framedata.add_cel(frame_id, ..)? succeeded (frame_id < data.len())
    ac = fx.body(P + 'ParseInfo::add_cel')
    after = False
    if ac is not None:
        for bi, blk in enumerate(ac.blocks):
            for st in blk['stmts']:
                if st['k'] == 'assign' and st['p']['p'] and st['p']['p'][-1].get('n') == 'user_data_context':
                    for cond, vals, a in q.guards(ac, bi):
                        if cond[0] == 'discr' and cond[1][0] == 'try' and vals == [0] and any(
                                x[0] == 'call' and x[1] == 'asefile::cel::CelsData::add_cel' for x in walk(cond)):
                            after = True
    ws = [w for w in T.mutators_of_field(fx, 'data') if w[0].name.startswith('asefile::cel::CelsData') and w[1] in ('truncate', 'pop', 'clear', 'remove')]
    if not (ok and callers and after and not ws):
        return False, 'callers %s; context-after-add_cel %s; shrinking writers %s' % (why, after, ws)
    return True, 'only called with the CelId stored in the user-data context, which is set only after add_cel(frame_id, ..)? succeeded; the frame table never shrinks'


def row_validate_result_row(ctx, site):
    b = site.body
    at = site.detail['args']
    idx = strip_casts(at[1])
    L = b.cfg.loop_of(site.bb)
    if not (idx[0] == 'field' and idx[2] == '0' and idx[1][0] == 'next'):
        return False, 'index %s is not an enumerate index' % show(idx)
    # an outer-loop push to the same vector on every outer iteration, before the inner loop
    outer = [L2 for L2 in b.cfg.loops_containing(site.bb)]
    outer = max(outer, key=lambda L2: len(L2['body'])) if outer else None
    ps = [c for c in q.calls(b, 'std::vec::Vec::push') if q.arg_terms(c)[0] == at[0] or strip_casts(q.arg_terms(c)[0]) == strip_casts(at[0])]
    ok = False
    for c in ps:
        if outer is not None and c.bb in outer['body'] and b.cfg.dominates(c.bb, site.bb) and b.cfg.loop_of(c.bb)['header'] == outer['header']:
            ok = True
    if not ok:
        return False, 'no push to the same vector once per outer iteration dominating the indexing'
    return True, 'rows are pushed once per outer enumerate iteration before the inner loop, so index (the enumerate counter) < len'


def row_layers_index(ctx, site):
    """layers[cel_id.layer] in RawCel::validate / LayersData::index: the caller rejects layer >= num_layers"""
    fx = ctx.fx
    cv = fx.body('asefile::cel::CelsData::validate')
    rv = fx.body('asefile::cel::RawCel::validate')
    if cv is None or rv is None:
        return False, 'anchor missing'
    cs = q.calls(cv, rv.name)
    if len(cs) != 1:
        return False, 'RawCel::validate has %d call sites in CelsData::validate' % len(cs)
    c = cs[0]
    at = q.arg_terms(c)
    cid = at[1]
    layer_t = strip_casts(dict(cid[3]).get('layer')) if cid[0] == 'agg' else None
    guarded = T.rejecting_fact(cv, c.bb, lambda op, l, r_: op == 'Lt' and l == layer_t and r_[0] == 'call' and r_[1] in T.LEN and
                               field_path(r_[2][0])[1] == ['layers'] and field_path(r_[2][0])[0] == at[2])
    if not guarded:
        return False, 'the call of RawCel::validate is not dominated by `layer >= layers.len() -> Err` on the same layers and index'
    # inside RawCel::validate the index is cel_id.layer of the parameter, the vector the layers parameter
    if site.body is rv:
        a0, a1 = site.detail['args'][0], strip_casts(site.detail['args'][1])
        if not (is_param(a0, 3) and is_param_path(a1, 2, ['layer'])):
            return False, 'indexes %s[%s], not layers[cel_id.layer]' % (show(a0), show(a1))
    else:
        # LayersData::index: every LOAD caller is one of the RawCel::validate sites
        g = CG.get(fx)
        load = CG.load_cone(fx)
        callers = [p for p in g.callers(site.body.path) if p in load]
        if callers != [rv.path]:
            return False, 'LayersData::index has loader callers %s besides RawCel::validate' % callers
    return True, 'the only loader call of RawCel::validate is dominated by `layer >= layers.len() -> Err` with cel_id.layer = that layer'


def row_frame_times(ctx, site):
    fx = ctx.fx
    b = site.body
    idx = strip_casts(site.detail['args'][1])
    if not (is_param(idx) and b.locals[idx[1]]['ty'] == 'u16'):
        return False, 'index %s is not the frame id parameter' % show(idx)
    # frame id comes from 0..num_frames; frame_times = vec![_; num_frames]; never resized
    ra = fx.body(P + 'read_aseprite')
    pn = fx.body(P + 'ParseInfo::new')
    if ra is None or pn is None:
        return False, 'anchor missing'
    cs = q.calls(ra, b.name)
    news = q.calls(ra, pn.name)
    if len(cs) != 1 or len(news) != 1:
        return False, 'unexpected call structure'
    fid = q.arg_terms(cs[0])[1]
    rng = [x for x in walk(fid) if x[0] == 'agg' and x[1] == 'std::ops::Range']
    nf = q.arg_terms(news[0])[0]
    ok = fid[0] == 'next' and len(rng) == 1 and q.const_val(dict(rng[0][3])['start']) == 0 and dict(rng[0][3])['end'] == nf
    init = False
    for bb, st, t in q.stmt_aggs(pn, 'asefile::parse::ParseInfo'):
        ft = dict(t[3]).get('frame_times')
        init = ft is not None and ft[0] == 'call' and ft[1].endswith('from_elem') and is_param(strip_casts(ft[2][1]), 1)
    ws = [w for w in T.mutators_of_field(fx, 'frame_times') if w[0].name.startswith('asefile::parse::')]
    if not (ok and init and not ws):
        return False, 'frame id range %s, init %s, resizing writers %s' % (ok, init, [(w[0].name, w[1]) for w in ws])
    return True, 'frame_id iterates 0..num_frames and frame_times = vec![_; num_frames] with the same num_frames, never resized'


ROWS = [
    ('asefile::parse::Chunk::read', 'overflow:Sub', 'const(6', row_chunk_size_minus_header),
    # (rows that used to be found by the NAME of a parameter are found by its role: the names of locals are free to change)
    ('asefile::parse::Chunk::read', 'overflow:Sub', lambda s_: is_param(strip_casts(s_.detail.get('a_term', ('unknown',)))), row_bytes_available),
    ('asefile::parse::ParseInfo::set_tag_user_data', 'overflow:Add',
     lambda s_: is_param(strip_casts(s_.detail.get('a_term', ('unknown',)))) and q.const_val(s_.detail.get('b_term', ('unknown',))) == 1, row_tag_index_plus_one),
    ('asefile::cel::CelsData::add_cel', 'ext:index', 'layer_index', row_add_cel_inner),
    ('asefile::cel::CelsData::add_cel', 'ext:index_mut', 'layer_index', row_add_cel_inner),
    ('asefile::cel::CelsData::add_cel', 'ext:index_mut', 'param:self.data,', row_add_cel_outer),
    ('asefile::cel::CelsData::cel_mut', 'ext:index_mut', 'param:self.data,', row_cel_mut_outer),
    ('asefile::cel::CelsData::validate', 'ext:index_mut', 'with_capacity', row_validate_result_row),
    ('asefile::cel::RawCel::validate', 'ext:index', 'param:layers', row_layers_index),
    ('asefile::<layer::LayersData as std::ops::Index>::index', 'ext:index', 'param:self.layers', row_layers_index),
    ('asefile::parse::parse_frame', 'ext:index_mut', 'frame_times', row_frame_times),
]


def find_row(site):
    for fn, kind, sub, f in ROWS:
        if site.body.name == fn and site.kind == kind and (sub(site) if callable(sub) else sub in site.what):
            return f
    # the two accumulations in the old palette decoders: skip += byte ; count += skip
    if site.body.name in (PAL + 'parse_old_chunk_04', PAL + 'parse_old_chunk_11') and site.kind == 'overflow:Add':
        m = site.body.blocks[site.bb]['term']['msg']
        addend = res(site.body).operand(m['b'])
        if common.is_read(strip_casts(addend), ('byte',)):
            return row_old_palette_skip
        return row_old_palette_count
    return None


# ------------------------------------------------------------------ loops (A9)
ABORT_SIZE = 1 << 32          # a request above 4 GiB from a few input bytes: refused by the allocator on ordinary hosts


def classify_loop(fx, body, L):
    S = schedule.get(fx)
    it = None
    for bi in sorted(L['body']):
        c = body.call_at(bi)
        if c is not None and q.callee_name(c) == 'std::iter::Iterator::next' and (bi == L['header'] or body.cfg.dominates(L['header'], bi)):
            it = q.arg_terms(c)[0]
            break
    if it is None:
        it = q.counter_loop(body, L)          # `while c < n { ..; c += 1 }`
    if it is None:
        return 'other', 'no iterator drives this loop'
    src = q.unwrap_into_iter(it)
    # strip memory-bounded adaptors
    t = src
    chain = []
    while t[0] == 'call' and t[1].split('::')[-1] in ('enumerate', 'iter', 'iter_mut', 'into_iter', 'chunks_exact', 'take', 'map', 'values', 'rev', 'zip',
                                                       'copied', 'cloned', 'skip', 'filter_map', 'filter', 'flat_map', 'drain'):
        chain.append(t[1].split('::')[-1])
        t = t[2][0]
    if t[0] != 'agg' and not (t[0] == 'call' and t[1] == 'std::ops::RangeInclusive::new'):
        return 'memory', 'iterates an in-memory collection (%s over %s)' % ('.'.join(chain) or 'into_iter', show(t)[:60])
    # a numeric range: who bounds it?
    if t[0] == 'agg':
        end = dict(t[3]).get('end')
    else:
        end = t[2][1]
    sums = IV.get(fx)
    e = strip_casts(expand(end, fx, 2, layout.noinl(fx)))
    if e[0] == 'call' and e[1] in T.LEN or e[0] == 'len':
        return 'memory', 'range bounded by the length of an in-memory collection'
    if T.enumerate_index_of(e) is not None:
        return 'memory', 'range bounded by the index of an enumeration over an in-memory collection'
    reads = [x for x in walk(e) if common.is_read(x)]
    wide = [x for x in reads if common.read_kind(x) in ('dword', 'long')]
    small_param = False
    if is_param(e) and body.kind == 'fn':
        pr = sums.param(body, e[1])
        small_param = pr is not None and pr[1] <= 65536
    if not wide and (reads or small_param):
        # <= 16 bit counts (or parameters bounded by their callers)
        if not reads:
            return 'bounded', 'range end %s is a parameter whose callers pass at most %d' % (show(e)[:60], pr[1])
        return 'bounded', 'trip count is a <= 16-bit file field (%s)' % ', '.join(common.read_kind(x) for x in reads)
    # input-driven: needs a propagating read on every iteration
    for bi in sorted(L['body']):
        c = body.call_at(bi)
        if c is None:
            continue
        if S.call_kind(body, c) in ('prim', 'helper') and all(body.cfg.dominates(bi, x) for x, _ in L['back_edges']):
            fates = q.result_fates(body, c.dest['l'])
            if fates and all(f[0] == 'try' for f in fates):
                return 'input-driven', 'every iteration performs %s(..)? whose Err leaves the loop' % q.callee_name(c).split('::')[-1]
    return 'no-progress', 'range end %s is controlled by a 32-bit file field and no propagating read happens on every iteration' % show(e)[:80]


def run(ctx):
    fx = ctx.fx
    g = CG.get(fx)
    cone = CG.load_cone(fx)
    load = [fx.by_path[p] for p in sorted(cone) if fx.by_path[p].kind != 'promoted']
    ctx.rules = ['P0 inventory', 'P1 width discharge', 'P2 guard discharge', 'P3 table rows with re-verified obligations', 'P4 explicit panics',
                 'P5 allocation sinks (judged under C12)', 'P6 recursion', 'P7 loop progress', 'P8 error discipline']
    ctx.assumptions += ['usize/isize are 64 bit', 'external callees not on the panic-capable list are total',
                        'the number of layers/slices fits u32 (bounded by input size / 6 bytes per chunk)']
    ctx.explanation = (
        'Totality is a reachability question over a finite set of program points: every site in the call-graph cone of read_aseprite '
        'that can stop the program other than by returning is enumerated from the dev-profile MIR (overflow checks and debug '
        'assertions on) - Assert terminators (overflow, bounds, division), panic!/assert!/unreachable! calls, panic-capable external '
        'callees (indexing, unwrap/expect, chunks_exact, ...), allocation sinks, recursion, loops - and each must be discharged by a '
        'rule that holds for all inputs: an interval (width) argument with inter-procedural parameter ranges and dominating '
        'constant guards; a dominating guard in the same body; or a table row whose structural obligation (e.g. "dominated by '
        'check_chunk_bytes(..)? which rejects chunk_size < 6") is re-verified on every run. Allocation sinks are cross-referenced '
        'to C12. The cone must contain no recursion, every loop must be memory-bounded, bounded by a <=16-bit count, or perform a '
        '?-propagated read on every iteration, and no Result may be dropped. Not decided: panics inside external crates, stack depth '
        'of non-recursive code.')
    inv = panics.inventory(fx, load)
    ctx.floor('panic-capable sites in the LOAD cone', len(inv), 40)
    counts = {}
    for s in inv:
        n = counts.get((s.body.name, s.kind, s.what), 0)
        counts[(s.body.name, s.kind, s.what)] = n + 1
        key = s.key(n)
        reason = T.auto(s)
        rule = 'P1'
        if reason is None and s.kind.startswith('alloc:'):
            # memory *budget* is C12's property; what belongs here is the single request so large that the allocator refuses it
            # and the process aborts (or `capacity overflow` panics): a size taken from a declared 32-bit field times the element size
            import C12 as _c12
            d_ = s.detail
            st_ = d_.get('size_term')
            rng_ = d_.get('size_range')
            esz_ = d_.get('elem_size') or _c12.fallback_elem_size(fx, s) or 128
            lenlike = st_ is not None and strip_casts(st_)[0] == 'call' and strip_casts(st_)[1] in _c12.LENLIKE
            rule = 'P5'
            if d_.get('callee') in ('std::io::Read::read_to_end', 'std::io::Read::read_to_string') or lenlike:
                reason = 'allocation grows with data already delivered / in memory (budget: C12)'
            elif rng_ is not None and rng_[1] * esz_ <= ABORT_SIZE:
                reason = 'single request of at most %d bytes (budget: C12)' % (rng_[1] * esz_)
            else:
                ctx.inst('P5', '%s %s' % (s.body.name.split('asefile::')[-1], s.kind), False,
                         '%s at %s: a single request of up to %s x %d bytes is controlled by a declared file field: the allocator refuses it and the process aborts'
                         % (s.kind, s.what[:80], rng_[1] if rng_ else 'unbounded', esz_), s.span, key=key, detail={'macros': s.macros[:3]})
                continue
        if reason is None:
            reason = T.guard_index(s) or T.guard_index_enumerate(s) or T.guard_unwrap(s)
            rule = 'P2'
        ok = reason is not None
        if reason is None:
            f = find_row(s)
            rule = 'P3'
            if f is not None:
                try:
                    ok, reason = f(ctx, s)
                except Exception as e:     # fail closed
                    ok, reason = False, 'obligation check crashed: %r' % (e,)
                reason = ('obligation holds: ' if ok else 'OBLIGATION FAILED: ') + reason
            else:
                ok, reason = False, 'no discharge rule applies (not width-safe, no dominating guard, no table row)'
                rule = 'P4' if s.kind.startswith('panic') or s.kind == 'ext:unwrap' else 'P0'
        ctx.inst(rule, '%s %s' % (s.body.name.split('asefile::')[-1], s.kind), ok, '%s at %s: %s' % (s.kind, s.what[:90], reason), s.span,
                 key=key, detail={'macros': s.macros[:3]})
    # ---------- P6 recursion
    sccs = g.sccs(cone)
    ctx.inst('P6', 'recursion', not sccs, 'recursive cycles in the loader cone: %s (must be none)' % sccs, None, key='LOAD|P6|recursion')
    # ---------- P7 loops
    nl = 0
    for b in load:
        for L in b.cfg.loops:
            nl += 1
            cls, why = classify_loop(fx, b, L)
            ok = cls in ('memory', 'bounded', 'input-driven')
            sp = b.blocks[L['header']]['term'].get('span') if b.blocks[L['header']]['term'] else b.span
            ctx.inst('P7', '%s loop@bb%d' % (b.name.split('asefile::')[-1], L['header']), ok, 'loop is %s: %s' % (cls, why), sp,
                     key=ctx.key(b.name, 'P7', 'loop', cls if not ok else ''))
    # loops hidden in iterator adaptors: collect(map(range, closure)) with a reader-using closure
    S = schedule.get(fx)
    for b in load:
        for c in q.calls(b, 'std::iter::Iterator::collect'):
            ic = S._iter_closure(b, c)
            if ic is None:
                continue
            rng, cl, cb = ic
            nl += 1
            # the closure must return the Result of a reader helper/primitive on every path (collect stops at the first Err)
            rt = res(cb).ret()
            ok = all(a[0] == 'call' and (a[1].startswith(common.READER) or fx.body(a[1]) is not None and S.body_relevant(fx.body(a[1])))
                     for a in alts(rt))
            dty = c.dest['ty']
            ok = ok and q.ty_is_result(dty)
            ctx.inst('P7', '%s collect@bb%d' % (b.name.split('asefile::')[-1], c.bb), ok, 'iterator loop collect(map(%s, closure)): the closure returns '
                     'the Result of a read on every path and collect::<Result<_>>() stops at the first Err: %s' % (show(rng)[:60], ok), c.span,
                     key=ctx.key(b.name, 'P7', 'collect', ''))
    ctx.floor('loops in the LOAD cone', nl, 12)
    # ---------- P8
    ns = common.error_discipline(ctx, load, 'P8')
    ctx.floor('fallible call sites', ns, 150)
    ext = panics.external_callees(fx, load)
    ctx.extra['unclassified_external_callees'] = len(ext)
    ctx.extra['unclassified_external_callee_names'] = ext
    ctx.extra['cone_size'] = len(load)
    biggest = max((l.get('size') or 0, b.name, l['ty']) for b in load for l in b.locals)
    ctx.extra['largest_local_bytes'] = {'bytes': biggest[0], 'fn': biggest[1], 'type': biggest[2][:80]}
    ctx.inst('P0', 'stack frames', biggest[0] < 4096, 'largest local in the loader cone: %d bytes (%s in %s); floor < 4 KiB' % biggest, None,
             key='LOAD|P0|frame-size')
    ctx.samples = [i for i in ctx.instances if i['rule'] in ('P1', 'P2', 'P3', 'P7')][:20]
