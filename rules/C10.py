"""C10 - user data is attached to the entity it follows: the attachment state machine read off the MIR.

State = ParseInfo.user_data_context.  (a) per chunk kind (arm of `match chunk_type` in parse_frame) the effect
on the state, (b) per state (arm of `match user_data_context` in add_user_data) the entity written.
"""
import q
import effects
import common
from q import res, is_param, is_param_path, field_path, strip_casts, show, alts, walk, expand
from terms import payload

PF = 'asefile::parse::parse_frame'
PI = 'asefile::parse::ParseInfo::'
CTX = 'user_data_context'
UDC = 'asefile::parse::UserDataContext'

NO_CTX_WRITE = ['Palette', 'ColorProfile', 'ExternalFiles', 'Tileset', 'CelExtra', 'Mask', 'Path']


def layout_bits(ty):
    import layout as _l
    return _l.INT_BITS.get(ty, 64)


def switch_variants(body, sw):
    """{value: variant name} for a switch on an enum discriminant"""
    t = body.blocks[sw]['term']
    d = t['discr']
    if d['k'] not in ('copy', 'move'):
        return {}
    l = d['p']['l']
    for bi in sorted(body.cfg.dom[sw], reverse=True):
        for st in reversed(body.blocks[bi]['stmts']):
            if st['k'] == 'assign' and st['p']['l'] == l and st['rv']['k'] == 'discr':
                return {v: n for n, v in st['rv']['variants']}
    return {}


def some_payload(t):
    """Some(x) -> x"""
    if t[0] == 'agg' and t[2] == 'Some':
        return dict(t[3]).get('0')
    return None


def ctx_variant(t):
    """Some(UserDataContext::V(payload)) -> (V, payload or None)"""
    p = some_payload(t)
    if p is not None and p[0] == 'agg' and p[1] == UDC:
        return p[2], dict(p[3]).get('0')
    return None, None


def run(ctx):
    fx = ctx.fx
    E = effects.get(fx)
    ctx.rules = ['S1 chunk arm -> context effect', 'S2 context -> entity written', 'S3 context writers', 'S4 init None',
                 'S5 user-data chunk flags', 'S6 accessors', 'S7 entities moved through validation', 'S8 entities born without a record']
    ctx.explanation = (
        'The attachment rule is a finite state machine whose transitions are match arms; the check reads the transition '
        'table off the MIR with an effect analysis (writes through &mut ParseInfo, local callees inlined) and compares it '
        'with the table the property states: which chunk kinds set which context (with the payload origin: layer/slice index '
        'taken before the push, cel id from the frame loop variable and the cel\'s own layer index after add_cel succeeded, '
        'tag index 0 only in frame 0, legacy palette unconditionally), that ignorable kinds and Palette/ColorProfile/'
        'ExternalFiles/Tileset do not touch the context, and per context which entity receives the record and nothing else. '
        'Also: no other writer of the context exists in the crate, it starts as None, text/colour are read only under their '
        'flag bits, accessors return the written field, and validation moves the entities without dropping user data. '
        'Holds for every chunk sequence because each transition is decided for every arm, not for sampled sequences.')
    b = ctx.anchor(PF)
    if b is None:
        return
    pi_idx = None
    for i in range(1, b.arg_count + 1):
        if b.locals[i]['ty'].replace(' ', '') == '&mutparse::ParseInfo':
            pi_idx = i
    fr_idx = None
    for i in range(1, b.arg_count + 1):
        if b.locals[i]['ty'] == 'u16':
            fr_idx = i
    if pi_idx is None or fr_idx is None:
        ctx.fail(PF + '|S1|signature', 'parse_frame no longer has (&mut ParseInfo, u16 frame id) parameters')
        return

    # ---------- S1
    arms = common.dispatch_arms(b)
    if arms is None:
        ctx.fail(PF + '|S1|no-dispatch', 'parse_frame: no match on ChunkType found')
        return
    sw = arms[0][3]
    tm = b.blocks[sw]['term']
    arm_of = {}
    region_of = {}
    for kind_, s_, reg_, _ in arms:
        k_ = (s_, tuple(sorted(reg_)))
        arm_of.setdefault(k_, []).append(kind_)
        region_of[k_] = reg_
    ctx.floor('chunk kinds dispatched', sum(len(v) for v in arm_of.values()), 14)
    ctx.inst('S1', 'dispatch#otherwise', b.blocks[tm['otherwise']]['term']['k'] == 'unreachable',
             'match chunk_type is exhaustive (otherwise edge is unreachable)', tm['span'], key=PF + '|S1|exhaustive')

    def arm_writes(k_):
        reg = region_of[k_]
        ws = [w for w in E.writes(b, blocks=reg) if effects.root_of(w[0])[0] == pi_idx]
        return reg, ws

    for k_, kinds in sorted(arm_of.items()):
        s = k_[0]
        reg, ws = arm_writes(k_)
        cw = [w for w in ws if effects.root_of(w[0])[1] == [CTX]]
        span = b.blocks[s]['term'].get('span') if b.blocks[s]['term'] else tm['span']
        for w in cw:
            inner = w[3]
            ib = fx.body(inner[0])
            if ib is not None and ib is not b and not set(kinds) & {'Tags'}:
                okm = q.must_pass(ib, 0, inner[1])
                # .. and the call that leads there is itself on every successful path through the arm (seed C10-p: `if let Some(slice) =
                # parse_chunk(..)? { add_slice(slice) }` - a key-less slice left the context on the entity before it)
                import callgraph as _CG
                g_ = _CG.get(fx)
                cs_ = []
                for c_ in q.calls(b):
                    lb_ = c_.local_body()
                    if c_.bb in reg and lb_ is not None and (lb_.name == inner[0] or ib.path in g_.cone([lb_.path])):
                        cs_.append(c_)
                oka = bool(cs_) and not any(common.arm_bypass(b, s, reg, c_.bb) for c_ in cs_)
                okm = okm and oka
                ctx.inst('S1', '%s#always' % '/'.join(kinds), okm, 'context write in %s happens %s' % (inner[0].split('::')[-1],
                         'on every successful path' if okm else 'ONLY ON SOME PATHS'), inner[2], key='%s|S1|%s|always' % (PF, '/'.join(kinds)))
        for kind in kinds:
            key = '%s|S1|%s' % (PF, kind)
            if kind in NO_CTX_WRITE:
                ctx.inst('S1', kind, not cw, '%s chunk: %s' % (kind, 'does not touch the attachment context' if not cw else
                         'WRITES the attachment context: %s' % [show(w[1]) for w in cw]), span, key=key)
                if kind in ('CelExtra', 'Mask', 'Path'):
                    ctx.inst('S1', kind + '#pure', not ws, '%s chunk: %s' % (kind, 'no write to parser state' if not ws else
                             'writes parser state %s' % [effects.path_str(w[0]) for w in ws]), span, key=key + '|pure')
                continue
            if kind in ('OldPalette04', 'OldPalette11'):
                ok = len(cw) == 1 and ctx_variant(cw[0][1])[0] == 'OldPalette'
                uncond = False
                if ok:
                    wbb = cw[0][3][1]
                    inner = [g for g in q.guards(b, wbb) if g[2] in reg]
                    uncond = not inner and cw[0][3][0] == b.name
                ctx.inst('S1', kind, ok and uncond, '%s chunk: context := %s, %s' % (
                    kind, [show(w[1]) for w in cw], 'unconditionally' if uncond else 'NOT unconditionally (guarded inside the arm)'),
                    span, key=key)
                continue
            if kind in ('Layer', 'Slice'):
                vec = 'layers' if kind == 'Layer' else 'slices'
                want_v = 'LayerIndex' if kind == 'Layer' else 'SliceIndex'
                decoder = 'asefile::layer::parse_chunk' if kind == 'Layer' else 'asefile::slice::parse_chunk'
                pushes = [w for w in ws if w[2] == 'push' and effects.root_of(w[0])[1] == [vec]]
                ok = len(cw) == 1 and len(pushes) == 1
                detail = 'context writes %s, pushes %d' % ([show(w[1]) for w in cw], len(pushes))
                if ok:
                    v, pl = ctx_variant(cw[0][1])
                    idx = strip_casts(pl) if pl is not None else None
                    ok = (v == want_v and idx is not None and idx[0] == 'call' and idx[1] == 'std::vec::Vec::len'
                          and effects.root_of(idx[2][0]) == (pi_idx, [vec]))
                    # the index is kept at no less than 32 bits: slices are not capped at 65536, a 16-bit context index would hand the
                    # record after slice 65536 to slice 0 (seed C10-k)
                    from terms import casts_on as _casts_on
                    # (layers are capped at 65536 before the sprite is returned, so 16 bits do for a layer index)
                    narrow = [c_ for c_ in _casts_on(pl)[0] if layout_bits(c_[1]) < (16 if kind == 'Layer' else 32)] if pl is not None else []
                    if ok and narrow:
                        ok = False
                        detail = 'the context index is narrowed by %s' % narrow
                    if ok:
                        # the length must be taken before the push (same callee body: dominance of sites)
                        len_site = idx[3]
                        push_site = pushes[0][3]
                        hb = fx.body(len_site[0])
                        ok = (hb is not None and push_site[0] == len_site[0]
                              and hb.cfg.dominates(len_site[1], push_site[1]) and len_site[1] != push_site[1]
                              or (hb is not None and push_site[0] == len_site[0] and len_site[1] == push_site[1] and False))
                        if hb is not None and push_site[0] == len_site[0] and not ok:
                            # len() call block strictly precedes push block?
                            ok = hb.cfg.dominates(len_site[1], push_site[1]) and not hb.cfg.dominates(push_site[1], len_site[1])
                        detail = 'context := %s(len(%s)) with len taken at bb%s, push at bb%s' % (v, vec, len_site[1], push_site[1])
                    pv = pushes[0][1]
                    okp = pv[0] == 'call' and pv[1] == decoder
                    ctx.inst('S1', kind + '#pushed', okp, '%s chunk pushes %s (must be the chunk decoded by %s)'
                             % (kind, show(pv), decoder.split('::')[-2] + '::parse_chunk'), span, key=key + '|pushed')
                ctx.inst('S1', kind, ok, '%s chunk: %s; expected context := %s(index of the new %s = len before push)'
                         % (kind, detail, want_v, kind.lower()), span, key=key)
                continue
            if kind == 'Cel':
                ok = len(cw) == 1
                detail = str([show(w[1]) for w in cw])
                if ok:
                    v, pl = ctx_variant(cw[0][1])
                    ok = v == 'CelId' and pl is not None and pl[0] == 'agg'
                    if ok:
                        fr = dict(pl[3]).get('frame')
                        ly = dict(pl[3]).get('layer')
                        base, ns = field_path(ly)
                        ok = (is_param(fr, fr_idx) and ns == ['data', 'layer_index'] and base[0] == 'call'
                              and base[1] == 'asefile::cel::parse_chunk')
                        detail = 'CelId{frame: %s, layer: %s}' % (show(fr), show(ly))
                    # set only after framedata.add_cel(..)? succeeded
                    site = cw[0][3]
                    hb = fx.body(site[0])
                    after = False
                    if hb is not None:
                        for cond, vals, a in q.guards(hb, site[1]):
                            if cond[0] == 'discr' and cond[1][0] == 'try' and any(
                                    x[0] == 'call' and x[1] == 'asefile::cel::CelsData::add_cel' for x in walk(cond)) and vals == [0]:
                                after = True
                    ctx.inst('S1', 'Cel#after-add', after, 'cel context is set %s framedata.add_cel(..)? succeeded'
                             % ('only after' if after else 'NOT only after'), span, key=key + '|after-add_cel')
                ctx.inst('S1', kind, ok, 'Cel chunk: context := %s; expected CelId{frame: frame loop variable, layer: the cel\'s own '
                         'layer index}' % detail, span, key=key)
                continue
            if kind == 'Tags':
                ok = len(cw) == 1 and ctx_variant(cw[0][1])[0] == 'TagIndex' and q.const_val(ctx_variant(cw[0][1])[1]) == 0
                tw = [w for w in ws if effects.root_of(w[0])[1] == ['tags']]
                guarded = False
                if ok and tw:
                    # the call chain's outermost site is in parse_frame: guarded by frame_id == 0
                    outer = cw[0][3][-1] if len(cw[0][3]) > 3 else cw[0][3]
                    obb = outer[1] if outer[0] == b.name else None
                    if obb is not None:
                        for cond, vals, a in q.guards(b, obb):
                            if a in reg and cond[0] == 'bin' and cond[1] == 'Eq' and is_param(strip_casts(cond[2]), fr_idx) \
                                    and q.const_val(cond[3]) == 0 and q.bool_outcome(b, a, vals) is True:
                                guarded = True
                            if a in reg and cond[0] == 'bin' and cond[1] == 'Ne' and is_param(strip_casts(cond[2]), fr_idx) \
                                    and q.const_val(cond[3]) == 0 and q.bool_outcome(b, a, vals) is False:
                                guarded = True
                    same = tw[0][3][-1] == cw[0][3][-1] if len(tw[0][3]) > 3 and len(cw[0][3]) > 3 else False
                    ctx.inst('S1', 'Tags#tags-replaced', same, 'tags vector is replaced in the same guarded call as the context write',
                             span, key=key + '|same-block')
                ctx.inst('S1', kind, ok and guarded, 'Tags chunk: context := %s, %s' % (
                    [show(w[1]) for w in cw], 'only under frame_id == 0' if guarded else 'NOT restricted to frame 0'), span, key=key)
                continue
            if kind == 'UserData':
                ok = len(cw) == 1
                detail = str([show(w[1]) for w in cw])
                if ok:
                    v, pl = ctx_variant(cw[0][1])
                    ok = (v == 'TagIndex' and pl is not None and pl[0] == 'bin' and pl[1] == 'Add' and q.const_val(pl[3]) == 1)
                    if ok:
                        base, ns = field_path(pl[2])
                        # (ctx as TagIndex).0
                        ok = pl[2][0] == 'field' and pl[2][2] == '0' and pl[2][1][0] == 'variant' and pl[2][1][2] == 'TagIndex' \
                            and effects.root_of(pl[2][1][1]) == (pi_idx, [CTX])
                ctx.inst('S1', kind, ok, 'UserData chunk: context effect %s; expected only TagIndex(i) -> TagIndex(i+1)' % detail,
                         span, key=key)
                continue
            ctx.inst('S1', kind, False, 'chunk kind %s is not in the transition table' % kind, span, key=key)

    # ---------- S2: add_user_data
    a = ctx.anchor(PI + 'add_user_data')
    if a is not None:
        sws = [s for s in q.switches_on(a, lambda d: d[0] == 'discr') if 'OldPalette' in switch_variants(a, s).values()]
        if len(sws) != 1:
            ctx.fail(a.name + '|S2|no-match', 'add_user_data: expected one match on the context, found %d' % len(sws))
        else:
            sw2 = sws[0]
            d = q.switch_cond(a, sw2)
            ok = effects.root_of(d[1]) == (1, [CTX])
            ctx.inst('S2', 'add_user_data#subject', ok, 'matches on %s (must be self.user_data_context)' % show(d[1]),
                     a.blocks[sw2]['term']['span'], key=a.name + '|S2|subject')
            # None -> Err: the ok_or_else(..)? on the context dominates the match
            import totality as _T
            req = _T.option_required(a, lambda x: effects.root_of(x) == (1, [CTX]))
            none_ok = any(a.cfg.dominates(r_, sw2) for r_ in req)
            ctx.inst('S2', 'None', none_ok, 'context None -> %s' % ('Err before the match (ok_or_else(..)? / let-else / is_none test), no write' if none_ok else 'NOT rejected'),
                     a.span, key=a.name + '|S2|None')
            names2 = switch_variants(a, sw2)
            tm2 = a.blocks[sw2]['term']
            want = {
                'CelId': [['framedata', '[]', 'user_data']],
                'LayerIndex': [['layers', '[]', 'user_data']],
                'OldPalette': [['sprite_user_data']],
                'TagIndex': [['tags', '[]', 'user_data'], [CTX]],
                'SliceIndex': [['slices', '[]', 'user_data']],
            }
            seen = set()
            for v, s in tm2['targets']:
                nm = names2.get(v, str(v))
                seen.add(nm)
                reg = q.edge_region(a, sw2, s)
                ws = [w for w in E.writes(a, blocks=reg) if effects.root_of(w[0])[0] == 1]
                paths = sorted(effects.root_of(w[0])[1] for w in ws)
                ok = nm in want and paths == sorted(want[nm])
                # every expected write must happen on every successful path through the arm (and through the callee that performs it)
                for w in ws:
                    inner = w[3]
                    ib = fx.body(inner[0])
                    okm = ib is not None and q.must_pass(ib, 0 if ib is not a else s, inner[1])
                    if okm and len(inner) > 3:
                        outer = inner[-1]
                        okm = outer[0] == a.name and q.must_pass(a, s, outer[1])
                    ctx.inst('S2', nm + '#always', okm, 'the write to %s in %s happens %s' % (effects.path_str(w[0]), inner[0].split('::')[-1],
                             'on every successful path' if okm else 'ONLY ON SOME PATHS (a record can be dropped or the state not advanced)'), inner[2],
                             key='%s|S2|%s|always|%s' % (a.name, nm, '.'.join(effects.root_of(w[0])[1])))
                ctx.inst('S2', nm, ok, 'context %s: writes %s; expected exactly %s' % (nm, paths, want.get(nm)),
                         a.blocks[s]['term'].get('span') if a.blocks[s]['term'] else a.span, key='%s|S2|%s' % (a.name, nm))
                for w in ws:
                    path = effects.root_of(w[0])[1]
                    if path[-1] == 'user_data':
                        val = some_payload(w[1])
                        okv = val is not None and is_param(val) and (val[2] == 'user_data' or True) and val[1] == 2
                        ctx.inst('S2', nm + '#value', okv, 'stores %s (must be Some(the decoded record))' % show(w[1]),
                                 w[3][2], key='%s|S2|%s|value' % (a.name, nm))
                        # the element index is the context payload
                        idxs = [x for x in walk(w[0]) if x[0] == 'call' and x[1] in effects.LOC_THROUGH and effects.LOC_THROUGH[x[1]]
                                or x[0] == 'call' and x[1].endswith('::cel_mut')]
                        if nm != 'OldPalette':
                            good = False
                            for x in idxs:
                                ia = strip_casts(x[2][1]) if len(x[2]) > 1 else None
                                if ia is not None and ia[0] == 'field' and ia[2] == '0' and ia[1][0] == 'variant' and ia[1][2] == nm \
                                        and effects.root_of(ia[1][1]) == (1, [CTX]):
                                    good = True
                            ctx.inst('S2', nm + '#index', good, 'entity index of the write %s %s the context payload'
                                     % (show(w[0])[:160], 'is' if good else 'is NOT'), w[3][2], key='%s|S2|%s|index' % (a.name, nm))
            ctx.floor('context cases', len(seen), 5)

    # ---------- S3: writers of the context in the whole crate
    writers = []
    for body in fx.bodies:
        if body.kind == 'promoted':
            continue
        for bi, blk in enumerate(body.blocks):
            if blk['cleanup'] or bi not in body.cfg.reach:
                continue
            for st in blk['stmts']:
                if st['k'] == 'assign':
                    fl = [e for e in st['p']['p'] if e['k'] == 'field']
                    if fl and fl[-1]['n'] == CTX and st['p']['p'][-1] is fl[-1]:
                        writers.append((body.name, st.get('span')))
                        if body.name == PF and not any(bi in reg_ for _, _, reg_, _ in arms):
                            # a write in parse_frame that belongs to no chunk kind (seed C10-h: reset per frame, which
                            # detaches a record that opens the next frame from the entity that closed the previous one)
                            ctx.inst('S3', 'parse_frame#outside-dispatch', False, 'parse_frame writes user_data_context outside every arm of the '
                                     'chunk-type dispatch: the attachment state must change only as the effect of a chunk', st.get('span'),
                                     key=PF + '|S3|outside-dispatch')
    allowed = {PI + 'add_cel', PI + 'add_layer', PI + 'add_tags', PI + 'set_tag_user_data', PI + 'add_slice', PF}
    ctx.floor('context write sites', len(writers), 5)
    for w, sp in writers:
        ctx.inst('S3', w, w in allowed, 'writes user_data_context (%s)' % ('a listed transition' if w in allowed else
                 'NOT a listed transition: a new writer of the attachment state'), sp, key=ctx.key(w, 'S3', 'writer', ''))

    # ---------- S4: initial state
    nb = ctx.anchor(PI + 'new')
    if nb is not None:
        aggs = q.stmt_aggs(nb, 'asefile::parse::ParseInfo')
        ctx.floor('ParseInfo aggregates', len(aggs), 1)
        for bb, st, t in aggs:
            v = dict(t[3]).get(CTX)
            ok = v is not None and v[0] == 'agg' and v[2] == 'None'
            ctx.inst('S4', 'ParseInfo::new', ok, 'initial context = %s (must be None)' % show(v), st['span'], key=nb.name + '|S4')
    # all ParseInfo aggregates anywhere
    for body in fx.bodies:
        if body.name != PI + 'new' and q.stmt_aggs(body, 'asefile::parse::ParseInfo'):
            ctx.inst('S4', body.name, False, 'constructs a ParseInfo outside ParseInfo::new', body.span, key=body.name + '|S4|extra')

    # the k-th record after a tags chunk goes to the k-th tag *the chunk lists*: nothing reorders the tag vector between decoding and
    # attachment (seed C10-j sorted the tags by start frame in add_tags)
    import C01 as _c01
    _c01.no_reordering(ctx, 'S2', elem_types=('tags::Tag', 'parse::Chunk'))     # .. and the chunks of a frame are dispatched in file order (seed C10-m sorted them)

    # a cel that received its record is not dropped afterwards: the frame's cel row only ever grows (seed C10-l removed the guard around
    # resize_with, which also truncates)
    import render as _render
    _render.cel_rows_grow_only(ctx, rule='S7')

    # whose record `Cel::user_data` reports is decided by which cel a route denotes: the three routes build CelId{frame, layer} from their
    # own (frame, layer) un-swapped (C19's rules, as S6; seed C10-n transposed the arguments of AsepriteFile::cel)
    import C19 as _c19
    import rule as _R19
    _c19.run(_R19.View(ctx, {'R1': 'S6', 'R2': 'S6', 'R3': 'S6', 'R4': 'S6', 'R5': 'S6', 'R6': 'S6'}))

    # ---------- S8: entities are born without a record ("entities without a record report none")
    # every aggregate with a user_data slot is built with None there, or moves the slot of the value it replaces (validation);
    # a record fabricated from anything else (seed C10-g: the legacy tag colour) is reported by the accessor as user data
    nborn = 0
    for body in fx.bodies:
        if body.kind == 'promoted' or body.name.startswith('asefile::<') and ' as std::clone::Clone>' in body.name:
            continue
        for bb, st, t in q.stmt_aggs(body):
            if not t[1].startswith('asefile::'):
                continue
            for fname, v in t[3]:
                if fname not in ('user_data', 'sprite_user_data'):
                    continue
                nborn += 1
                va = alts(v)
                def fine(x):
                    if x[0] == 'agg' and x[2] == 'None':
                        return True
                    _base, names = field_path(x)
                    return bool(names) and names[-1] in ('user_data', 'sprite_user_data')
                ok = all(fine(x) for x in va)
                ctx.inst('S8', '%s{%s}' % (t[1].split('::')[-1], fname), ok, '%s builds %s with %s = %s; must be None (or the moved slot of the value it replaces)'
                         % (body.name.split('asefile::')[-1], t[1].split('::')[-1], fname, show(v)[:80]), st.get('span'),
                         key=ctx.key(body.name, 'S8', t[1].split('::')[-1], fname))
    ctx.floor('aggregates with a user-data slot', nborn, 6)

    # ---------- S5: user data chunk layout flags
    u = ctx.anchor('asefile::user_data::parse_userdata_chunk')
    if u is not None:
        def flag_guard(bb, mask):
            for cond, vals, a_ in q.guards(u, bb):
                if cond[0] == 'bin' and cond[1] in ('Ne', 'Eq') and cond[2][0] == 'bin' and cond[2][1] == 'BitAnd' \
                        and common.is_read(cond[2][2], ('dword',)) and q.const_val(cond[2][3]) == mask:
                    taken_set = (cond[1] == 'Ne') == (q.bool_outcome(u, a_, vals) is True) if q.const_val(cond[3]) == 0 else \
                        (cond[1] == 'Eq') == (q.bool_outcome(u, a_, vals) is True)
                    if taken_set:
                        return True
            return False
        # the layout comparison decides "text only under flags & 1, colour only under flags & 2" for every spelling the schedule
        # understands (if / match / cond.then(|| ..)); the CFG rule below is kept for reads made directly in this body
        import layout as _layout
        import spec as _SP
        _layout.check_layout(ctx, _SP.load_spec(), u.name, 'USER_DATA', rule='S5')
        import C01 as _c01s
        _c01s.reader_string(ctx, 'S5')          # the record's text is the bytes the chunk stores, all of them (seed C10-r trimmed trailing NULs)
        import invariants as _inv13
        ok13_, why13_ = _inv13.Inv(ctx).get('I13')      # a record of layer 0's cel must not show up as that of layer 65536 (seed C10-s dropped the cap)
        ctx.inst('S6', 'layer ids fit u16', ok13_, why13_, None, key='asefile::layer::LayersData::from_vec|S6|I13')
        strs = q.calls(u, common.READER + 'string')
        for c in strs:
            ok = flag_guard(c.bb, 1)
            ctx.inst('S5', 'text', ok, 'text is read %s flags & 1' % ('only under' if ok else 'NOT under'), c.span, key=u.name + '|S5|text')
        bys = q.calls(u, common.READER + 'byte')
        for c in bys:
            ok = flag_guard(c.bb, 2)
            ctx.inst('S5', 'color', ok, 'colour byte is read %s flags & 2' % ('only under' if ok else 'NOT under'), c.span,
                     key=ctx.key(u.name, 'S5', 'color', ''))
        rt = res(u).ok_ret()
        ok = rt[0] == 'agg' and rt[2] == 'UserData'
        if ok:
            f = dict(rt[3])
            ta = alts(q.expand(f['text'], fx, 2, _layout.noinl(fx)))
            ca = alts(q.expand(f['color'], fx, 2, _layout.noinl(fx)))
            def text_alt(x):
                # Some(string read); the Some wrapper may have been erased when the value passed through `transpose()?`
                if x[0] == 'agg' and x[2] == 'None':
                    return 'None'
                pl = some_payload(x) if x[0] == 'agg' and x[2] == 'Some' else x
                return 'Some' if pl is not None and common.is_read(pl, ('string',)) else '?'
            ok_t = sorted(text_alt(x) for x in ta) == ['None', 'Some']
            ok_c = sorted(x[2] if x[0] == 'agg' else '?' for x in ca) == ['None', 'Some']
            rg = [some_payload(x) for x in ca if some_payload(x) is not None]
            if ok_c and rg:
                arr = dict(rg[0][3]).get('0') if rg[0][0] == 'agg' else None
                ok_c = arr is not None and arr[0] == 'array' and len(arr[1]) == 4 and all(common.is_read(x, ('byte',)) for x in arr[1])
                if ok_c:
                    hb = u
                    sites = [x[3][1] for x in arr[1]]
                    ok_c = all(hb.cfg.dominates(sites[i], sites[i + 1]) and sites[i] != sites[i + 1] for i in range(3))
            ctx.inst('S5', 'UserData#text', ok_t, 'UserData.text = %s (Some(string read) | None)' % show(f['text']), u.span, key=u.name + '|S5|agg-text')
            ctx.inst('S5', 'UserData#color', ok_c, 'UserData.color = %s (Some(Rgba([r,g,b,a] in read order)) | None)' % show(f['color'])[:200],
                     u.span, key=u.name + '|S5|agg-color')
        else:
            ctx.inst('S5', 'UserData', False, 'parse_userdata_chunk returns %s' % show(rt)[:200], u.span, key=u.name + '|S5|agg')

    # ---------- S6 accessors
    acc = {
        'asefile::layer::Layer::user_data': ['user_data'],
        'asefile::tags::Tag::user_data': ['user_data'],
        'asefile::file::AsepriteFile::sprite_user_data': ['sprite_user_data'],
        'asefile::cel::Cel::user_data': ['user_data'],
    }
    for fn, last in acc.items():
        ab = ctx.anchor(fn)
        if ab is None:
            continue
        t = expand(res(ab).ret(), fx, 2)
        oks = []
        for x in alts(t):
            if x[0] == 'agg' and x[2] == 'None':
                continue
            base, ns = field_path(x)
            oks.append(ns[-1:] == last)
        ok = bool(oks) and all(oks)
        ctx.inst('S6', fn, ok, 'returns %s; must be the %s field of the entity' % (show(t)[:200], last[0]), ab.span, key=fn + '|S6')

    # ---------- S7 moved through validation
    rv = ctx.anchor('asefile::cel::RawCel::validate')
    if rv is not None:
        aggs = q.stmt_aggs(rv, 'asefile::cel::RawCel')
        ctx.floor('RawCel aggregates in RawCel::validate', len(aggs), 1)
        for bb, st, t in aggs:
            v = dict(t[3]).get('user_data')
            ok = v is not None and is_param_path(v, 1, ['user_data'])
            ctx.inst('S7', 'RawCel::validate', ok, 'validated cel keeps user_data = %s (must be self.user_data)' % show(v), st['span'],
                     key=rv.name + '|S7|user_data')
    pv = ctx.anchor(PI + 'validate')
    if pv is not None:
        aggs = q.stmt_aggs(pv, 'asefile::parse::ValidatedParseInfo')
        ctx.floor('ValidatedParseInfo aggregates', len(aggs), 1)
        for bb, st, t in aggs:
            f = dict(t[3])
            for name in ('slices', 'sprite_user_data'):
                ok = is_param_path(f.get(name), 1, [name])
                ctx.inst('S7', 'ParseInfo::validate#' + name, ok, '%s = %s (must be self.%s)' % (name, show(f.get(name)), name), st['span'],
                         key='%s|S7|%s' % (pv.name, name))
            tg = f.get('tags')
            ok = tg is not None and any(is_param_path(x, 1, ['tags']) for x in walk(tg))
            ctx.inst('S7', 'ParseInfo::validate#tags', ok, 'tags = %s (must be self.tags)' % show(tg), st['span'], key=pv.name + '|S7|tags')
            ly = f.get('layers')
            ok = ly is not None and ly[0] == 'call' and ly[1] == 'asefile::layer::LayersData::from_vec' and is_param_path(ly[2][0], 1, ['layers'])
            ctx.inst('S7', 'ParseInfo::validate#layers', ok, 'layers = %s (must be from_vec(self.layers))' % show(ly), st['span'],
                     key=pv.name + '|S7|layers')
            fd = f.get('framedata')
            ok = fd is not None and fd[0] == 'call' and fd[1] == 'asefile::cel::CelsData::validate' and is_param_path(fd[2][0], 1, ['framedata'])
            ctx.inst('S7', 'ParseInfo::validate#framedata', ok, 'framedata = %s (must be self.framedata.validate(..))' % show(fd)[:160], st['span'],
                     key=pv.name + '|S7|framedata')
    fv = ctx.anchor('asefile::layer::LayersData::from_vec')
    if fv is not None:
        for bb, st, t in q.stmt_aggs(fv, 'asefile::layer::LayersData'):
            ok = is_param(dict(t[3]).get('layers'), 1)
            ctx.inst('S7', 'LayersData::from_vec', ok, 'LayersData.layers = %s (must be the input vector)' % show(dict(t[3]).get('layers')),
                     st['span'], key=fv.name + '|S7')
    ra = ctx.anchor('asefile::parse::read_aseprite')
    if ra is not None:
        aggs = q.stmt_aggs(ra, 'asefile::file::AsepriteFile')
        ctx.floor('AsepriteFile aggregates', len(aggs), 1)
        for bb, st, t in aggs:
            f = dict(t[3])
            for name in ('layers', 'tags', 'slices', 'sprite_user_data', 'framedata'):
                v = f.get(name)
                base, ns = field_path(v) if v is not None else (None, [])
                ok = ns == [name] and base is not None and base[0] == 'call' and base[1] == PI + 'validate'
                ctx.inst('S7', 'read_aseprite#' + name, ok, 'AsepriteFile.%s = %s (must be the like-named field of ParseInfo::validate\'s result)'
                         % (name, show(v)[:120]), st['span'], key='%s|S7|%s' % (ra.name, name))
    ctx.samples = [i for i in ctx.instances if i['rule'] in ('S1', 'S2')][:20]
