"""Second accepted spelling of layer::compute_parents: an explicit backwards search loop

    for (id, layer) in layers.iter().enumerate() {
        let mut parent = None;
        if level != 0 {
            for candidate in (0..id).rev() { if layers[candidate].child_level < level { parent = Some(candidate); break; } }
            if parent.is_none() { return Err(..) }
        }
        result.push(parent);
    }

loop_form(fx) -> None if the function is not of this shape, else the four facts the rposition form yields:
  lt_index          every Some(..) payload is the variable of a loop over 0..id            (parents[i] < i)
  nearest_smaller   descending loop, Some(candidate) set only under layers[candidate].level < own level, and the loop is left at
                    once (first match wins)                                                (nearest preceding smaller level)
  none_iff_level0   the initial None survives to the push only on the level == 0 path; on the level != 0 path the push is
                    dominated by `parent.is_none() -> Err`
  whole             one push per iteration of a loop over the whole slice, no early exit
"""
import q
import totality as T
from q import res, is_param, strip_casts, show, alts, walk

FN = 'asefile::layer::compute_parents'


def loop_form(fx):
    b = fx.body(FN)
    if b is None:
        return None
    ps = q.calls(b, 'std::vec::Vec::push')
    if len(ps) != 1:
        return None
    push = ps[0]
    L = b.cfg.loop_of(push.bb)
    if L is None:
        return None
    outer = max(b.cfg.loops_containing(push.bb), key=lambda x: len(x['body']))
    item = None
    for bi in sorted(outer['body']):
        cc = b.call_at(bi)
        if cc is not None and q.callee_name(cc) == 'std::iter::Iterator::next' and b.cfg.loop_of(bi)['header'] == outer['header']:
            it = q.unwrap_into_iter(q.arg_terms(cc)[0])
            if it[0] == 'call' and it[1] == 'std::iter::Iterator::enumerate' and any(is_param(x, 1) for x in walk(it)) and not any(
                    x[0] == 'call' and x[1].split('::')[-1] in ('take', 'skip', 'step_by', 'filter', 'rev') for x in walk(it)):
                item = ('next', q.arg_terms(cc)[0])
    if item is None:
        return None
    whole = all(b.cfg.dominates(push.bb, x) for x, _ in outer['back_edges']) and \
        all(k in ('exhausted', 'err', 'unreachable') for _, _, k in q.loop_exit_kinds(b, outer))
    val = q.arg_terms(push)[1]
    somes = [a for a in alts(val) if a[0] == 'agg' and a[2] == 'Some']
    nones = [a for a in alts(val) if a[0] == 'agg' and a[2] == 'None']
    if not somes or len(somes) + len(nones) != len(alts(val)):
        return None
    idx = ('field', item, '0')
    own = ('field', ('field', item, '1'), 'child_level')
    out = {'whole': whole, 'lt_index': True, 'nearest_smaller': True, 'none_iff_level0': False, 'detail': []}
    inner_loops = [x for x in b.cfg.loops if x['header'] != outer['header'] and x['header'] in outer['body']]
    for sm in somes:
        cand = strip_casts(dict(sm[3])['0'])
        rng = None
        rev = False
        if cand[0] == 'next':
            it = q.unwrap_into_iter(cand[1])
            if it[0] == 'call' and it[1] == 'std::iter::Iterator::rev':
                rev = True
                it = q.unwrap_into_iter(it[2][0])
            if it[0] == 'agg' and it[1] == 'std::ops::Range':
                f = dict(it[3])
                if q.const_val(f['start']) == 0 and strip_casts(f['end']) == idx:
                    rng = it
        if rng is None:
            return None
        # the definition(s) of this Some: guard and first-match exit
        ok_pred = False
        for (l, pj, t, bb, sp) in q.defs_in(b, b.cfg.reach):
            if t != sm or pj:
                continue
            inner = [x for x in inner_loops if any(a in x['body'] for c_, v_, a in q.guards(b, bb))]
            guard = False
            for cond, vals, a in q.guards(b, bb):
                for op, l_, r_ in q.holds_both(cond, q.bool_outcome(b, a, vals)):
                    if op == 'Lt' and r_ == own and l_[0] == 'field' and l_[2] == 'child_level':
                        e = l_[1]
                        base, ix = (e[1], e[2]) if e[0] == 'index' else ((e[2][0], e[2][1]) if e[0] == 'call' and e[1] == 'std::ops::Index::index' else (None, None))
                        if base is not None and is_param(base, 1) and strip_casts(ix) == cand:
                            guard = True
            first = bool(inner) and all(bb not in x['body'] for x in inner) and rev
            for x in inner:
                kinds = q.loop_exit_kinds(b, x)
                first = first and all(k in ('exhausted', 'unreachable') or y == bb for _, y, k in kinds)
            ok_pred = ok_pred or (guard and first)
            out['detail'].append('Some(%s) at bb%d: guard %s, leaves the descending loop at once %s' % (show(cand)[:40], bb, guard, first))
        out['nearest_smaller'] = out['nearest_smaller'] and ok_pred
    # None only on the level == 0 path
    for sw in q.switches_on(b, lambda d: d[0] == 'bin' and d[1] in ('Eq', 'Ne') and strip_casts(d[2]) == own and q.const_val(d[3]) == 0):
        d = q.switch_cond(b, sw)
        tm = b.blocks[sw]['term']
        zero_edge = [s_ for v_, s_ in tm['targets'] if v_ == 0] if d[1] == 'Ne' else [tm['otherwise']]
        nonzero = [s_ for s_ in b.cfg.succ[sw] if s_ not in zero_edge]
        if len(nonzero) != 1:
            continue
        reg = q.edge_region(b, sw, nonzero[0])
        req = [r_ for r_ in T.option_required(b, lambda x: set(alts(x)) == set(alts(val))) if r_ in reg]
        errb = q.error_blocks(b)
        def dead_end(s_):
            t_ = b.blocks[s_]['term']
            return bool(t_) and t_['k'] == 'unreachable' and not b.blocks[s_]['stmts']
        exits = [x for x in reg for s_ in b.cfg.succ[x] if s_ not in reg and x not in errb and not b.blocks[s_]['cleanup'] and not dead_end(s_)]
        ok = bool(req) and all(any(b.cfg.dominates(r_, x) for r_ in req) or q.arm_always_err(b, x) for x in exits)
        # and outside that region nothing but the initial None is assigned
        none_defs = [bb for (l, pj, t, bb, sp) in q.defs_in(b, b.cfg.reach) if t in nones and not pj]
        some_defs = [bb for (l, pj, t, bb, sp) in q.defs_in(b, b.cfg.reach) if t in somes and not pj]
        out['none_iff_level0'] = ok and all(x in reg for x in some_defs) and bool(none_defs)
        out['detail'].append('level != 0 region: is_none -> Err at %s, exits %s dominated: %s' % (req, exits, ok))
    return out
