"""Layout rules shared by C01 / C06 / C07 / C11: schedule-vs-spec comparison, read->field bindings,
field->getter bindings."""
import q
import spec as SP
import schedule
import callgraph as CG
from terms import expand, show, alts, walk, strip_casts, casts_on, payload, get_resolver, proj_field

NOINL = tuple(SP.NO_INLINE)
_NOINL_CACHE = {}


def noinl(fx, spec=None):
    """callees that are never inlined when expanding terms: reader primitives, pixel-size helpers, bitflags helpers,
    and the value decoders named by `via` in the spec table"""
    k = id(fx)
    if k not in _NOINL_CACHE:
        s = set(SP.NO_INLINE)
        for b in fx.bodies:
            if b.name.split('::')[-1] in ('from_bits_truncate', 'from_bits_retain', 'contains', 'bits'):
                s.add(b.name)
        sp = spec or SP.load_spec()
        for sn in sp['structures']:
            for node, _ in iter_fields(sp, sn):
                for st in node[2].get('store', []):
                    if ' via ' in st:
                        s.add(st.split(' via ')[1].split('#')[0])
        _NOINL_CACHE[k] = tuple(sorted(s))
    return _NOINL_CACHE[k]
INT_BITS = {'u8': 8, 'u16': 16, 'u32': 32, 'u64': 64, 'usize': 64, 'i8': 8, 'i16': 16, 'i32': 32, 'i64': 64, 'isize': 64,
            'u128': 128, 'i128': 128}


def value_preserving(frm, to):
    """an `as` cast that cannot change the numeric value"""
    if frm not in INT_BITS or to not in INT_BITS:
        return frm == to
    fs, ts = frm[0] == 'i', to[0] == 'i'
    fb, tb = INT_BITS[frm], INT_BITS[to]
    if fs == ts:
        return tb >= fb
    if not fs and ts:
        return tb > fb
    return False          # signed -> unsigned


def check_layout(ctx, spec, fn, sname, rule='L1'):
    """compare the decoder's labelled read sequences with the spec's; returns binding {site: (struct, name)}"""
    b = ctx.anchor(fn, 'decoder')
    if b is None:
        return {}, {}
    try:
        r = SP.compare(ctx.fx, b, spec, sname)
    except RuntimeError as e:
        ctx.fail('%s|%s|enumeration' % (fn, rule), 'cannot enumerate read paths of %s: %s' % (fn, e))
        return {}, {}
    ok = not r['missing'] and not r['extra'] and not r['conflicts'] and r['matched'] > 0
    what = '%s vs %s: %d code paths, %d spec paths, %d matched' % (fn.split('asefile::')[-1], sname, r['code_paths'],
                                                                    r['spec_paths'], r['matched'])
    detail = {}
    if not ok:
        cs = SP.code_signatures(ctx.fx, b)
        ss = SP.spec_signatures(spec, sname)
        lines = []
        for m in r['extra'][:3]:
            c, n = SP.closest(m, list(ss))
            lines.append('code reads   : %s  {%s}' % (SP.fmt_events(m[0]), SP.fmt_decisions(m[1])))
            if c is not None:
                lines.append('spec expects : %s  {%s}' % (SP.fmt_events(c[0]), SP.fmt_decisions(c[1])))
                if n < len(m[0]):
                    sites = cs[m][n] if n < len(cs[m]) else []
                    lines.append('first difference at event %d %s' % (n, ['%s' % (s[1],) for s in sites]))
        for m in r['missing'][:2]:
            lines.append('spec path with no code path: %s  {%s}' % (SP.fmt_events(m[0]), SP.fmt_decisions(m[1])))
        for cfl in r['conflicts'][:2]:
            lines.append('read site %s binds to two spec fields: %s / %s' % cfl)
        what += '; LAYOUT MISMATCH\n    ' + '\n    '.join(lines)
        detail = {'lines': lines}
    ctx.inst(rule, fn, ok, what, b.span, key='%s|%s|layout' % (fn, rule), detail=detail)
    ctx.extra.setdefault('paths_enumerated', 0)
    ctx.extra['paths_enumerated'] += r['code_paths']
    return r['binding'], r['spans']


def decoder_cone(fx, body):
    """bodies reachable from the decoder (helpers, closures), staying inside the crate"""
    g = CG.get(fx)
    return [fx.by_path[p] for p in sorted(g.cone([body.path])) if fx.by_path[p].kind != 'promoted']


def candidate_aggs(fx, body):
    """aggregate terms built by the decoder or its helpers: [(term, span, body)]"""
    out = []
    seen = set()
    for cb in decoder_cone(fx, body):
        for bb, st, t in q.stmt_aggs(cb):
            # `let mut s = S { a: None, .. }; if .. { s.a = Some(read) }`: the value that counts is the struct with its later field
            # assignments, not the initialiser alone
            r_ = get_resolver(cb)
            if not st['p']['p'] and any(pr and len(pr) == 1 and pr[0][0] == 'f' for pr, _, _, _ in r_.defs.get(st['p']['l'], [])) \
                    and sum(1 for pr, _, _, _ in r_.defs.get(st['p']['l'], []) if not pr) == 1:
                tl = r_.local(st['p']['l'])
                if tl[0] == 'agg' and tl[1] == t[1] and tl[2] == t[2]:
                    t = tl
            te = expand(t, fx, 3, noinl(fx))
            key = repr(te)
            if key not in seen:
                seen.add(key)
                out.append((te, st['span'], cb))
        rts = [expand(get_resolver(cb).ok_ret(), fx, 3, noinl(fx))]
        for c in q.calls(cb):
            lb = c.local_body()
            if lb is not None and lb.kind == 'fn' and lb.name not in noinl(fx):
                rts.append(expand(q.dest_term(c), fx, 3, noinl(fx)))
        for x in (y for rt in rts for y in walk(rt)):
            if isinstance(x, tuple) and x[0] == 'agg' and x[1] is not None:
                key = repr(x)
                if key not in seen:
                    seen.add(key)
                    out.append((x, cb.span, cb))
    return out


def adt_matches(t, want):
    """want: 'Struct' or 'Enum::Variant'"""
    adt, variant = t[1], t[2]
    if '::' in want:
        e, v = want.rsplit('::', 1)
        return adt.split('::')[-1] == e and variant == v
    return adt.split('::')[-1] == want and variant == want


def project(t, path):
    for name in path:
        ts = []
        for a in alts(t):
            a = payload(a) if (a[0] == 'agg' and a[2] in ('Some', 'Ok')) else a
            if a[0] == 'agg' and a[2] == 'None':
                continue
            if a[0] == 'array':
                try:
                    ts.append(a[1][int(name)])
                    continue
                except (ValueError, IndexError):
                    pass
            ts.append(proj_field(a, name))
        if not ts:
            return None
        from terms import mk_any
        t = mk_any(ts)
    return t


def is_read_term(t):
    return isinstance(t, tuple) and t[0] == 'call' and t[1].startswith(schedule.READER) and t[3] is not None


WRAPPERS = ('from_bits_truncate', 'from_bits_retain', 'std::num::NonZero::new', 'asefile::external_file::ExternalFileId::new',
            'asefile::tileset::TilesetId::from_raw')


def unwrap_value(t):
    """strip value-preserving wrappers; returns (inner, bad_casts)"""
    bad = []
    while True:
        if t[0] == 'cast':
            if not value_preserving(t[2], t[3]):
                bad.append((t[2], t[3]))
            t = t[1]
        elif t[0] == 'call' and any(t[1].endswith(w) or t[1] == w for w in WRAPPERS) and len(t[2]) == 1:
            t = t[2][0]
        elif t[0] == 'agg' and t[1] and t[1].split('::')[-1] in ('ExternalFileId', 'TilesetId', 'TileId') and len(t[3]) == 1:
            t = t[3][0][1]
        elif t[0] == 'agg' and t[2] in ('Some',):
            t = dict(t[3])['0']
        else:
            return t, bad


def check_stores(ctx, spec, fn, sname, binding, rule='L2'):
    """every spec field with opts.store reaches exactly that stored field (single origin, value-preserving)"""
    fx = ctx.fx
    b = fx.body(fn)
    if b is None:
        return 0
    cands = candidate_aggs(fx, b)
    n = 0
    for node, struct in iter_fields(spec, sname):
        opts = node[2]
        for st in opts.get('store', []):
            via = None
            argi = 0
            s = st
            if ' via ' in s:
                s, via = s.split(' via ')
                if '#' in via:
                    via, k = via.split('#')
                    argi = int(k) - 1
            parts = s.split('.')
            # 'Enum::Variant.field' or 'Struct.field.sub'
            want_adt = parts[0]
            path = parts[1:]
            matched = 0
            for t, span, cb in cands:
                if not adt_matches(t, want_adt):
                    continue
                ft = project(t, path)
                if ft is None:
                    continue
                # skip aggregates whose field does not stem from this structure at all (other decoders' instances)
                okall = True
                descr = []
                any_bound = False
                if cb is not b and any(unwrap_value(a)[0][0] == 'param' for a in alts(ft)):
                    # a helper's own parameter: judged where the helper is inlined into the decoder
                    continue
                inline_match = False
                if via is not None and fx.body(via) is None and all(a[0] == 'agg' and a[2] is not None and all(
                        is_read_term(unwrap_value(pv)[0]) for _, pv in a[3]) for a in alts(ft)):
                    # the value decoder has been written inline: the variants are built under a `match` on the bound read
                    for sw in q.switches_on(cb, lambda d: True):
                        inner_, bad_ = unwrap_value(q.switch_cond(cb, sw))
                        if is_read_term(inner_) and binding.get(inner_[3]) == (struct, node[1]) and not bad_:
                            inline_match = True
                if inline_match:
                    matched += 1
                    n += 1
                    ctx.inst(rule, '%s <- %s.%s' % (st, struct, node[1]), True,
                             'stored field %s in %s: one of %s chosen by a match on the read %s (value table judged by C15)'
                             % (s, cb.name.split('asefile::')[-1], sorted(a[2] for a in alts(ft)), node[1]), span, key=ctx.key(fn, rule, st, ''))
                    continue
                for a in alts(ft):
                    if a[0] == 'agg' and a[2] == 'None':
                        continue
                    inner, bad = unwrap_value(a)
                    if via is not None:
                        if inner[0] == 'call' and inner[1] == via and len(inner[2]) > argi:
                            inner, bad2 = unwrap_value(inner[2][argi])
                            bad += bad2
                        else:
                            okall = False
                            descr.append('not decoded by %s: %s' % (via.split('::')[-1], show(a)[:100]))
                            continue
                    if is_read_term(inner):
                        bnd = binding.get(inner[3])
                        if bnd is not None and bnd[1] == node[1] and bnd[0] == struct:
                            any_bound = True
                            if bad:
                                okall = False
                                descr.append('value-changing cast %s on the way from the read' % bad)
                            else:
                                descr.append('read %s@%s' % (node[1], inner[3][1]))
                        else:
                            okall = False
                            descr.append('comes from read of %s, not %s' % (bnd[1] if bnd else show(inner)[:60], node[1]))
                    else:
                        okall = False
                        descr.append('origin %s is not a single file read' % show(inner)[:100])
                matched += 1
                n += 1
                ctx.inst(rule, '%s <- %s.%s' % (st, struct, node[1]), okall and any_bound,
                         'stored field %s in %s: %s; must be exactly the %s field "%s" of %s'
                         % (s, cb.name.split('asefile::')[-1], '; '.join(descr) or 'no origin', node[0], node[1], struct), span,
                         key=ctx.key(fn, rule, st, ''))
            if matched == 0 and via is not None:
                # the value decoder builds the aggregate itself from its parameter: check both halves
                vb = fx.body(via)
                if vb is not None:
                    for bb_, st_, t_ in q.stmt_aggs(vb):
                        if adt_matches(t_, want_adt):
                            ft = project(t_, path)
                            okp = ft is not None and q.is_param(ft, argi + 1)
                            for c in [c for cb2 in decoder_cone(fx, b) for c in q.calls(cb2, via)]:
                                inner, bad = unwrap_value(q.arg_terms(c)[argi])
                                bnd = binding.get(inner[3]) if is_read_term(inner) else None
                                okc = bnd is not None and bnd == (struct, node[1]) and not bad
                                matched += 1
                                n += 1
                                ctx.inst(rule, '%s <- %s.%s' % (st, struct, node[1]), okp and okc,
                                         '%s builds %s from its parameter %d (%s) and is called with %s; must be the %s field "%s"'
                                         % (via.split('::')[-1], s, argi + 1, 'ok' if okp else show(ft), show(inner)[:80], node[0], node[1]),
                                         c.span, key=ctx.key(fn, rule, st, ''))
            if matched == 0:
                ctx.fail('%s|%s|%s|no-aggregate' % (fn, rule, st), 'no construction of %s found in %s or its helpers for spec field %s.%s '
                         '(table out of date, or the field is no longer stored)' % (s, fn, struct, node[1]))
    return n


def iter_fields(spec, sname):
    """(node, structure-name) for every used field node reachable in structure sname (sub-structures not followed)"""
    out = []

    def go(layout):
        for n in layout:
            if n[0] in ('B', 'W', 'S', 'D', 'L', 'STR'):
                out.append((n, sname))
            elif n[0] == 'if_flag':
                go(n[3])
            elif n[0] == 'loop':
                go(n[2])
            elif n[0] == 'match':
                for v in n[2].values():
                    go(v)
    go(spec['structures'][sname]['layout'])
    return out


def check_getters(ctx, spec, sname, rule='L3'):
    fx = ctx.fx
    n = 0
    for node, struct in iter_fields(spec, sname):
        opts = node[2]
        stores = opts.get('store', [])
        for g in opts.get('getter', []):
            gb = ctx.anchor(g, 'getter')
            if gb is None:
                continue
            want = stores[0].split(' via ')[0].split('.')[1:] if stores else []
            t = expand(get_resolver(gb).ret(), fx, 2)
            oks = []
            descr = []
            for a in alts(t):
                inner, bad = unwrap_value(a)
                base, names = q.field_path(inner)
                # root must be self (possibly through an index into a collection of self)
                rooted = any(q.is_param(x, 1) for x in walk(base))
                ok = rooted and names[-len(want):] == want and not bad
                oks.append(ok)
                descr.append(show(a)[:140] + (' [value-changing cast %s]' % bad if bad else ''))
            n += 1
            ctx.inst(rule, g, bool(oks) and all(oks), 'getter returns %s; must be the stored field .%s (spec field %s.%s)'
                     % (' | '.join(descr), '.'.join(want), struct, node[1]), gb.span, key='%s|%s' % (g, rule))
    return n


# constants that may legitimately appear in a repeat count (besides 0 and 1), with the reason
LOOP_CONSTS = {
    'asefile::palette::parse_old_chunk_04': ({256}, 'a packet count byte of 0 means 256 entries'),
    'asefile::palette::parse_old_chunk_11': ({256}, 'a packet count byte of 0 means 256 entries'),
}
LOOP_CALLS_OK = ('asefile::reader::AseReader::', 'std::ops::RangeInclusive::new', 'std::ops::Range', 'std::iter::IntoIterator::into_iter')


def loop_counts_exact(ctx, spec, rule='L1', only=None, floor=10):
    """every repeat count of a decoder is the file field(s) themselves: not clamped (min/max/clamp/saturating..), not scaled,
    no foreign constant - a clamped count decodes a *prefix* of the entries and silently drops the rest"""
    import schedule
    from q import walk, show
    fx = ctx.fx
    S = schedule.get(fx)
    n = 0
    for fn in sorted(spec['decoders']):
        b = fx.body(fn)
        if b is None or (only is not None and fn not in only):
            continue
        seen = set()
        try:
            paths = S.paths(b)
        except RuntimeError:
            continue          # reported by check_layout
        for path in paths:
            for it in path:
                if it[0] != 'D' or it[1] != 'loop' or it[2] in seen:
                    continue
                seen.add(it[2])
                n += 1
                cnt = q.expand(it[2], fx, 3, noinl(fx))        # see through crate-local helpers that merely hand the field on
                calls = sorted(x for x in schedule.calls_outside_reads(cnt) if not x.startswith(LOOP_CALLS_OK))
                allowed = LOOP_CONSTS.get(fn, (set(), ''))[0] | {0, 1}
                consts = sorted(set(schedule.consts_in(cnt)) - allowed)
                ok = not calls and not consts
                ctx.inst(rule, fn.split('asefile::')[-1] + '#count', ok, 'repeat count %s: %s' % (show(it[2])[:120], 'the declared field(s), unclamped' if ok else
                         'passes through %s / constants %s - entries beyond the altered count would be dropped or invented' % (
                             [c.split('::')[-1] for c in calls], consts)), None,
                         key='%s|%s|count|%d' % (fn, rule, len(seen)))
    ctx.floor('repeat counts examined', n, floor)


def tile_words(ctx, rule='L2'):
    """tile words of a tilemap cel are decoded with the masks of *this cel's* bitmask header: id = word & header.tile_id,
    flips = (word & header.x_flip / y_flip / rotate_90cw) != 0, for every 4-byte group of the inflated data, in order"""
    from q import walk, show, res, is_param, strip_casts, expand
    fx = ctx.fx
    FIELDS = {'id': 'tile_id', 'flip_x': 'x_flip', 'flip_y': 'y_flip', 'rotate_90cw': 'rotate_90cw'}
    n = 0
    for b in fx.bodies:
        if b.kind == 'promoted' or b.name == 'asefile::tile::EMPTY_TILE' or b.name.startswith('asefile::<'):
            continue          # (derived impls such as Clone copy an existing tile)
        for bb, st, t in q.stmt_aggs(b, 'asefile::tile::Tile'):
            n += 1
            f = dict(expand(t, fx, 2, noinl(fx))[3])
            words = set()
            hdrs = set()
            ok = True
            desc = []
            for fld, mask in FIELDS.items():
                v = f.get(fld, ('unknown',))
                ands = [x for x in walk(v) if isinstance(x, tuple) and x[0] == 'bin' and x[1] == 'BitAnd']
                good = False
                for a in ands:
                    for w_, m_ in ((a[2], a[3]), (a[3], a[2])):
                        m_ = strip_casts(m_)
                        if m_[0] == 'field' and m_[2] == mask:
                            good = True
                            words.add(strip_casts(w_))
                            hdrs.add(m_[1])
                if fld != 'id' and good:
                    # a flag is "bit set", not "bit clear"
                    good = any(x[0] == 'bin' and x[1] == 'Ne' and q.const_val(x[3]) == 0 for x in walk(v)) or \
                        any(x[0] == 'bin' and x[1] == 'Eq' and strip_casts(x[3])[0] == 'field' for x in walk(v))
                ok = ok and good
                desc.append('%s %s header.%s' % (fld, 'masked with' if good else 'NOT masked with', mask))
            one = len(words) == 1 and len(hdrs) == 1 and all(is_param(h) or (h[0] == 'field') or h[0] == 'call' for h in hdrs)
            ctx.inst(rule, 'Tile@' + b.name.split('asefile::')[-1], ok and one, 'Tile{..} built in %s: %s; one word and one header: %s'
                     % (b.name.split('asefile::')[-1], '; '.join(desc), one), st.get('span'), key=ctx.key(b.name, rule, 'tile-word', ''))
    ctx.floor('Tile constructions', n, 1)
    pc = fx.body('asefile::tilemap::TilemapData::parse_chunk')
    if pc is not None:
        cs = q.calls(pc, 'asefile::tile::Tiles::unzip')
        for c in cs:
            hdr = q.arg_terms(c)[2]
            okh = hdr[0] == 'call' and hdr[1].endswith('TileBitmaskHeader::parse') or \
                (hdr[0] == 'agg' and (hdr[1] or '').endswith('TileBitmaskHeader'))
            ctx.inst(rule, 'Tiles::unzip#header', okh, 'tiles are decoded with header %s; must be the bitmask header parsed from this tilemap cel' % show(hdr)[:100],
                     c.span, key=pc.name + '|%s|tile-header' % rule)
    uz = fx.body('asefile::tile::Tiles::unzip')
    if uz is not None:
        # form-independent: the inflated bytes are walked with chunks_exact(4) and nothing reorders / skips / truncates the walk
        names = [(c_.callee, c_) for b2 in [uz] + fx.closures_of(uz) for c_ in q.calls(b2)]
        ce = [c_ for nm, c_ in names if nm.split('::')[-1] == 'chunks_exact']
        four = bool(ce) and all(q.const_val(q.arg_terms(c_)[1]) == 4 for c_ in ce)
        bad = sorted({nm.split('::')[-1] for nm, c_ in names if nm.startswith(('std::iter::Iterator::', 'core::slice::', 'std::vec::Vec::')) and
                      nm.split('::')[-1] in ('rev', 'skip', 'step_by', 'filter', 'take', 'rchunks', 'rchunks_exact', 'skip_while', 'take_while', 'reverse',
                                             'sort', 'swap', 'truncate', 'pop', 'remove', 'insert', 'dedup', 'retain')})
        okc = four and not bad
        ctx.inst(rule, 'Tiles::unzip#order', okc, 'the inflated bytes are walked with chunks_exact(4) (%s), reordering / skipping calls: %s' % (four, bad or 'none'),
                 uz.span, key=uz.name + '|%s|tile-order' % rule)
