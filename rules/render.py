"""Compositing-skeleton rules shared by C02 and C06 (canvas, order, gate, opacity, blend dispatch, operands, offset)."""
import q
import layout
from q import res, is_param, is_param_path, field_path, strip_casts, show, alts, walk, expand
from terms import casts_on

F = 'asefile::file::'
AF = 'asefile::file::AsepriteFile::'
NEW = 'image::ImageBuffer::new'
RASTER = {F + 'write_raw_cel_to_image': 'raw', F + 'write_tilemap_cel_to_image': 'tilemap'}

BLEND_FN = {
    'Normal': 'normal', 'Multiply': 'multiply', 'Screen': 'screen', 'Overlay': 'overlay', 'Darken': 'darken', 'Lighten': 'lighten',
    'ColorDodge': 'color_dodge', 'ColorBurn': 'color_burn', 'HardLight': 'hard_light', 'SoftLight': 'soft_light',
    'Difference': 'difference', 'Exclusion': 'exclusion', 'Hue': 'hsl_hue', 'Saturation': 'hsl_saturation', 'Color': 'hsl_color',
    'Luminosity': 'hsl_luminosity', 'Addition': 'addition', 'Subtract': 'subtract', 'Divide': 'divide',
}


def param_named(body, ty_contains=None, name=None):
    for i in range(1, body.arg_count + 1):
        if name is not None and body.locals[i].get('name') == name:
            return i
        if ty_contains is not None and ty_contains in body.locals[i]['ty']:
            return i
    return None


def canvas(ctx, rule='K1'):
    """frame_image / layer_image return the fresh canvas RgbaImage::new(self.width, self.height)"""
    out = {}
    for fn in (AF + 'frame_image', AF + 'layer_image'):
        b = ctx.anchor(fn)
        if b is None:
            continue
        t = res(b).ret()
        ok = t[0] == 'call' and t[1] == NEW and len(t[2]) == 2
        if ok:
            cw, w = casts_on(t[2][0])
            ch, h = casts_on(t[2][1])
            ok = is_param_path(w, 1, ['width']) and is_param_path(h, 1, ['height']) and \
                all(layout.value_preserving(a, b_) for a, b_ in cw + ch)
        ctx.inst(rule, fn, ok, 'returns %s; must be the fresh all-zero canvas RgbaImage::new(self.width, self.height) in that argument '
                 'order' % show(t), b.span, key=fn + '|%s|canvas' % rule)
        out[fn] = t
    return out


def visibility_filter(fi, cl):
    """cl is a closure term |item| self.layer(item.0).is_visible() with `self` the file frame_image works on"""
    fx = fi.facts
    if cl[0] != 'closure' or fx is None or cl[1] not in fx.by_path:
        return False
    cb = fx.by_path[cl[1]]
    if cb.arg_count != 2:
        return False
    from terms import subst_closure
    rt = subst_closure(res(cb).ret(), {}, cl)
    if rt[0] == 'call' and rt[1] == 'asefile::layer::Layer::is_visible' and len(rt[2]) == 1:
        ly = rt[2][0]
        return ly[0] == 'call' and ly[1] == AF + 'layer' and is_param(ly[2][0], 1) and strip_casts(ly[2][1]) == ('field', ('param', 2, None), '0')
    return False


def gated_by_filter(fi, c):
    """the cel handed to write_cel (call c) comes out of a .filter(visibility of its own layer)"""
    cel = q.arg_terms(c)[2]
    if cel[0] == 'field' and cel[2] == '1' and cel[1][0] == 'next':
        src = q.unwrap_into_iter(cel[1][1])
        return src[0] == 'call' and src[1] == 'std::iter::Iterator::filter' and len(src[2]) == 2 and visibility_filter(fi, src[2][1])
    return False


def cel_loop_item(fi, c):
    """how frame_image obtains the cel it passes to write_cel (call c) and which term is that cel's layer id:
       form A  for (layer_id, cel) in self.framedata.frame_cels(frame)            -> ('A', item.0, item)
       form B  for layer_id in 0..self.num_layers() { if let Some(cel) = self.framedata.cel(CelId { frame, layer: layer_id as u16 }) .. }
               (ascending range over all layer ids, the lookup keyed by the loop variable)  -> ('B', loop variable, None)
    -> (form, layer id term, item term) or (None, None, None)"""
    cel = q.arg_terms(c)[2]
    if cel[0] == 'field' and cel[2] == '1' and cel[1][0] == 'next':
        src = q.unwrap_into_iter(cel[1][1])
        # form A with the visibility gate moved into the iterator: frame_cels(frame).filter(|(layer_id, _)| self.layer(*layer_id).is_visible()).
        # Only that filter is looked through; any other one would skip cels for another reason and is not this form
        while src[0] == 'call' and src[1] == 'std::iter::Iterator::filter' and len(src[2]) == 2 and visibility_filter(fi, src[2][1]):
            src = q.unwrap_into_iter(src[2][0])
        if src[0] == 'call' and src[1] == 'asefile::cel::CelsData::frame_cels' and is_param_path(src[2][0], 1, ['framedata']) \
                and is_param(strip_casts(src[2][1]), 2):
            return 'A', ('field', cel[1], '0'), cel[1]
        return None, None, None
    x = cel
    if x[0] == 'call' and x[1] == 'asefile::cel::CelsData::cel' and is_param_path(x[2][0], 1, ['framedata']):
        cid = x[2][1]
        if cid[0] == 'agg' and cid[2] == 'CelId':
            f = dict(cid[3])
            lv = strip_casts(f.get('layer', ('unknown',)))
            if is_param(strip_casts(f.get('frame', ('unknown',))), 2) and lv[0] == 'next':
                rg = q.unwrap_into_iter(lv[1])
                if rg[0] == 'agg' and rg[1] == 'std::ops::Range':
                    rf = dict(rg[3])
                    end = strip_casts(rf['end'])
                    # the bound is the layer count itself, at most widened: `0..self.num_layers() as u16` wraps to 0 at 65536 layers
                    # (seed C19-l) and is not this form
                    widened = all(layout.value_preserving(a_, b_) for a_, b_ in casts_on(rf['end'])[0])
                    if q.const_val(rf['start']) == 0 and end[0] == 'call' and end[1] == AF + 'num_layers' and is_param(end[2][0], 1) and widened:
                        return 'B', lv, None
    return None, None, None


def order(ctx, rule='K2'):
    """cels are visited in ascending layer index: frame_cels = data[frame].iter().enumerate().filter_map(..)"""
    fx = ctx.fx
    fi0 = fx.body(AF + 'frame_image')
    forms = [cel_loop_item(fi0, c)[0] for c in q.calls(fi0, AF + 'write_cel')] if fi0 is not None else []
    # frame_cels is judged when frame_image uses it (or when it exists at all); a frame_image that walks 0..num_layers() itself needs none
    b = fx.body('asefile::cel::CelsData::frame_cels') if forms and all(f == 'B' for f in forms) else ctx.anchor('asefile::cel::CelsData::frame_cels')
    if b is not None:
        t = res(b).ret()
        chain = []
        x = t
        while x[0] == 'call':
            chain.append(x[1])
            x = x[2][0]
        # enumerate() must number the *slots* (it sits directly on the slice iterator), whatever order-preserving adaptor drops the
        # empty slots afterwards (filter_map / flat_map / filter / map); nothing may reorder or renumber
        short = [c.split('::')[-1] for c in chain]
        tail = short[-3:] == ['enumerate', 'iter', 'index'] if len(short) >= 3 else False
        head = short[:-3] if tail else short
        ok = tail and 1 <= len(head) <= 2 and all(h in ('filter_map', 'flat_map', 'filter', 'map') for h in head) and is_param_path(x, 1, ['data'])
        ctx.inst(rule, b.name + '#chain', ok, 'frame_cels = %s; must be data[frame].iter().enumerate() followed only by filter_map / flat_map / filter / map '
                 '(enumerate numbers the slots; no rev/skip/step_by/sort/flatten-before-enumerate)' % ' <- '.join(short), b.span, key=b.name + '|%s|chain' % rule)
        if ok:
            rows = [x_ for x_ in walk(t) if x_[0] == 'call' and x_[1] == 'std::ops::Index::index' and is_param_path(x_[2][0], 1, ['data'])]
            ok2 = len(rows) >= 1 and all(is_param(strip_casts(r_[2][1]), 2) for r_ in rows)
            ctx.inst(rule, b.name + '#row', ok2, 'frame_cels iterates row %s; must be data[frame_id]' % (show(rows[0][2][1]) if rows else '?'), b.span,
                     key=b.name + '|%s|row' % rule)
            # the closure(s) of the adaptor(s) after enumerate() pair the slot's own index (.0 of the enumerate item) with its cel (.1)
            okc = False
            desc = '?'
            todo = [x_ for x_ in walk(t) if x_[0] == 'closure']
            seen_c = set()
            while todo:
                cl = todo.pop()
                if cl[1] in seen_c or cl[1] not in fx.by_path:
                    continue
                seen_c.add(cl[1])
                cb = fx.by_path[cl[1]]
                rt = expand(res(cb).ret(), fx, 2)
                desc = show(rt)[:140]
                todo += [x_ for x_ in walk(rt) if x_[0] == 'closure']
                caps = {i_: c_[1] for i_, c_ in enumerate(cl[2])}

                def from_item(x_, fld):
                    x_ = strip_casts(x_)
                    if x_[0] == 'field' and x_[2] == fld and is_param(x_[1], 2):
                        return True            # .fld of this closure's own argument (the enumerate item)
                    if x_[0] == 'field' and is_param(x_[1], 1) and x_[2].isdigit() and int(x_[2]) in caps:
                        return from_item(caps[int(x_[2])], fld)       # a captured copy
                    return False
                for a in [y_ for y_ in walk(rt) if y_[0] == 'tuple' and len(y_[1]) == 2]:
                    if from_item(a[1][0], '0') and (any(from_item(y_, '1') for y_ in walk(a[1][1])) or is_param(strip_casts(a[1][1]), 2)):
                        okc = True
            ctx.inst(rule, b.name + '#item', okc, 'frame_cels yields %s; must be (enumerate index as layer id, the cel of that slot)' % desc,
                     b.span, key=b.name + '|%s|item' % rule)
    fi = ctx.anchor(AF + 'frame_image')
    if fi is not None:
        ws = q.calls(fi, AF + 'write_cel')
        ctx.floor('write_cel calls in frame_image', len(ws), 1)
        for c in ws:
            at = q.arg_terms(c)
            cel = at[2]
            form, _lid, _item = cel_loop_item(fi, c)
            ok = form is not None
            ctx.inst(rule, fi.name + '#loop', ok, 'frame_image draws %s; must be item.1 of a direct loop over framedata.frame_cels(frame) (or the cel looked up '
                     'for the loop variable of 0..num_layers())' % show(cel)[:120], c.span, key=fi.name + '|%s|loop' % rule)
            L = fi.cfg.loop_of(c.bb)
            exits = q.loop_exit_kinds(fi, L) if L else [(0, 0, 'other')]
            ok = L is not None and all(k in ('exhausted', 'unreachable') for _, _, k in exits)
            ctx.inst(rule, fi.name + '#no-early-exit', ok, 'the cel loop is left only when all cels were visited', c.span,
                     key=fi.name + '|%s|exits' % rule)


def duplicate_cel(ctx, rule='K3'):
    b = ctx.anchor('asefile::cel::CelsData::add_cel')
    if b is None:
        return
    n = 0
    for sw in q.switches_on(b, lambda d: d[0] == 'call' and d[1] in ('std::option::Option::is_some', 'std::option::Option::is_none')):
        d = q.switch_cond(b, sw)
        tm = b.blocks[sw]['term']
        slot = d[2][0]
        if not (slot[0] == 'call' and slot[1] in ('std::ops::Index::index', 'std::ops::IndexMut::index_mut')):
            continue
        n += 1
        occ = tm['otherwise'] if d[1].endswith('is_some') else [s for v, s in tm['targets'] if v == 0][0]
        ok = q.arm_always_err(b, occ)
        ctx.inst(rule, b.name, ok, 'a second cel for an occupied (frame, layer) slot -> %s' % ('Err' if ok else 'NOT rejected'), tm['span'],
                 key=b.name + '|%s|occupied' % rule)
    if n == 0:
        # `match &mut layers[i] { Some(_) => Err(..), slot @ None => .. }`: a switch on the slot's own discriminant
        for sw in q.switches_on(b, lambda d: d[0] == 'discr' and d[1][0] == 'call' and d[1][1] in ('std::ops::Index::index', 'std::ops::IndexMut::index_mut')):
            tm = b.blocks[sw]['term']
            some = [s_ for v_, s_ in tm['targets'] if v_ == 1] or ([tm['otherwise']] if any(v_ == 0 for v_, _ in tm['targets']) else [])
            if not some:
                continue
            n += 1
            ok = all(q.arm_always_err(b, e_) for e_ in some)
            ctx.inst(rule, b.name, ok, 'a second cel for an occupied (frame, layer) slot -> %s' % ('Err' if ok else 'NOT rejected'), tm['span'],
                     key=b.name + '|%s|occupied' % rule)
    ctx.floor('occupied-slot tests in add_cel', n, 1)


def gate(ctx, rule='K4'):
    fi = ctx.anchor(AF + 'frame_image')
    if fi is None:
        return
    for c in q.calls(fi, AF + 'write_cel'):
        ok = False
        desc = []
        form, lid_want, _item = cel_loop_item(fi, c)
        for cond, vals, a in q.guards(fi, c.bb):
            desc.append(show(cond)[:80])
            truth = q.bool_outcome(fi, a, vals)
            neg = False
            cc = cond
            while cc[0] == 'un' and cc[1] == 'Not':
                cc, neg = cc[2], not neg
            if cc[0] == 'call' and cc[1] == 'asefile::layer::Layer::is_visible' and truth is not None and (truth != neg):
                ly = cc[2][0]
                if ly[0] == 'call' and ly[1] == AF + 'layer' and is_param(ly[2][0], 1) and lid_want is not None:
                    # the layer asked is the layer of the cel being drawn: the same loop item's index (form A) / the same loop variable (form B)
                    ok = ok or strip_casts(ly[2][1]) == strip_casts(lid_want)
        if not ok and form == 'A' and gated_by_filter(fi, c):
            ok = True
            desc.append('filter(|item| self.layer(item.0).is_visible()) on the cel iterator')
        ctx.inst(rule, fi.name, ok, 'write_cel in frame_image is %s by layer(item.0).is_visible() == true for the same loop item'
                 % ('guarded' if ok else 'NOT guarded'), c.span, key=fi.name + '|%s|gate' % rule, detail={'guards': desc})


def drawing_conditions(ctx, rule='K4'):
    """nothing but the documented conditions decides whether a cel is drawn: in frame_image the loop itself, the lookup of the cel and
    the visibility gate; in layer_image the lookup; in write_cel the match on the cel's content, the lookup and content of a link
    target and the layer type of a tilemap cel.  A fast path or a skip under any other test (`if opacity product == 0 { continue }`
    with a truncating product - seed C17-q; `if cel.is_off_canvas(..) { return }` with a 16-bit canvas size - seed C06-q; a copy
    instead of a blend for canvas-sized opaque cels that forgets the offset - seed C02-q) is reported: each was "almost right"."""
    def allowed(cond, where):
        c = cond
        while c[0] == 'un' and c[1] == 'Not':
            c = c[2]
        if c[0] == 'call' and c[1] == 'asefile::layer::Layer::is_visible':
            return where == 'frame_image'
        if c[0] == 'any':
            return all(x[0] == 'const' or allowed(x, where) for x in alts(c))
        if c[0] != 'discr':
            return False
        sub = [x for x in walk(c[1]) if isinstance(x, tuple) and x]
        if any(x[0] == 'next' for x in sub) and where == 'frame_image':
            return True
        if any(x[0] == 'call' and x[1] == 'asefile::cel::CelsData::cel' for x in sub):
            return True
        if where == 'write_cel':
            if any(x[0] == 'field' and x[2] == 'content' for x in sub):
                return True
            if any(x[0] == 'call' and x[1] == 'asefile::layer::Layer::layer_type' for x in sub):
                return True
        return False
    n = 0
    for fn, where, callees in ((AF + 'frame_image', 'frame_image', (AF + 'write_cel',)), (AF + 'layer_image', 'layer_image', (AF + 'write_cel',)),
                               (AF + 'write_cel', 'write_cel', tuple(RASTER) + (AF + 'write_cel',))):
        b = ctx.anchor(fn)
        if b is None:
            continue
        for c in q.calls(b):
            if q.callee_name(c) not in callees:
                continue
            n += 1
            extra = [show(cond)[:100] for cond, truth in q.deep_conds(b, c.bb) if not allowed(cond, where)]
            # .. and, by control dependence, tests that no single edge of which dominates the call (`a && b && c` fast paths)
            for S_ in sorted(q.controlling_switches(b, c.bb)):
                cond = q.switch_cond(b, S_)
                if not allowed(cond, where) and show(cond)[:100] not in extra:
                    extra.append(show(cond)[:100])
            # (a gate moved into the iterator - `.filter(|..| visible)` - is judged by the gate rule)
            ctx.inst(rule, '%s -> %s#conditions' % (where, q.callee_name(c).split('::')[-1]), not extra,
                     'the call is reached %s' % ('only under the documented conditions (loop / lookup / content match / visibility)' if not extra else
                                                 'ALSO under %s: a cel can be skipped or drawn differently for a reason the property does not know' % extra),
                     c.span, key=ctx.key(fn, rule, 'conditions', q.callee_name(c)))
    ctx.floor('draw calls with checked conditions', n, 5)


def blend_calls(body):
    """[(call, fn_term, (dst, src, opacity))] for indirect calls of the blend function"""
    out = []
    for c in q.calls(body):
        if c.callee in ('std::ops::Fn::call', 'std::ops::FnMut::call_mut', 'std::ops::FnOnce::call_once'):
            at = q.arg_terms(c)
            if len(at) == 2 and at[1][0] == 'tuple' and len(at[1][1]) == 3:
                out.append((c, at[0], at[1][1]))
        elif c.fn is None and c.term.get('indirect') is not None and len(c.args) == 3 and 'Rgba' in c.term.get('fnty', ''):
            # the blend function held as a plain `fn` pointer instead of a boxed closure
            fterm = res(body).operand(c.term['indirect'])
            out.append((c, fterm, tuple(q.arg_terms(c))))
    return out


def opacity_and_mode(ctx, rule_o='K5', rule_m='K6'):
    fx = ctx.fx
    ncalls = 0
    for fn, kind in RASTER.items():
        b = ctx.anchor(fn)
        if b is None:
            continue
        oo = (param_named(b, name='outer_opacity') or next((i_ for i_ in range(1, b.arg_count + 1) if b.locals[i_]['ty'] == 'u8'), None) or b.arg_count)
        cd = param_named(b, ty_contains='cel::CelCommon')
        bm = param_named(b, ty_contains='layer::BlendMode')
        for c, fterm, (dst, src, op) in blend_calls(b):
            ncalls += 1
            ok = op[0] == 'call' and op[1] == 'asefile::blend::mul_un8' and len(op[2]) == 2
            if ok:
                a, b_ = strip_casts(op[2][0]), strip_casts(op[2][1])
                pair = {('o' if is_param(x, oo) else 'c' if is_param_path(x, cd, ['opacity']) else '?') for x in (a, b_)}
                ok = pair == {'o', 'c'}
            ctx.inst(rule_o, fn, ok, 'per-pixel opacity = %s; must be mul_un8(layer opacity parameter, cel opacity)' % show(op)[:120], c.span,
                     key=ctx.key(fn, rule_o, 'opacity', ''))
            okm = fterm[0] == 'call' and fterm[1] == F + 'blend_mode_to_blend_fn' and is_param(fterm[2][0], bm)
            if rule_m is not None:
                ctx.inst(rule_m, fn, okm, 'blend function = %s; must be blend_mode_to_blend_fn(*blend_mode)' % show(fterm)[:100], c.span,
                         key=ctx.key(fn, rule_m, 'fn', ''))
    ctx.floor('per-pixel blend calls', ncalls, 2)
    wc = ctx.anchor(AF + 'write_cel')
    if wc is not None:
        n = 0
        for c in q.calls(wc):
            nm = q.callee_name(c)
            if nm not in RASTER:
                continue
            n += 1
            at = q.arg_terms(c)
            rb = fx.body(nm)
            oo = (param_named(rb, name='outer_opacity') or next((i_ for i_ in range(1, rb.arg_count + 1) if rb.locals[i_]['ty'] == 'u8'), None) or rb.arg_count) - 1
            bm = param_named(rb, ty_contains='layer::BlendMode') - 1
            cd = param_named(rb, ty_contains='cel::CelCommon') - 1

            celp = param_named(wc, ty_contains='cel::RawCel')

            def layer_of(t):
                return t[0] == 'call' and t[1] == AF + 'layer' and is_param(t[2][0], 1) and \
                    is_param_path(strip_casts(t[2][1]), celp, ['data', 'layer_index'])
            o = at[oo]
            ok = o[0] == 'call' and o[1] == 'asefile::layer::Layer::opacity' and layer_of(o[2][0])
            ctx.inst(rule_o, 'write_cel->' + nm.split('::')[-1], ok, 'outer opacity = %s; must be self.layer(cel.data.layer_index).opacity()'
                     % show(o)[:120], c.span, key=ctx.key(wc.name, rule_o, 'outer', nm))
            m = at[bm]
            okm = m[0] == 'call' and m[1] == 'asefile::layer::Layer::blend_mode' and layer_of(m[2][0])
            if rule_m is not None:
                ctx.inst(rule_m, 'write_cel->' + nm.split('::')[-1], okm, 'blend mode = %s; must be self.layer(cel.data.layer_index).blend_mode()'
                         % show(m)[:120], c.span, key=ctx.key(wc.name, rule_m, 'mode', nm))
            okd = is_param_path(at[cd], celp, ['data'])
            ctx.inst(rule_o, 'write_cel->' + nm.split('::')[-1] + '#cel', okd, 'cel data = %s; must be the data of the cel being drawn' % show(at[cd]),
                     c.span, key=ctx.key(wc.name, rule_o, 'celdata', nm))
        ctx.floor('rasteriser calls in write_cel', n, 2)


def blend_table(ctx, rule='K6'):
    b = ctx.anchor(F + 'blend_mode_to_blend_fn')
    if b is None:
        return
    import C10 as _c10
    sws = [s for s in q.switches_on(b, lambda d: d[0] == 'discr' and is_param(d[1], 1))]
    if len(sws) != 1:
        ctx.fail(b.name + '|%s|no-match' % rule, 'blend_mode_to_blend_fn: expected one match on the mode, found %d' % len(sws))
        return
    sw = sws[0]
    names = _c10.switch_variants(b, sw)
    tb = q.switch_table(b, sw)
    seen = {}
    for v, s in tb['values'].items():
        var = names.get(v, str(v))
        rets = list(tb['arms'][s]['ret'])
        reg = tb['arms'][s]['region']
        for c in q.calls(b, 'std::boxed::Box::new'):
            if c.bb in reg:
                rets.append(q.arg_terms(c)[0])
        fns = set()
        for r_ in rets:
            for a in alts(r_):
                if a[0] == 'fn':
                    fns.add(a[1])
                else:
                    fns.add(show(a))
        want = 'asefile::blend::' + BLEND_FN.get(var, '?')
        ok = fns == {want}
        seen[var] = fns
        ctx.inst(rule, 'mode ' + var, ok, 'BlendMode::%s -> %s; must be blend::%s' % (var, sorted(x.split('::')[-1] for x in fns), BLEND_FN.get(var)),
                 tb['span'], key='%s|%s|%s' % (b.name, rule, var))
    ctx.floor('blend modes dispatched', len(seen), 19)
    ok = b.blocks[tb['otherwise']]['term']['k'] == 'unreachable'
    ctx.inst(rule, 'mode#exhaustive', ok, 'the mode match is exhaustive', tb['span'], key=b.name + '|%s|exhaustive' % rule)


def operands_and_offset(ctx, rule_p='K7', rule_x='K8'):
    for fn, kind in RASTER.items():
        b = ctx.anchor(fn)
        if b is None:
            continue
        img = param_named(b, ty_contains='image::ImageBuffer')
        cd = param_named(b, ty_contains='cel::CelCommon')
        px = param_named(b, ty_contains='[image::Rgba<u8>]') or param_named(b, name='pixels')       # by type: parameter names are free to change
        for c, fterm, (dst, src, op) in blend_calls(b):
            okd = dst[0] == 'call' and dst[1] == 'image::ImageBuffer::get_pixel' and is_param(dst[2][0], img)
            puts = [p for p in q.calls(b, 'image::ImageBuffer::put_pixel')]
            same = False
            res_ok = False
            if okd:
                for p in puts:
                    pa = q.arg_terms(p)
                    if is_param(pa[0], img) and pa[1] == dst[2][1] and pa[2] == dst[2][2]:
                        same = True
                        res_ok = any(x == dst for x in walk(pa[3])) and any(x == fterm for x in walk(pa[3]))
            ctx.inst(rule_p, fn + '#backdrop', okd and same and res_ok, 'backdrop = %s and the result is stored with put_pixel at %s'
                     % (show(dst)[:70], 'the same (x, y)' if same else 'DIFFERENT coordinates or not stored'), c.span,
                     key=ctx.key(fn, rule_p, 'backdrop', ''))
            srcs = [x for x in walk(src) if is_param(x, px)]
            oks = bool(srcs) and (src[0] == 'index' or (src[0] == 'call' and src[1] == 'std::ops::Index::index'))
            ctx.inst(rule_p, fn + '#source', oks, 'source pixel = %s; must be an element of the cel/tile pixel slice' % show(src)[:100], c.span,
                     key=ctx.key(fn, rule_p, 'source', ''))
            if oks and okd and fn.endswith('write_raw_cel_to_image'):
                # which element: cel pixel (i, j) lands on canvas (cel.x + i, cel.y + j), i.e. index == (ty - cel.y) * width + (tx - cel.x)
                import poly as P
                idx = src[2] if src[0] == 'index' else src[2][1]
                sz = param_named(b, ty_contains='cel::ImageSize')
                W = P.canon(('field', ('param', sz, None), 'width'))
                cx = P.canon(('field', ('param', cd, None), 'x'))
                cy = P.canon(('field', ('param', cd, None), 'y'))
                want = {}

                def add(pv, cf, extra=()):
                    for k_, v_ in pv.items():
                        kk = tuple(sorted(k_ + extra, key=repr))
                        want[kk] = want.get(kk, 0) + cf * v_
                add(P.poly(dst[2][2]), 1, (W,))
                add({(cy,): 1}, -1, (W,))
                add(P.poly(dst[2][1]), 1)
                add({(cx,): 1}, -1)
                want = {k_: v_ for k_, v_ in want.items() if v_ != 0}
                got = P.poly(idx)
                ctx.inst(rule_p, fn + '#source-index', got == want, 'source index = %s; must be (target y - cel.y) * cel width + (target x - cel.x)' % P.show(got)[:160],
                         c.span, key=ctx.key(fn, rule_p, 'source-index', ''))
            # offset: coordinates contain the sign-extended cel x / y
            if okd:
                for ax, fld, dimk in ((dst[2][1], 'x', ('width', '0')), (dst[2][2], 'y', ('height', '1'))):
                    cs = [x for x in walk(ax) if x[0] == 'cast' and is_param_path(x[1], cd, [fld])]
                    oksx = bool(cs) and all(x[2] == 'i16' and x[3] in ('i32', 'i64', 'isize') for x in cs)
                    ctx.inst(rule_x, '%s#offset-%s' % (fn, fld), oksx, 'image %s coordinate uses the cel offset via %s; must be a sign-extending '
                             'i16 -> i32 cast of cel.%s' % (fld, [(x[2], x[3]) for x in cs] or 'nothing', fld), c.span,
                             key=ctx.key(fn, rule_x, 'offset', fld))
                    lo, hi = clip_bounds(b, c.bb, ax, dimk, img)
                    ctx.inst(rule_x, '%s#clip-%s' % (fn, fld), lo and hi, 'pixel access is guarded by 0 <= %s (%s) and %s < image %s (%s)'
                             % (fld, lo, fld, dimk[0], hi), c.span, key=ctx.key(fn, rule_x, 'clip', fld))


def clip_guarded(b, bb, coord, axis_dims, img):
    """is the pixel access in block bb guarded by 0 <= coord and coord < image dimension (width|height, or dimensions().N)?"""
    lo, hi = clip_bounds(b, bb, coord, axis_dims, img)
    return lo and hi


def clip_bounds(b, bb, coord, axis_dims, img):
    """-> (lower bound 0 <= coord established, upper bound coord < image dimension established) at block bb"""
    lo = hi = False
    coord = strip_casts(coord)

    def is_dim(t):
        dims = [x for x in walk(t) if x[0] == 'call' and x[1].startswith('image::ImageBuffer::') and is_param(x[2][0], img)]
        if not dims:
            return False
        dn = dims[0][1].split('::')[-1]
        return dn == axis_dims[0] or (dn == 'dimensions' and any(x[0] == 'field' and x[2] == axis_dims[1] for x in walk(t)))
    # every comparison known on the way to bb, in any spelling (mirrored, negated, `!(a && b)`, a bool local built with && / ||)
    for op, l, r_ in q.deep_facts(b, bb):
        if l != coord:
            continue
        k = q.const_val(r_)
        if (op == 'Ge' and isinstance(k, int) and k >= 0) or (op == 'Gt' and isinstance(k, int) and k >= -1):
            lo = True
        if op == 'Lt' and is_dim(r_):
            hi = True
    for cond, truth in q.deep_conds(b, bb):
        if cond[0] == 'call' and cond[1] == 'std::ops::Range::contains' and truth is True and strip_casts(cond[2][1]) == coord:
            rg = cond[2][0]
            if rg[0] == 'agg':
                f = dict(rg[3])
                lo = lo or q.const_val(f['start']) == 0
                hi = hi or is_dim(f['end'])
    if not (lo and hi):
        rl, rh = clipped_by_range(coord, axis_dims, img)
        lo, hi = lo or rl, hi or rh
    if not (lo and hi) and clipped_by_clamped_span(coord, axis_dims, img):
        lo = hi = True
    return lo, hi


def clipped_by_range(coord, axis_dims, img):
    """the coordinate is itself a loop variable whose range was clipped up front: start is a constant >= 0 or max(_, 0),
    end is the image dimension or min(_, image dimension) -> (lower ok, upper ok)"""
    rb = _range_bounds(strip_casts(coord))
    if rb is None:
        return False, False
    starts, ends = rb
    lo = any(isinstance(q.const_val(x), int) and q.const_val(x) >= 0 for x in starts) and \
        (len(starts) > 1 or isinstance(q.const_val(starts[0]), int))

    def is_dim(t):
        t = strip_casts(t)
        if t[0] == 'call' and t[1] == 'image::ImageBuffer::' + axis_dims[0] and is_param(t[2][0], img):
            return True
        return t[0] == 'field' and t[2] == axis_dims[1] and t[1][0] == 'call' and t[1][1] == 'image::ImageBuffer::dimensions' and is_param(t[1][2][0], img)
    hi = any(is_dim(x) for x in ends)
    return lo, hi


def clipped_by_clamped_span(coord, axis_dims, img):
    """coordinate = O + v where v runs over clamp(-O, 0, L) .. clamp(DIM - O, 0, L): then 0 <= O + v < DIM whenever the range is
    not empty (if -O > L the start is L >= end; if DIM - O < 0 the end is 0 <= start).  -> bool"""
    import poly as P
    pc = P.poly(coord)
    vs = [k[0] for k, c_ in pc.items() if len(k) == 1 and c_ == 1 and P.loop_var_end(k[0]) is not None]
    for v in vs:
        st_, en = P.loop_var_end(v)
        cs, ce = P.clamp_args(st_), P.clamp_args(en)
        if cs is None or ce is None or q.const_val(cs[1]) != 0 or q.const_val(ce[1]) != 0 or P.canon(cs[2]) != P.canon(ce[2]):
            continue
        O = {k: c_ for k, c_ in pc.items() if k != (v,)}
        negO = {k: -c_ for k, c_ in O.items()}
        if P.poly(cs[0]) != negO:
            continue
        rest = dict(P.poly(ce[0]))
        for k, c_ in O.items():
            rest[k] = rest.get(k, 0) + c_
        rest = {k: c_ for k, c_ in rest.items() if c_ != 0}
        if len(rest) == 1:
            (k, c_), = rest.items()
            t = k[0] if len(k) == 1 else None
            if c_ == 1 and t is not None and ((t[0] == 'call' and t[1] == 'image::ImageBuffer::' + axis_dims[0] and is_param(t[2][0], img)) or
                                              (t[0] == 'field' and t[2] == axis_dims[1] and t[1][0] == 'call' and t[1][1] == 'image::ImageBuffer::dimensions')):
                return True
    return False


def ancestor_walk(ctx, rule='K4'):
    """Layer::is_visible must examine the whole ancestor chain: since nesting depth is unbounded this needs recursion or a loop
    (or an iterator adaptor) whose layer index is carried through the parents table - a necessary condition, independent of shape."""
    import callgraph as CG
    fx = ctx.fx
    b = ctx.anchor('asefile::layer::Layer::is_visible')
    if b is None:
        return
    g = CG.get(fx)
    cone = g.cone([b.path])
    recursive = any(b.path in scc for scc in g.sccs(cone))
    loops = False
    adaptors = False
    for p in cone:
        cb = fx.by_path[p]
        if not cb.name.startswith('asefile::layer::'):
            continue
        for c in q.calls(cb):
            at = q.arg_terms(c)
            touches_parents = any(x[0] == 'field' and x[2] == 'parents' for a in at for x in walk(a)) or q.callee_name(c).endswith('Layer::parent')
            if touches_parents and cb.cfg.loop_of(c.bb) is not None:
                # the index must be loop-carried (depends on a previous iteration)
                carried = any(x[0] == 'phi' or (x[0] == 'any') for a in at for x in walk(a))
                loops = loops or carried
            if c.callee.split('::')[-1] in ('successors', 'from_fn', 'try_fold', 'fold', 'all', 'any') and any(a[0] == 'closure' for a in at):
                for a in at:
                    if a[0] == 'closure' and a[1] in fx.by_path:
                        if any(any(x[0] == 'field' and x[2] == 'parents' for y in q.arg_terms(cc) for x in walk(y)) or q.callee_name(cc).endswith('Layer::parent')
                               for cc in q.calls(fx.by_path[a[1]])):
                            adaptors = True
    # and the VISIBLE flag is what is tested
    t = expand(res(b).ret(), fx, 2)
    flag = False
    for p in cone:
        cb = fx.by_path[p]
        for sw in q.switches_on(cb, lambda d: True):
            d = expand(q.switch_cond(cb, sw), fx, 3)
            cs = [q.const_val(x) for x in walk(d) if x[0] == 'const']
            if 1 in cs and any(x[0] == 'field' and x[2] == 'flags' for x in walk(d)):
                flag = True
    cs = [q.const_val(x) for x in walk(expand(t, fx, 3)) if x[0] == 'const']
    flag = flag or (1 in cs and any(x[0] == 'field' and x[2] == 'flags' for x in walk(expand(t, fx, 3))))
    ok = (recursive or loops or adaptors) and flag
    ctx.inst(rule, 'Layer::is_visible#ancestors', ok, 'is_visible tests the VISIBLE flag (%s) and walks the ancestor chain by %s' % (
        flag, 'recursion' if recursive else 'a loop carried through the parents table' if loops else 'an iterator over parents' if adaptors else
        'NOTHING UNBOUNDED: only a fixed number of ancestors is examined'), b.span, key=b.name + '|%s|ancestors' % rule)


def cel_rows_grow_only(ctx, rule='K3'):
    """storage order of cel chunks must not matter: the per-frame row is only ever grown before slot `layer` is written"""
    import panics as _p
    import C04 as _c04
    fx = ctx.fx
    ab = ctx.anchor('asefile::cel::CelsData::add_cel')
    if ab is None:
        return
    sites = [s_ for s_ in _p.inventory(fx, [ab]) if s_.kind in ('ext:index', 'ext:index_mut') and 'layer_index' in s_.what]
    ctx.floor('slot accesses in add_cel', len(sites), 1)
    for s_ in sites:
        ok, why = _c04.row_add_cel_inner(ctx, s_)
        ctx.inst(rule, 'add_cel#grow-only', ok, 'the cel row is only ever grown (resize_with(layer+1) under len < layer+1) before slot `layer` is used, so a lower '
                 'layer arriving later cannot truncate stored cels: %s' % why, s_.span, key=ctx.key(ab.name, rule, 'grow-only', ''))


def _skip_when(cond, taken_truth):
    """normalise a comparison to (op, A, B) meaning `A op B` holds exactly on the edge with outcome taken_truth"""
    if cond[0] != 'bin' or cond[1] not in ('Lt', 'Le', 'Gt', 'Ge'):
        return None
    op = cond[1]
    if not taken_truth:
        op = {'Lt': 'Ge', 'Ge': 'Lt', 'Gt': 'Le', 'Le': 'Gt'}[op]
    return op, cond[2], cond[3]


def _safe_cull(b, img, cond, skip_truth, coords):
    """is `skip when cond == skip_truth` a cull of pixels that lie outside the canvas anyway?  coords = [(axis, term)].
    Accepted: LOWER >= dim(axis) where LOWER is the target coordinate with any non-negative loop-variable summands dropped;
              UPPER <= 0 / UPPER < 1 ... where UPPER is the coordinate with a loop variable v in 0..E replaced by E (an exclusive bound)."""
    import poly as P
    n = _skip_when(cond, skip_truth)
    if n is None:
        return False
    op, A, B = n
    pa, pb = P.poly(A), P.poly(B)

    def dim_of(t, axis):
        t = P.canon(t)
        nm = 'width' if axis == 0 else 'height'
        return t[0] == 'call' and (t[1] == 'image::ImageBuffer::' + nm) and is_param(t[2][0], img) or \
            (t[0] == 'field' and t[2] == str(axis) and t[1][0] == 'call' and t[1][1] == 'image::ImageBuffer::dimensions' and is_param(t[1][2][0], img))
    for axis, coord in coords:
        pc = P.poly(coord)
        lv = [k for k in pc if any(P.loop_var_end(a) is not None for a in k)]
        others = {k: v for k, v in pc.items() if k not in lv}
        # all loop-variable summands are non-negative when they start at >= 0 with positive factors: only then may they be dropped
        nonneg = all(pc[k] > 0 for k in lv)
        # --- beyond the right / bottom edge: LOWER >= dim  (or LOWER > dim - 1)
        if nonneg and op in ('Ge', 'Gt') and len(pb) >= 1:
            b_is_dim = len(pb) == 1 and list(pb.values()) == [1] and len(list(pb)[0]) == 1 and dim_of(list(pb)[0][0], axis)
            if b_is_dim:
                # LOWER = others + any subset of the loop summands (A > dim is a fortiori a cull of off-canvas pixels)
                if all(k in pc and pc[k] == v for k, v in pa.items()) and all(k in pa for k in others):
                    return True
        # --- before the left / top edge: UPPER <= 0, UPPER exclusive (v replaced by its end E)
        if op in ('Le', 'Lt') and not pb or (op in ('Le', 'Lt') and list(pb) == [()]):
            bound = pb.get((), 0)
            # acceptable: UPPER <= 0  or UPPER < 1
            if (op == 'Le' and bound == 0) or (op == 'Lt' and bound == 1):
                up = dict(others)
                okk = True
                for k in lv:
                    vars_ = [a for a in k if P.loop_var_end(a) is not None]
                    if len(vars_) != 1:
                        okk = False
                        break
                    st, en = P.loop_var_end(vars_[0])
                    restk = tuple(a for a in k if a is not vars_[0])
                    for ke, ve in P.poly(en).items():
                        kk = tuple(sorted(restk + ke, key=repr))
                        up[kk] = up.get(kk, 0) + pc[k] * ve
                # UPPER as computed replaces *every* loop variable by its end; a cull placed inside an outer loop keeps that loop's
                # variable: accept when pa equals `up` with any subset of the loop summands kept as they are
                if okk:
                    import itertools
                    for r in range(len(lv) + 1):
                        for keep in itertools.combinations(lv, r):
                            cand = dict(others)
                            for k in lv:
                                if k in keep:
                                    cand[k] = cand.get(k, 0) + pc[k]
                                else:
                                    vars_ = [a for a in k if P.loop_var_end(a) is not None]
                                    st, en = P.loop_var_end(vars_[0])
                                    restk = tuple(a for a in k if a is not vars_[0])
                                    for ke, ve in P.poly(en).items():
                                        kk = tuple(sorted(restk + ke, key=repr))
                                        cand[kk] = cand.get(kk, 0) + pc[k] * ve
                            cand = {k: v for k, v in cand.items() if v != 0}
                            if cand == pa:
                                return True
    return False


def no_extra_skips(ctx, rule='K8'):
    """inside the rasterisers nothing but the per-pixel clip test (and culls of tiles / rows that lie wholly outside the canvas)
    decides whether a pixel is blended.  Path rule, per loop of the nest around the blend call: every way from the loop header back
    to the header (or out of the loop, other than by exhaustion) that does NOT pass through the blend call (for outer loops: through
    the next inner loop) must have branched at a recognised condition - a test on the target coordinate, a loop test, or a cull that
    is provably off-canvas.  A skip decided by anything else (`if is_normal && pixel == backdrop { continue }`) is reported."""
    import poly as P
    for fn in RASTER:
        b = ctx.anchor(fn)
        if b is None:
            continue
        img = param_named(b, ty_contains='image::ImageBuffer')
        for c, fterm, (dst, src, op) in blend_calls(b):
            if not (dst[0] == 'call' and dst[1] == 'image::ImageBuffer::get_pixel'):
                continue
            coords = [(0, dst[2][1]), (1, dst[2][2])]
            cps = [P.poly(t) for _, t in coords]

            def recognised(sw):
                cond = q.switch_cond(b, sw)
                if cond[0] == 'discr' and cond[1][0] == 'next':
                    return True
                if cond[0] == 'bin' and (P.poly(cond[2]) in cps or P.poly(cond[3]) in cps):
                    return True
                if cond[0] == 'call' and cond[1] == 'std::ops::Range::contains' and P.poly(cond[2][1]) in cps:
                    return True
                # a materialised bool (`let x_in_bounds = a >= 0 && a < w`): recognised if every constituent test is
                if cond[0] == 'any' and all((x[0] == 'const') or (x[0] == 'bin' and (P.poly(x[2]) in cps or P.poly(x[3]) in cps)) or
                                            (x[0] == 'call' and x[1] == 'std::ops::Range::contains' and P.poly(x[2][1]) in cps) for x in alts(cond)):
                    return True
                for truth in (True, False):
                    if _safe_cull(b, img, cond, truth, coords):
                        return True
                return False
            loops = sorted(b.cfg.loops_containing(c.bb), key=lambda L: len(L['body']))
            extra = []
            target = c.bb
            for L in loops:
                body_ = set(L['body'])
                ends = {x for x, _ in L['back_edges']}
                seen = set()
                work = [(L['header'], False, None)]
                while work:
                    x, allowed, via = work.pop()
                    if (x, allowed) in seen or x == target:
                        continue
                    seen.add((x, allowed))
                    t = b.blocks[x]['term']
                    succs = [s_ for s_ in b.cfg.succ[x] if not b.blocks[s_]['cleanup']]
                    rec = None
                    if t and t['k'] == 'switch':
                        rec = recognised(x)
                        if rec is False and via is None:
                            via = show(q.switch_cond(b, x))[:90]
                    for s_ in succs:
                        # only the edge that gives up on this pixel / tile (the blend target is out of reach from it) is a skip edge
                        gives_up = target not in b.cfg.reachable_from(s_, avoid={L['header']}) if s_ != L['header'] else True
                        a2 = allowed or (rec is True and gives_up)
                        leaving = s_ not in body_
                        back = (x in ends and s_ == L['header'])
                        if leaving:
                            tt = b.blocks[s_]['term']
                            dead = bool(tt) and tt['k'] == 'unreachable' and not b.blocks[s_]['stmts']
                            if not dead and not a2:
                                extra.append('leaves the loop under %s' % (via or 'an unrecognised condition'))
                            continue
                        if back:
                            if not a2:
                                extra.append('skips the pixel under %s' % (via or 'an unrecognised condition'))
                            continue
                        work.append((s_, a2, via))
                target = L['header']
            extra = sorted(set(extra))
            ctx.inst(rule, fn.split('::')[-1] + '#only-clip-guards', not extra, 'ways around the blend call that are not decided by the clip test or an off-canvas cull: %s'
                     % (extra or 'none'), c.span, key=ctx.key(fn, rule, 'extra-skip', ''))


def layer_image_unconditional(ctx, rule='R5'):
    """Cel::image / Tilemap::image (through layer_image) draw the cel whenever it exists: the write_cel call is guarded by nothing
    but the Some-ness of framedata.cel(cel_id) - in particular not by layer visibility, which only frame compositing consults"""
    b = ctx.anchor(AF + 'layer_image')
    if b is None:
        return
    ws = q.calls(b, AF + 'write_cel')
    for c in ws:
        extra = []
        for cond, vals, a in q.guards(b, c.bb):
            subj = cond[1] if cond[0] == 'discr' else (cond[2][0] if cond[0] == 'call' and cond[1] in ('std::option::Option::is_some', 'std::option::Option::is_none') else None)
            if subj is not None and subj[0] == 'call' and subj[1] == 'asefile::cel::CelsData::cel' and is_param_path(subj[2][0], 1, ['framedata']) and \
                    is_param(subj[2][1], 2):
                continue
            if cond[0] == 'discr' and cond[1][0] == 'try':
                continue
            extra.append(show(cond)[:90])
        ctx.inst(rule, 'layer_image#unconditional', not extra, 'layer_image draws the cel under conditions other than "the cel exists": %s' % (extra or 'none'),
                 c.span, key=ctx.key(b.name, rule, 'unconditional', ''))


def _range_bounds(v):
    """loop variable v -> (start candidates, end candidates): the bound itself and, for max(a, b) / min(a, b), its arguments"""
    import poly as P
    r_ = P.loop_var_end(v)
    if r_ is None:
        return None
    st_, en = r_

    def cands(t, fn):
        t = strip_casts(t)
        out = [t]
        if t[0] == 'call' and t[1].split('::')[-1] == fn and t[1].startswith(('std::cmp::', 'core::cmp::')) and len(t[2]) == 2:
            out += [strip_casts(a) for a in t[2]]
        return out
    return cands(st_, 'max'), cands(en, 'min')


def offset_origin(v, size_ok):
    """v is a loop variable that runs over (a sub-range of) o .. o + SIZE: returns o (possibly const 0), so that v - o lies in 0..SIZE.
    size_ok(term) says whether a term is the SIZE wanted.  Accepted ranges: o..o+SIZE, 0..SIZE, max(o, _)..min(o+SIZE, _)."""
    import poly as P
    rb = _range_bounds(v)
    if rb is None:
        return None
    starts, ends = rb
    for o in starts:
        po = P.poly(o)
        for e in ends:
            diff = dict(P.poly(e))
            for k_, c_ in po.items():
                diff[k_] = diff.get(k_, 0) - c_
            diff = {k_: c_ for k_, c_ in diff.items() if c_ != 0}
            if len(diff) == 1:
                (k_, c_), = diff.items()
                if c_ == 1 and len(k_) == 1 and size_ok(k_[0]):
                    return o
    return None


def image_delegation(ctx, rule='R5', only=None):
    """Tilemap::image -> Cel::image -> AsepriteFile::layer_image, Frame::image -> frame_image: each returns exactly what the next one
    returns, for its own (file, id), and nothing else in the body gets hold of the image"""
    fx = ctx.fx
    simple = {
        'asefile::tilemap::Tilemap::image': ('asefile::cel::Cel::image', [(1, ['cel'])]),
        'asefile::file::Frame::image': ('asefile::file::AsepriteFile::frame_image', [(1, ['file']), (1, ['index'])]),
        'asefile::cel::Cel::image': ('asefile::file::AsepriteFile::layer_image', [(1, ['file']), (1, ['cel_id'])]),
    }
    for fn, (callee, argspec) in simple.items():
        if only is not None and fn not in only:
            continue
        b = ctx.anchor(fn)
        if b is None:
            continue
        t = res(b).ret()
        ok = t[0] == 'call' and t[1] == callee and len(t[2]) == len(argspec) and all(
            is_param_path(strip_casts(a), i, ns) for a, (i, ns) in zip(t[2], argspec))
        ctx.inst(rule, fn, ok, 'returns %s; must be exactly %s(%s)' % (show(t), callee.split('::')[-1],
                 ', '.join('self.' + '.'.join(ns) for _, ns in argspec)), b.span, key=fn + '|R5|delegate')
        # .. and hands it on untouched: nothing else in the body gets hold of the image (seed C19-h normalised transparent pixels in
        # Cel::image only, so the frame of a single cel and the cel's image differ where alpha is 0)
        for c in q.calls(b):
            cn = q.callee_name(c)
            if cn != callee and any(q.contains(x, t) for x in q.arg_terms(c)):
                ctx.inst(rule, fn + '#postprocess', False, '%s passes the image it got from %s to %s before returning it; the delegating accessors '
                         'must return the shared routine\'s image untouched' % (fn.split('asefile::')[-1], callee.split('::')[-1], cn), c.span,
                         key=ctx.key(fn, rule, 'touch', cn))

