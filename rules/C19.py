"""C19 - all access paths to a cel agree (provenance of the (file, CelId{frame,layer}) pair).

Decides (DESIGN.md section 4, C19): route constructors build the same pair with un-swapped
coordinates; the range asserts are not crossed; the cel table is indexed [frame][layer] everywhere;
Cel accessors are functions of (file, cel_id) only; frame_image/layer_image/Tilemap::image share
one rendering routine.  Does not decide pixel values.
"""
import q
from q import res, is_param, is_param_path, field_path, strip_casts, show, expand, alts, walk

CEL = 'asefile::cel::Cel'
CELID = 'asefile::cel::CelId'
P = 'asefile::'

# public API contract: parameter *positions* (1 = self)
ROUTES = {
    'asefile::file::AsepriteFile::cel': dict(file=('param', 1, []), frame=('param', 2, []), layer=('param', 3, [])),
    'asefile::file::Frame::layer': dict(file=('param', 1, ['file']), frame=('param', 1, ['index']), layer=('param', 2, [])),
    'asefile::layer::Layer::frame': dict(file=('param', 1, ['file']), frame=('param', 2, []), layer=('param', 1, ['layer_id'])),
}


def want(t, spec):
    _, idx, names = spec
    return is_param_path(t, idx, names)


def agg_field(t, name):
    if t[0] == 'agg':
        for f, x in t[3]:
            if f == name:
                return x
    return None


def run(ctx):
    fx = ctx.fx
    ctx.rules = ['R1 route constructors', 'R2 asserts not crossed', 'R3 table indexing', 'R4 accessors',
                 'R5 one rendering routine', 'R6 tilemap route']
    ctx.explanation = (
        'Static provenance check over the MIR of /repo. A Cel handle is the pair (file, CelId{frame,layer}); every '
        'Cel accessor is shown to read only that pair, so the three routes agree iff they build the same pair. '
        'The rule enumerates every Cel{..}/CelId{..} aggregate in the crate and requires each coordinate to have '
        'exactly one origin (the API parameter / handle field of the same coordinate, through one u32->u16 cast), '
        'checks that the range asserts compare frame with num_frames and layer with num_layers, that every index '
        'into CelsData.data is [frame][layer], that frame_image / layer_image / Cel::image / Tilemap::image all '
        'draw through write_cel on a fresh canvas, and that AsepriteFile::tilemap builds its Cel via cel(frame, layer). '
        'Not decided: pixel values (equality of images follows from "same routine, same arguments" plus C16).')

    # ---------- R1: every Cel aggregate in the crate
    cel_aggs = []
    for b in fx.bodies:
        for bb, st, t in q.stmt_aggs(b, CEL):
            cel_aggs.append((b, bb, st, t))
    ctx.floor('Cel aggregates', len(cel_aggs), 3)
    seen_routes = set()
    for b, bb, st, t in cel_aggs:
        spec = ROUTES.get(b.name)
        if spec is None:
            ctx.inst('R1', b.name, False, 'Cel{..} constructed in a function that is not one of the three '
                     'documented routes; its coordinates are not covered by the route table', st['span'],
                     key=ctx.key(b.name, 'R1', 'unlisted-Cel-constructor', ''))
            continue
        seen_routes.add(b.name)
        ctx.functions.add(b.name)
        file_t = agg_field(t, 'file')
        cid = agg_field(t, 'cel_id')
        ok_file = file_t is not None and want(file_t, spec['file'])
        ctx.inst('R1', b.name + '#file', ok_file, 'Cel.file = %s (expected %s)' % (show(file_t), spec['file']),
                 st['span'], key='%s|R1|file' % b.name)
        for coord in ('frame', 'layer'):
            ct = agg_field(cid, coord) if cid is not None and cid[0] == 'agg' else None
            ok = False
            desc = show(ct) if ct is not None else 'not a CelId aggregate: ' + show(cid)
            if ct is not None:
                cs = alts(ct)
                if len(cs) == 1 and cs[0][0] == 'cast' and cs[0][2] == 'u32' and cs[0][3] == 'u16':
                    ok = want(cs[0][1], spec[coord])
            ctx.inst('R1', '%s#%s' % (b.name, coord), ok,
                     'CelId.%s = %s; must be exactly the %s coordinate of this route %s, through one u32->u16 cast'
                     % (coord, desc, coord, spec[coord]), st['span'], key='%s|R1|%s' % (b.name, coord))
    for r in ROUTES:
        if r not in seen_routes:
            if ctx.anchor(r) is not None:
                ctx.fail('%s|R1|no-Cel-aggregate' % r, 'route %s no longer constructs a Cel aggregate directly' % r)

    # ---------- R2: asserts in the routes compare like with like
    def classify(t):
        t = strip_casts(t)
        base, names = field_path(t)
        if t[0] == 'call' and t[1].endswith('AsepriteFile::num_frames'):
            return 'NUM_FRAMES'
        if t[0] == 'call' and t[1].endswith('AsepriteFile::num_layers'):
            return 'NUM_LAYERS'
        if names and names[-1] == 'num_frames':
            return 'NUM_FRAMES'
        return None
    for rn, spec in ROUTES.items():
        b = fx.body(rn)
        if b is None:
            continue
        r = res(b)
        n = 0
        for bi, blk in enumerate(b.blocks):
            tm = blk['term']
            if blk['cleanup'] or not tm or tm['k'] != 'switch':
                continue
            c = r.operand(tm['discr'])
            if c[0] == 'bin' and c[1] in ('Lt', 'Le', 'Gt', 'Ge'):
                lhs, rhs = strip_casts(c[2]), strip_casts(c[3])
                for coord, bound in (('frame', 'NUM_FRAMES'), ('layer', 'NUM_LAYERS')):
                    sp = spec[coord]
                    if sp[2] == [] and is_param(lhs, sp[1]):
                        n += 1
                        ok = c[1] == 'Lt' and classify(c[3]) == bound
                        ctx.inst('R2', '%s#%s' % (rn, coord), ok,
                                 'range assert compares %s coordinate with %s (expected %s < %s)'
                                 % (coord, show(c[3]), coord, bound), tm['span'], key='%s|R2|%s' % (rn, coord))
        need = sum(1 for c in ('frame', 'layer') if spec[c][2] == [])
        ctx.floor('range asserts in %s' % rn.split('::')[-2] + '::' + rn.split('::')[-1], n, need)

    # ---------- R3: CelsData.data is indexed [frame][layer]
    IDX = ('std::ops::Index::index', 'std::ops::IndexMut::index_mut')
    GET = ('core::slice::get', 'core::slice::get_mut', 'std::vec::Vec::get', 'std::vec::Vec::get_mut')      # checked access: same coordinate rule
    TABLE = {
        'asefile::cel::CelsData::cel': dict(frame=[(2, ['frame'])], layer=[(2, ['layer'])], rows=1, cols=1),
        'asefile::cel::CelsData::cel_mut': dict(frame=[(2, ['frame'])], layer=[(2, ['layer'])], rows=1, cols=1),
        'asefile::cel::CelsData::add_cel': dict(frame=[(2, [])], layer=[(3, ['data', 'layer_index'])], rows=1, cols=1),
        'asefile::cel::CelsData::frame_cels': dict(frame=[(2, [])], layer=[], rows=1, cols=0),
    }

    def is_data(t):
        base, names = field_path(t)
        return is_param(base, 1) and names == ['data']

    def is_row(t):
        return t[0] == 'call' and t[1] in IDX and is_data(t[2][0])

    for fn, spec in TABLE.items():
        b = ctx.anchor(fn)
        if b is None:
            continue
        rows = cols = 0
        for c in q.calls(b):
            if c.callee not in IDX and c.callee not in GET:
                continue
            at = q.arg_terms(c)
            base, idx = at[0], strip_casts(at[1])
            if is_data(base):
                rows += 1
                ok = any(is_param_path(idx, i, ns) for i, ns in spec['frame'])
                ctx.inst('R3', fn + '#row', ok, 'outer index of CelsData.data is %s; must be the frame coordinate'
                         % show(idx), c.span, key=ctx.key(fn, 'R3', 'row-index', ''))
            elif any(is_row(x) for x in alts(base)):
                cols += 1
                ok = any(is_param_path(idx, i, ns) for i, ns in spec['layer'])
                ctx.inst('R3', fn + '#col', ok, 'inner index of a CelsData row is %s; must be the layer coordinate'
                         % show(idx), c.span, key=ctx.key(fn, 'R3', 'col-index', ''))
        ctx.floor('row indexings in ' + fn.split('::')[-1], rows, spec['rows'])
        ctx.floor('col indexings in ' + fn.split('::')[-1], cols, spec['cols'])

    # CelsData::validate rebuilds row by row: CelId{frame: outer enumerate idx, layer: inner enumerate idx}
    b = ctx.anchor('asefile::cel::CelsData::validate')
    if b is not None:
        aggs = q.stmt_aggs(b, CELID)
        ctx.floor('CelId aggregates in CelsData::validate', len(aggs), 1)
        nested = 0
        for bb, st, t in aggs:
            fr = strip_casts(agg_field(t, 'frame'))
            ly = strip_casts(agg_field(t, 'layer'))
            # loop variables: next(iter) possibly .0 of an enumerate item
            def itvar(x):
                if x[0] == 'field' and x[2] == '0' and x[1][0] == 'next':
                    return x[1], True
                if x[0] == 'next':
                    return x, False
                return None, False
            fi, fe = itvar(fr)
            li, le = itvar(ly)
            ok = fi is not None and li is not None and fi != li
            detail = 'frame=%s layer=%s' % (show(fr), show(ly))
            if ok and fe and le:
                # inner iterator must iterate the row yielded by the outer one (item .1)
                ok = q.contains(li, ('field', fi, '1')) and any(is_data(x) for x in walk(fi))
                nested += 1
            elif ok:
                # range loops: frame iterates 0..num_frames, layer 0..num_layers
                def rng_end(it):
                    for x in walk(it):
                        if isinstance(x, tuple) and x[0] == 'agg' and x[1] == 'std::ops::Range':
                            return dict(x[3]).get('end')
                    return None
                fe_, le_ = rng_end(fi), rng_end(li)
                ok = (fe_ is not None and le_ is not None
                      and any(n == 'num_frames' for n in field_path(strip_casts(fe_))[1][-1:])
                      and (le_[0] == 'len' or (le_[0] == 'call' and le_[1] == 'std::vec::Vec::len'
                               and field_path(le_[2][0])[1][-1:] == ['layers'])))
            ctx.inst('R3', 'CelsData::validate#CelId', ok,
                     'CelId built in validate: %s; frame must come from the outer (frame) loop and layer from the '
                     'inner (layer) loop' % detail, st['span'], key=ctx.key(b.name, 'R3', 'CelId', ''))
        ctx.floor('nested-enumerate CelId in validate', nested, 1)

    # ---------- R4: accessors
    acc = {
        'asefile::cel::Cel::frame': 'frame', 'asefile::cel::Cel::layer': 'layer',
    }
    for fn, coord in acc.items():
        b = ctx.anchor(fn)
        if b is None:
            continue
        t = res(b).ret()
        ok = t[0] == 'cast' and is_param_path(t[1], 1, ['cel_id', coord])
        ctx.inst('R4', fn, ok, 'returns %s; must be self.cel_id.%s' % (show(t), coord), b.span, key=fn + '|R4')
    LOOKUP = 'asefile::cel::CelsData::cel'
    for fn in ['is_empty', 'user_data', 'top_left', 'is_tilemap', 'raw_cel', 'image']:
        name = 'asefile::cel::Cel::' + fn
        b = ctx.anchor(name)
        if b is None:
            continue
        n = 0
        for c in q.calls(b):
            cn = q.callee_name(c)
            at = q.arg_terms(c)
            if cn == LOOKUP:
                n += 1
                ok = is_param_path(at[0], 1, ['file', 'framedata']) and is_param_path(at[1], 1, ['cel_id'])
                if not ok and fn not in ('raw_cel', 'image'):
                    # for agreement of the routes it is enough that the looked-up id is a function of the handle alone
                    # (which cel a linked cel reports for, say, user data is C10's business, not C19's)
                    ok = is_param_path(at[0], 1, ['file', 'framedata']) and all(x[1] == 1 for x in walk(at[1]) if is_param(x)) and \
                        not any(x[0] in ('static', 'unknown') for x in walk(at[1]))
                ctx.inst('R4', name, ok, 'looks up framedata.cel(%s, %s); must be (self.file.framedata, self.cel_id) (or, for the data accessors, an id derived from self only)'
                         % (show(at[0]), show(at[1])[:120]), c.span, key=ctx.key(name, 'R4', 'lookup', ''))
            elif cn == 'asefile::cel::Cel::raw_cel':
                n += 1
                ctx.inst('R4', name, is_param(at[0], 1), 'raw_cel() receiver is %s; must be self' % show(at[0]),
                         c.span, key=ctx.key(name, 'R4', 'raw_cel', ''))
            elif cn == 'asefile::file::AsepriteFile::layer_image':
                n += 1
                ok = is_param_path(at[0], 1, ['file']) and is_param_path(at[1], 1, ['cel_id'])
                ctx.inst('R4', name, ok, 'layer_image(%s, %s); must be (self.file, self.cel_id)'
                         % (show(at[0]), show(at[1])), c.span, key=ctx.key(name, 'R4', 'layer_image', ''))
            elif cn.startswith('asefile::') and not cn.startswith('closure:'):
                ctx.inst('R4', name, False, 'accessor calls %s, which is not a lookup of (file, cel_id)' % cn,
                         c.span, key=ctx.key(name, 'R4', 'other-call', cn))
        ctx.floor('data sources of Cel::' + fn, n, 1)

    # ---------- R5: one rendering routine
    NEW = 'image::ImageBuffer::new'
    WRITE = 'asefile::file::AsepriteFile::write_cel'
    for fn in ['asefile::file::AsepriteFile::frame_image', 'asefile::file::AsepriteFile::layer_image']:
        b = ctx.anchor(fn)
        if b is None:
            continue
        t = res(b).ret()
        ok = (t[0] == 'call' and t[1] == NEW and len(t[2]) == 2
              and is_param_path(strip_casts(t[2][0]), 1, ['width']) and is_param_path(strip_casts(t[2][1]), 1, ['height']))
        ctx.inst('R5', fn + '#canvas', ok, 'returns %s; must be the fresh canvas RgbaImage::new(self.width, self.height)'
                 % show(t), b.span, key=fn + '|R5|canvas')
        writes = 0
        for c in q.calls(b):
            cn = q.callee_name(c)
            at = q.arg_terms(c)
            touches = any(x == t for x in at)
            if cn == WRITE:
                writes += 1
                cel_t = at[2]
                ok = is_param(at[0], 1) and at[1] == t and any(
                    is_param_path(x, 1, ['framedata']) for x in walk(expand(cel_t, fx, 1)))
                ctx.inst('R5', fn + '#write_cel', ok, 'write_cel(%s, %s, %s); must draw a cel of self.framedata onto '
                         'the returned canvas' % (show(at[0]), show(at[1]), show(cel_t)), c.span,
                         key=ctx.key(fn, 'R5', 'write_cel', ''))
            elif touches and cn != NEW:
                ctx.inst('R5', fn + '#postprocess', False, 'the canvas is also passed to %s; frame_image/layer_image '
                         'must not post-process the image' % cn, c.span, key=ctx.key(fn, 'R5', 'touch', cn))
        ctx.floor('write_cel calls in ' + fn.split('::')[-1], writes, 1)
    import render as _render
    _render.layer_image_unconditional(ctx, rule='R5')
    _render.order(ctx, rule='R5')
    # the slot a cel sits in is its layer index, also after validation (one push per slot of the raw row: I1)
    import invariants as _inv
    ok1, why1 = _inv.Inv(ctx).get('I1')
    ctx.inst('R3', 'validated rows keep slot positions', ok1, why1, None, key='asefile::cel::CelsData::validate|R3|I1')
    ok10, why10 = _inv.Inv(ctx).get('I10')
    ctx.inst('R5', 'parent table', ok10, why10, None, key='asefile::layer::compute_parents|R5|I10')     # what 'visible' walks (seed C19-n)
    import C09 as _c09
    import rule as _R
    # "has a cel" is one notion for all routes: is_empty is exactly `the lookup finds nothing` (seed C19-p called linked cels empty)
    ie_ = ctx.anchor('asefile::cel::Cel::is_empty')
    if ie_ is not None:
        t_ = res(ie_).ret()
        ok_ = t_[0] == 'call' and t_[1] == 'std::option::Option::is_none' and t_[2][0][0] == 'call' and t_[2][0][1] == 'asefile::cel::CelsData::cel'
        ctx.inst('R5', 'Cel::is_empty', ok_, 'is_empty = %s; must be framedata.cel(id).is_none() without negation' % show(t_)[:120], ie_.span, key=ie_.name + '|R5|is_empty')
    _c09.layer_cap(_R.View(ctx, {'V8': 'R5'}))      # layer ids fit the 16 bits of a cel id (seed C19-s removed the cap: layer l >= 65536 read layer l - 65536)
    ok13_, why13_ = _inv.Inv(ctx).get('I13')
    ctx.inst('R5', 'layer ids fit u16', ok13_, why13_, None, key='asefile::layer::LayersData::from_vec|R5|I13')
    _render.opacity_and_mode(ctx, rule_o='R5', rule_m=None)     # every route blends with the same opacity product (seed C19-t)
    _c09.walk_tests_every_member(ctx, rule='R5')      # a hidden nested layer drawn by the frame but not "visible" (seed C19-o)
    _c09.level_source(_R.View(ctx, {'V7': 'R5'}))      # "visible" rests on the nesting levels as the file gives them (seed C19-k: u8)
    _render.gate(ctx, rule='R5')
    _render.drawing_conditions(ctx, 'R5')      # the routes draw a cel under the same conditions: no fast path in one of them          # 'exactly one visible layer': the frame draws a cel iff Layer::is_visible of its layer
    _render.image_delegation(ctx, rule='R5')

    # ---------- R6: AsepriteFile::tilemap builds its Cel through cel(frame, layer_id)
    b = ctx.anchor('asefile::file::AsepriteFile::tilemap')
    if b is not None:
        aggs = q.stmt_aggs(b, 'asefile::tilemap::Tilemap')
        ctx.floor('Tilemap aggregates', len(aggs), 1)
        for bb, st, t in aggs:
            c = agg_field(t, 'cel')
            ok = (c is not None and c[0] == 'call' and c[1] == 'asefile::file::AsepriteFile::cel'
                  and is_param(c[2][0], 1) and is_param(c[2][1], 3) and is_param(c[2][2], 2))
            ctx.inst('R6', b.name, ok, 'Tilemap.cel = %s; must be self.cel(frame /*param 3*/, layer_id /*param 2*/)'
                     % show(c), st['span'], key=b.name + '|R6|cel')
    # context: EMPTY_TILE
    eb = fx.body('asefile::tile::EMPTY_TILE')
    if eb is not None:
        ctx.note('EMPTY_TILE = %s' % show(res(eb).ret()))
    ctx.samples = [i for i in ctx.instances if i['rule'] in ('R1', 'R3', 'R6')][:14]
