#!/usr/bin/env python3
"""Regenerates MANIFEST.json from the tables below (keeps it valid at all times)."""
import json

NA_FIXED = {
    'C03': 'bit-exact numeric equality with an external C++ reference over 2^80 inputs: a value property; no static shape decides it (DESIGN.md section 6). The mode->function dispatch is decided under C02.',
}
PENDING = 'check under construction (DESIGN.md Appendix C); not claimed yet'

CLAIMED = {
    'C19': dict(
        category='other',
        text='Static provenance analysis over rustc MIR: every Cel/CelId construction, every index into the cel table, every Cel accessor and the three image routes are enumerated and shown to use the (file, frame, layer) triple un-swapped, for all inputs. Decides the structural clauses (same pair => same cel); pixel equality then follows from "same routine, same arguments" and is not checked numerically. Also: validated cel rows keep slot positions (one push per slot on every path), the parent table and the unnarrowed nesting level behind \'visible\'. The visibility walk tests every chain member including the layer itself (dataflow rule shared with C09); Cel::is_empty is exactly `the lookup finds nothing`. The three routes draw a cel under the same documented conditions only (no fast path in one of them).',
        design_ref='DESIGN.md section 4, C19',
        note='Trusted: rustc MIR construction, the asemir driver, std Vec/Index semantics. Parameter positions of the public API (cel(frame, layer), Frame::layer(layer), Layer::frame(frame), tilemap(layer, frame)) are the oracle.',
        technique='static analysis: MIR origin/provenance dataflow + dominance (custom rustc_private driver)'),
}

CLAIMED['C08'] = dict(
    category='other',
    text='Static shape analysis over rustc MIR of the five places where tile geometry is computed, with index arithmetic compared as polynomials over atomic terms (so association, commutation, casts and temporaries are irrelevant; only which quantity multiplies which, and which axis meets which dimension, matters). Decided for all inputs: Tilemap::tile reads tiles[(y-oy)*W + (x-ox)] exactly inside 0<=x-ox<W, 0<=y-oy<H and otherwise returns the static EMPTY_TILE whose id is 0; the logical size is the per-axis rounded-up quotient of the canvas and the handle\'s own tileset; tile offsets are the cel position divided per axis by the tile size; tile_image(i) is the i-th block of tw*th pixels as a tw x th image and Tileset::image is all blocks in stored order with height th*count; the tilemap rasteriser blends pixel py*tw+px of tile_slice(tile(tx,ty).id) onto (cel.x+tx*tw+px, cel.y+ty*th+py) with the layer x cel opacity, TilemapData::tile reads tiles[y*W+x], tile_slice cuts pixels[ppt*id .. +ppt], Tilemap::image is its cel\'s image (delegation chain Tilemap::image -> Cel::image -> layer_image, drawn whenever the cel exists, image handed on untouched), the tileset chunk is read and stored as the spec table says; nothing but the per-pixel clip test (or a cull of tiles lying wholly outside the canvas) decides whether a pixel is drawn; and the checked arithmetic of these functions cannot wrap (same discharge rows as C04/C05/C16). NOT decided (and said so in the evidence): numerical agreement of lookup and image when the cel offset is not a multiple of the tile size (truncating division on negative offsets), and pixel values. Also: validate_tile_ids refuses only a tile id of the map >= tile_count, every tileset chunk is decoded wherever it stands, the layer chunk\'s DWORD tileset index is stored as read, no new refusal in the loader. Also: TilesetsById::get(id) is a map lookup of the id among tilesets stored under their own id (not a position).',
    design_ref='DESIGN.md section 13 (supersedes the not-applicable entry of section 4/6 for C08)',
    note='Trusted: rustc MIR, the driver, the row-major contract of image::ImageBuffer::from_raw, Iterator::skip/take and slice indexing. Width safety of the arithmetic is C04/C05/C16, not this check. Accepted spellings of the rounded-up quotient: (p + t - 1) / t in any association, or p.div_ceil(t).',
    technique='static analysis: MIR provenance terms normalised to polynomials over atoms, guard/dominance inspection (custom rustc_private driver)')

CLAIMED['C09'] = dict(
    category='other',
    text='Static shape + provenance analysis over rustc MIR of the three functions that carry the property. compute_parents: one table entry per layer (enumerate over the whole slice, one push per iteration), the entry is None exactly under child_level == 0, otherwise the result of a last-match search (rposition) over the layers before it (take(id)) whose predicate is candidate.child_level < own child_level - by the documented meaning of rposition the nearest preceding layer with a smaller level, hence a lower id; no candidate is a ?-propagated error. Layer::parent() returns that entry for its own id; the level compared is the unnarrowed 16-bit file field, the layer chunk (incl. the flags word that carries the visible bit) is read and stored as the spec table says, and the layer-count cap rejects only more than 65536 layers. An explicit descending search loop with first-match break and a `parent.is_none() -> Err` check is accepted as a second spelling of the search. Layer::is_visible returns false only after a failed VISIBLE test of a member of the chain self, parent, grandparent, ... and true only at a member with no parent whose own test passed, the chain being loop-carried through the parents table (unbounded). frame_image draws a cel only under is_visible() of its layer. Decided for all level sequences because it is the shape of the search, not a sample of its results. Also: layers and cels are collected independently of their order in the file, no new refusal of legal forests (error-construction inventory). A must-dataflow over the CFG of is_visible (any loop shape, helpers inlined) shows that every value the chain cursor takes - the layer itself first - passed its VISIBLE test before it is replaced and before a result that can be true is produced; a stored cel cannot be dropped by a later cel chunk of a lower layer (grow-only rows). Every layer chunk is recorded on every error-free path through its dispatch arm, in any frame.',
    design_ref='DESIGN.md section 13 (supersedes the not-applicable entry of section 4/6 for C09)',
    note='Trusted: rustc MIR, the driver, the documented semantics of Iterator::enumerate/take/rposition (not analysed). The rule recognises the rposition form of the search and the loop (strongly) / recursive / iterator (weakly: unbounded walk + VISIBLE flag) forms of is_visible; a rewrite into a different algorithm is reported as an unrecognised form.',
    technique='static analysis: MIR provenance terms, closure-body inspection, dominance/guards (custom rustc_private driver)')

CLAIMED['C18'] = dict(
    category='other',
    text='Static shape analysis over rustc MIR of src/util.rs in the `utils` configuration (a second fact extraction with --features utils). For a row-major buffer the clamp formula of the statement is exactly: rows 0, 0..h, h-1 and per row pixel 0, pixels 0..w, pixel w-1 written into a (w+2) x (h+2) image - the check shows that extrude_border returns from_raw(w+2, h+2, data), iterates once(0).chain(0..h).chain(once(h-1)), and per row performs exactly three appends from image.as_raw() in that order with the byte ranges [ofs, ofs+4], [ofs, ofs+4w], [ofs+4w-4, ofs+4w], ofs = row*4*w (compared as polynomials over atoms), nothing else writing the buffer. PaletteMapper: lookup returns self.transparent exactly under alpha != 255 and otherwise map.get(r + (g<<8) + (b<<16)) or self.failure; new() stores transparent = options.transparent.unwrap_or(options.failure), failure = options.failure, inserts every palette entry under the same key polynomial (sibling agreement with lookup) with value `index as u8` only under index < 256, else the failure index; to_indexed_image returns (image.dimensions(), pixels().map(lookup(c[0],c[1],c[2],c[3])).collect()). The module has bodies only with the feature. NOT decided: which of several palette entries with equal RGB wins (hash iteration order - the statement avoids it) and pixel values as such.',
    design_ref='DESIGN.md section 13 (supersedes the not-applicable entry of section 4/6 for C18)',
    note='Trusted: rustc MIR, the driver, row-major RGBA8 layout of image::ImageBuffer and row-major order of pixels(), documented behaviour of Iterator::once/chain/map/collect and HashMap::get/insert. An implementation of extrude_border by a different algorithm (e.g. get_pixel with clamped coordinates) is reported as an unrecognised form.',
    technique='static analysis: MIR provenance terms normalised to polynomials over atoms, guard inspection, sibling comparison (custom rustc_private driver, two feature configurations)')

CLAIMED['C15'] = dict(
    category='other',
    text='Static switch-table extraction + error-discipline analysis over rustc MIR: for each documented refusal (colour depth, pixel ratio, layer type, blend mode, cel type, animation direction, colour-profile type/ICC/gamma flag, bits per tile, tilesets without pixels, chunk type) the field is read at its spec position and full width (layout comparison of the refusing decoders; the matcher argument is the whole field, not narrowed), every chunk of a frame reaches the dispatch (chunk-count rule), the accepted constant set is read off the branch, the remaining edge is shown to return Err on every path, the decoder call is shown to dominate the construction of the decoded structure, and its Result is shown to be ?-propagated up to read_aseprite; every fallible call site in the loader cone is checked for dropped errors. Holds for all inputs because it is a property of the branch structure, not of sampled files. Also: every decoded tileset reaches the validation (add() inserts unconditionally), no arm consults other chunks before deciding to decode.',
    design_ref='DESIGN.md section 4, C15',
    note='Trusted: rustc MIR, the driver, the supported value sets transcribed from the file-format spec (DESIGN.md Appendix A). Pixel-ratio rule decided by abstract evaluation of the guard over value classes {0,1,2,255}^2. Does not decide which error variant is returned.',
    technique='static analysis: MIR switch-table extraction, dominance / must-pass-through, Result-propagation (error discipline) dataflow')

CLAIMED['C10'] = dict(
    category='other',
    text='The attachment rule is a finite state machine written as match arms; an effect analysis over rustc MIR (writes through &mut ParseInfo with local callees inlined) reads the whole transition table off the code - per chunk kind the context effect and payload origin, per context the entity written and nothing else - and compares it with the table the property states, together with: no other writer of the state (and none in parse_frame outside the dispatch arms), initial state None, every entity constructed with an empty user-data slot, the tag vector never reordered between decoding and attachment, text/colour read only under their flag bits, accessors return the written field, validation moves entities without dropping user data. Every transition is decided for every arm, hence for every chunk sequence. Also: chunks are dispatched in file order, the context index is kept at >= 32 bits for slices, cel rows only grow, and the three routes to a cel are C19\'s rules (as S6). Also: the call that moves the context is on every error-free path through its dispatch arm (no bypass by an `if let` / `||` test). The record\'s text is the STRING as stored (the reader\'s string primitive is judged here too).',
    design_ref='DESIGN.md section 4, C10',
    note='Trusted: rustc MIR, the driver, documented behaviour of Vec::len/push/get_mut. The oracle table is transcribed from the property statement (DESIGN.md C10).',
    technique='static analysis: MIR effect (write-set) analysis per match arm + provenance + dominance')

CLAIMED['C01'] = dict(
    category='other',
    text='Static layout + provenance analysis over rustc MIR. For each of the 14 decoder bodies every non-error CFG path is enumerated (loops unrolled 0/1/2, reader-taking helpers inlined; nothing is executed), giving labelled sequences of reader-primitive calls that must equal the sequences generated from a hand-transcribed table of the Aseprite file-format spec (widths, signedness, order, optional parts under the right flag bit, repeat counts from the right field). Every stored struct field must then have exactly one origin - the read bound to the like-named spec field - through value-preserving casts, every public getter must return that stored field, no call may reorder layers/tags/slices/keys, frame durations are stored and read at the frame index, every chunk code reaches its own decoder on its own payload, chunk framing rejects exactly the sizes below the 6-byte header or beyond the bytes left in the frame (nothing tighter), palette entries are decoded as under C11 (ids, cumulative legacy offsets, scaling), name lookups scan forward and the layer iterator defines no cursor-moving method besides next(). Decides the structural clauses for all inputs and chunk programs; does not decide that values survive std (UTF-8, HashMap). Also: each arm of the chunk dispatch touches only its own part of the parser state (outcome independent of chunk order), the loader constructs an error of its own at no more places than the reviewed 43 (no new refusal of conformant files), the layer parent search accepts every legal forest. The tables that collect entities across chunks are only grown (push / insert / resize), never reassigned as a whole; STRING is decoded from the bytes as read (nothing touches the buffer in between).',
    design_ref='DESIGN.md section 4, C01',
    note='Trusted: rustc MIR, the driver, tables/spec_layout.json (the oracle, transcribed from the spec document linked by the crate), std container contracts. Loop unrolling bound 2, helper inlining depth 3 (deepest real chain 3).',
    technique='static analysis: bounded CFG path enumeration of read schedules vs spec table + MIR provenance (origin) dataflow')

CLAIMED['C11'] = dict(
    category='other',
    text='Static check of the three palette decoders and of index validation over rustc MIR: layouts of the new and both legacy palette chunks equal the spec table (path enumeration); entry id = first + loop index and is the insertion key; legacy offsets are cumulative across packets, count byte 0 means 256, alpha is 255; the 0x0004/0x0011 decoders are siblings differing exactly in scale_6bit_to_8bit (which rejects >= 64); effect analysis of parse_frame gives palette precedence (new unconditional, legacy only under is_none, no other writer); every Pixels::Indexed construction is dominated by a successful whole-slice validate_indexed_pixels on the same data under Some(palette), and cel and tileset pixels reach the sprite only through that validation. no assignment to ParseInfo.palette exists outside the three palette chunk arms (no invented fallback palette); the two scaling end points the statement names (0 -> 0, 63 -> 255) are decided by constant propagation of those two literals through the call-free result term with u8 wrapping. Decides these clauses for all inputs; the interior of the 6->8 bit map is not part of the statement and not decided. The assignment in the Palette arm is on every error-free path through the arm (bypass search on the CFG, so gates written with || are seen). The old-palette arms store the decoder\'s result untouched: nothing but plumbing is called in the arm, and it has no loop.',
    design_ref='DESIGN.md section 4, C11',
    note='Trusted: rustc MIR, the driver, spec table, IntMap/HashMap semantics. A scaling formula outside the constant propagation (table lookup, call) is recorded as undecided, not reported.',
    technique='static analysis: read-schedule path enumeration vs spec + sibling comparison + effect analysis + must-pass-through dominance')

CLAIMED['C02'] = dict(
    category='other',
    text='Static check of the compositing skeleton over rustc MIR - eight clauses, each a necessary condition of bottom-to-top composition, decided for all inputs: fresh width x height canvas returned; cels visited through data[frame].iter().enumerate().filter_map (ascending layer index) with no early exit; slot storage by (frame, layer) with duplicate cels rejected; the only write_cel in the frame loop dominated by is_visible()==true of the same item\'s layer; per-pixel opacity = mul_un8(layer opacity of the cel\'s own layer, cel opacity); per-pixel function = blend_mode_to_blend_fn(mode of the cel\'s own layer) with the 19-row mode->function and code->mode tables equal to the spec; backdrop read and result store at the same (x, y), source from the cel pixel slice; cel offset sign-extended and every pixel access guarded by 0 <= coord < dimension. Partial: pixel values, clip index arithmetic and mul_un8 rounding are not decided. Also: the Cel arm of the dispatch is independent of the layers seen so far, the parent table / visibility chain is C09\'s, the divisions of blend::normal have the divisor src_a\'+back_a-mul_un8(back_a,src_a\') under back_a != 0 (lemma H3 stated), tile words are decoded with the cel\'s own masks. Also: the visibility walk tests every chain member (C09\'s dataflow rule), a linked cel is drawn by one recursive call on its target (offset and opacity are the target\'s), the layer flags word is converted by a masking conversion. By control dependence, nothing but the documented conditions (loop, lookup, content match, visibility) decides whether a cel is drawn - no fast path or skip under any other test; the layer opacity is the stored byte of every layer.',
    design_ref='DESIGN.md section 4, C02',
    note='Trusted: rustc MIR, the driver, image::ImageBuffer::new zero-fills, the blend-mode numbering of the spec (DESIGN.md Appendix A). Structural clauses only; numeric equality with Aseprite is C03 (not applicable).',
    technique='static analysis: MIR provenance + dominance (guards) + switch-table extraction')

CLAIMED['C06'] = dict(
    category='other',
    text='Static check over rustc MIR of how cel pixels are decoded and handed to the rasteriser, decided for all inputs: cel chunk layout (signed x/y, four cel types, declared payload size w*h*bytes_per_pixel) equals the spec table; cel-type, colour-depth and bytes-per-pixel tables read off the match arms; RGBA = four consecutive byte reads in order, grayscale (v,a) -> [v,v,v,a], indexed -> [c.red,c.green,c.blue,A] with A = 0 exactly under (transparent_index == index && !layer_is_background); background flag from the cel\'s own layer (bit 0x8), transparent index from the header field; linked cels resolved against the same layer in the linked frame and drawn through the same routine; is_empty = is_none without negation; absent cel offset (0,0); opacity product and sign-extended offset as in C02. Partial: pixel values end to end and zlib correctness are not decided. Also: the take() bound of the inflater, Cel::image delegation, the link-target table built from the whole input, grow-only cel rows, the palette decoders (as V), no new refusal in the loader, the divisions of blend::normal. Also: which palette chunk supplies the colours (the new chunk on every path through its arm - no bypass, an old chunk only while none is set). RawPixels::validate hands the decoded pixels on unmodified; no fast path or skip decides whether or how a cel reaches the image (control dependence); the layer opacity is the stored byte.',
    design_ref='DESIGN.md section 4, C06',
    note='Trusted: rustc MIR, the driver, spec table, flate2. Structural clauses only.',
    technique='static analysis: read-schedule path enumeration vs spec + MIR provenance + switch tables + guard dominance')

CLAIMED['C07'] = dict(
    category='other',
    text='Non-interference decided statically over rustc MIR: every read the spec marks ignorable is consumed (layout equality for all 14 decoders) and its value has no use (def-use); every chunk decoder receives only the byte slice of its own chunk and builds a private reader, the chunk buffer is exactly chunk_size - 6 bytes; cel-extra/mask/path arms write no parser state and the colour-profile arm writes only a field nobody reads; the chunk count is new_chunks unless 0, else old_chunks; the pixel-ratio refusal accepts zero components (truth table by abstract evaluation); no reader call after the frames loop, the header file size is unused and the two public loaders hand their input to the one parser without looking at it (callee whitelist); each frame stores its own duration unconditionally (the deprecated header speed cannot show); palette precedence; raw/zlib cel decoders are siblings differing only in take_bytes vs unzip; cels stored by slot with duplicates rejected. Partial: shows absence of flows that could make observations differ; zlib level independence is flate2\'s contract. Also: dispatch arms independent of each other\'s state, chunk framing refuses exactly size < 6 and size > bytes left, flag words are converted through a masking conversion, no new refusal in the loader. Which of the raw / zlib decoders applies is decided by the stored cel type alone (value table of CelContent::parse, its argument the whole field).',
    design_ref='DESIGN.md section 4, C07',
    note='Trusted: rustc MIR, the driver, spec table (which fields are ignorable), flate2.',
    technique='static analysis: def-use (taint) of ignorable reads, effect analysis per match arm, sibling comparison, abstract evaluation of guards')

CLAIMED['C17'] = dict(
    category='other',
    text='Static check of the call structure of blend.rs over rustc MIR: every non-Normal mode is blender(backdrop, src, opacity, its own distinct baseline); every baseline returns normal(backdrop, S\', opacity) on every path with alpha(S\') = alpha of src; blender is merge(merge(N, X, .), X, .) under a visible backdrop and normal(b,s,o) otherwise; normal\'s transparent-backdrop / transparent-source edges and the origin of its general alpha (only the two alphas and opacity); merge\'s alpha = blend8(back_a, src_a, opacity) and invisible-operand edges. From this wiring plus two stated arithmetic helper facts (H1 blend8(a,a,o)=a, H2 merge(c,c,o)=c) the mode-independent alpha law and the transparent-source / transparent-backdrop identities follow. Partial: H1/H2, the 0..255 range clause, the opaque-Normal and zero-opacity identities and all pixel values are NOT decided. Also decided: the divisions of normal (divisor shape under back_a != 0, lemma H3), no assertion site in blend.rs other than the four range assertions of from_rgba_i32 unless discharged, header/layer layouts and the background-flag test. Also: a linked cel takes its target\'s opacity (one recursive call), and the cel opacity is the byte the cel chunk stores, every value of it (layout + store rows of the CEL chunk). No skip or fast path decides whether a cel is blended (control dependence); pixel alpha passes RawPixels::validate unmodified; the layer opacity is the stored byte.',
    design_ref='DESIGN.md section 4, C17',
    note='Trusted: rustc MIR, the driver. Assumptions H1, H2 are listed in the evidence; the range clause would need relational numeric reasoning (a solver) - out of this technique family.',
    technique='static analysis: call-structure provenance over MIR (per-edge return terms, sibling distinctness)')

CLAIMED['C13'] = dict(
    category='other',
    text='For a strict prefix to load, a read that should hit end-of-input must be satisfied short or its failure ignored - both are shapes. Static who-may-call + error-discipline analysis over the loader cone: the input is touched only via read_exact-family calls or read_to_end on a take()/zlib wrapper (take_bytes compares the delivered length); a take() bound lets the whole requested length through; the public loaders add no peeking, sizing or prefetching in front of the parser (callee whitelist); the outer-reader functions use only exact primitives; the frames and chunk loops are 0..count with a ?-propagated parse call on every iteration and no exit but exhaustion or Err; header/frame/chunk layouts equal the spec so every byte before the end of the last frame is covered by an exact read; no Result in the cone is dropped. Decided for all inputs and cut points; the final inference (counts precede their data) is recorded reasoning. The read path (reader primitives, read_aseprite, parse_frame, Chunk::read/read_all) has no undischarged panic-capable site, so a cut ends in an error value; flat_map/flatten over Results counts as a dropped error. The panic-site inventory of the read path includes the closures written in it.',
    design_ref='DESIGN.md section 4, C13',
    note='Trusted: rustc MIR, the driver, the documented contract of read_exact / byteorder read_* (UnexpectedEof on short input).',
    technique='static analysis: who-may-call on the input over the call-graph cone, loop-exit classification, Result-propagation dataflow')
CLAIMED['C14'] = dict(
    category='other',
    text='read_exact/read_to_end are specified to loop over short reads and retry Interrupted, so a parser touching its input only through them is insensitive to reader chunking; the check decides the shapes that make this argument valid, for all schedules: who-may-call on the input over the whole loader cone; no Seek/BufRead call and no branch on io::ErrorKind; IoError is constructed only in From<io::Error>::from from its argument, every io::Result is converted through it (map_err(to_ase) / ? / into()) and never formatted into another variant; Error::source returns Some(err) exactly for IoError; read_file and read reach the single read_aseprite and do nothing else with the input (callee whitelist); a buffering wrapper must own its input (one over a borrowed reader loses its read-ahead); no dropped Result. The crate implements no std::io trait (a wrapper around the input would be called by std, outside the call-graph cone), and ErrorKind is interpreted nowhere in the crate.',
    design_ref='DESIGN.md section 4, C14',
    note='Trusted: rustc MIR, the driver, the std::io::Read contract (also assumed of user readers that override read_exact). Readers violating that contract are out of scope.',
    technique='static analysis: who-may-call + error-discipline dataflow + provenance of error construction')

CLAIMED['C04'] = dict(
    category='other',
    text='Totality of loading is a reachability question over a finite, enumerable set of program points. The check enumerates, from the dev-profile MIR (overflow checks and debug assertions on), every site in the call-graph cone of read_aseprite that can stop the program other than by returning - Assert terminators, panic!/assert! calls, panic-capable external callees (indexing, unwrap, chunks_exact...), allocation sinks, recursion, loops - and requires each to be discharged by an argument valid for all inputs: an interval (width) argument with inter-procedural parameter ranges and dominating constant guards, a dominating guard in the same body, or a table row whose structural obligation is re-verified on every run (e.g. dominated by check_chunk_bytes(..)? which rejects chunk_size < 6). No recursion in the cone; every loop is memory-bounded, bounded by a <=16-bit count, or performs a ?-propagated read each iteration; no Result is dropped. The five loader panics this inventory found on the pinned tree were repaired by fix: commits. Ord::clamp is a panic site (min <= max must follow from the interval analysis); assert!/debug_assert! sites are dropped only when the facts on the failing side contradict each other or the intervals put the operand inside the asserted constant range.',
    design_ref='DESIGN.md section 4, C04 and section 5',
    note='Trusted: rustc MIR, the driver, 64-bit usize, totality of external callees not on the panic-capable list (their distinct count is in the evidence), layer/slice counts fit u32. Allocation failure (abort) is judged under C12.',
    technique='static analysis: panic-site inventory over the call-graph cone + interval (width) domain + dominance guards + obligation table + SCC/loop-progress classification')

CLAIMED['C12'] = dict(
    category='other',
    text='Taint analysis from declared sizes to allocation sinks over the loader cone, value-independent and decided from the code: every allocation sink (with_capacity, vec![x; n], resize/resize_with/reserve, HashMap::with_capacity, read_to_end) gets a byte bound from an interval analysis of its size argument (inter-procedural parameter ranges, dominating constant guards such as .min(CAP)) times rustc\'s element size, and is classified bounded-constant (<= 32 MiB, multiplied by the trip bounds of enclosing loops for in-place growth of parser state), input-justified (length of data already in memory; buffer filled through a bounded reader whose delivered length is compared with the request; read_to_end on take()/zlib) or declared-only (a finding). Growth sinks (push/insert/collect) must sit in loops that are bounded or make ?-propagated progress on the input. Four declared-size allocations found on the pinned tree were repaired by fix: commits; one (add_cel resize_with, D17) is a recorded known finding. collect() into a plain collection over a declared range is a sink; a length that does not depend on the loop item reserved on every iteration is quadratic (reported). A reservation of the bounded readers must be tied to the requested length; in the loader only reference-counted handles and plain small values are cloned.',
    design_ref='DESIGN.md section 4, C12 and section 5',
    note='Trusted: rustc MIR and layout, the driver, 64-bit usize, flate2 expansion <= ~1032:1, amortised growth of Vec/HashMap. The exact 64 MiB + 8192 B/byte constant is not decided; the sum of bounded-constant sinks is reported.',
    technique='static analysis: taint from file-field reads to allocation sinks + interval (width) domain + loop classification')

CLAIMED['C05'] = dict(
    category='other',
    text='Two static halves that must meet. Users: the panic-site inventory (Assert terminators, panic!/assert!, indexing, unwrap/expect, get/put_pixel, recursion) over the call-graph cone of every public accessor and rendering entry point; each site must be discharged by a caller contract (assert on a parameter in a pub fn; internal call sites must satisfy it themselves), a handle invariant (every Layer/Frame/Cel/Tilemap construction stores only asserted or table-derived indices), an interval/guard argument (incl. loop-variable bounds and the y - y0 relational fact), or a named data invariant I1..I12. Establishers: for each invariant the loader check that establishes it is located, shown to reject on its failing edge, to dominate the construction of the protected value and to be ?-propagated on every path up to read_aseprite. Eleven post-load panics found on the pinned tree were repaired by fix: commits; the rows now guard the repairs. Partial: the arithmetic of blend.rs (82 sites, enumerated) is not decided. The three divisions of blend::normal are the one part of blend.rs that is decided (divisor shape + back_a != 0, lemma H3).',
    design_ref='DESIGN.md section 4, C05 and section 5',
    note='Trusted: rustc MIR, the driver, 64-bit usize, callers respect documented index contracts, image::ImageBuffer::from_raw succeeds when the buffer length matches. Establishing comparisons are checked for operands and direction, not re-derived arithmetically.',
    technique='static analysis: panic-site inventory over the public-API cone + invariant/must-pass-through (dominance + error propagation) + interval domain')

CLAIMED['C16'] = dict(
    category='proof',
    text='Clause 1 (Send + Sync) is proof-level: a witness crate applies fn req<T: Send + Sync>() to AsepriteFile and every exported value and handle type; the obligations are discharged by rustc\'s trait solver, with compile_fail twins (Rc wrapper -> E0277, &mut return -> E0308) showing the witnesses can fail. Clauses 2-6 are static rules over the MIR/ADT/HIR facts: the field-type closure of every exported type has no UnsafeCell/Cell/RefCell/Once*/Mutex/RwLock/Atomic*/Rc/raw pointer/dyn; no static mut, thread_local or user-written unsafe; every exported method other than the loaders takes self by shared reference or value and none returns &mut; the loader and accessor cones use no ambient input (time/env/thread/process/fs except File::open in read_file), the process-wide log level decides nothing but whether a record is emitted (the region between a log-level test and its post-dominator assigns no result and writes no parser state), every hash-map iteration is on a reviewed list; every arithmetic trap/wrap site outside blend.rs is discharged and every truncating cast has its operand proven in range (interval, guard or named invariant). One truncation defect (layer ids beyond 65535) was repaired by a fix: commit. No recursive cycle in the loader/accessor cones other than write_cel\'s bounded link step (results independent of the calling thread\'s stack).',
    design_ref='DESIGN.md section 4, C16',
    note='Only clause 1 is proof-level (trusted base: rustc trait solver, std auto-trait impls); clauses 2-6 are level other (static rules; trusted: rustc MIR, the driver, Rust aliasing rules). Not decided: blend.rs channel casts (C17), float determinism across targets, collection sizes bounded only by the input size fitting u32.',
    technique='static analysis: compile-time type witnesses (rustc) + type-closure walk + HIR scan (static/unsafe) + who-may-call + interval domain for casts')

ALL = ['C%02d' % i for i in range(1, 20)]


def main():
    checks = []
    na = []
    for p in ALL:
        if p in CLAIMED:
            c = CLAIMED[p]
            checks.append({
                'property_id': p,
                'quick_cmd': './check %s --tier quick' % p,
                'thorough_cmd': './check %s --tier thorough' % p,
                'evidence_file': '/verif/evidence/%s.json' % p,
                'replay_cmd_template': './check %s --replay {path}' % p,
                'engine': 'asemir',
                'level_claimed': {'category': c['category'], 'text': c['text'], 'design_ref': c['design_ref']},
                'level_note': c['note'],
                'technique': c['technique'],
            })
        elif p in NA_FIXED:
            na.append({'property_id': p, 'reason': NA_FIXED[p]})
        else:
            na.append({'property_id': p, 'reason': PENDING})
    m = {
        'version': 1,
        'setup_cmd': 'cd /verif/driver && CARGO_NET_OFFLINE=true cargo +nightly build --release --offline && cd /verif/witness && cp /repo/Cargo.lock Cargo.lock && CARGO_NET_OFFLINE=true cargo +nightly build --offline',
        'hooks': {
            'guard': 'asefile_verif',
            'enable': 'no hooks: the driver reads the unmodified crate under the real cargo check build',
            'baseline_off_cmd': 'cd /repo && cargo test --workspace --no-fail-fast --offline',
            'source_commits': [],
            'add_only': True,
        },
        'engines': [
            {'name': 'witness', 'path': '/verif/witness', 'serves_properties': ['C16'],
             'kind_free_text': 'compile-pass / compile_fail doc-test witnesses decided by rustc (cargo +nightly test --doc)'},
            {'name': 'asemir', 'path': '/verif/driver', 'serves_properties': sorted(CLAIMED),
             'kind_free_text': 'rustc_private driver (nightly) serialising MIR/ADT/HIR facts of /repo under cargo check; python rules in /verif/rules decide the properties from those facts'},
        ],
        'checks': checks,
        'not_applicable': na,
        'notes': 'Technique family: static analysis only. Every check re-extracts facts from /repo (fresh target dir) and evaluates repository-specific rules; see DESIGN.md.',
    }
    json.dump(m, open('/verif/MANIFEST.json', 'w'), indent=1)
    print('claimed:', sorted(CLAIMED), 'n/a:', [x['property_id'] for x in na])


if __name__ == '__main__':
    main()
