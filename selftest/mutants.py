#!/usr/bin/env python3
"""Checker self-test (DESIGN.md section 7): apply small source mutations to a scratch copy of /repo
and require the named rule to fire (or stay silent for behaviour-preserving refactors).

usage: mutants.py [--only ID[,ID..]] [--prop Cxx] [--jobs N] [--suite]   (--suite also runs cargo test on mutants)
Mutants live in mutants.json: {id, prop:[..], file, find, replace, expect:'fire'|'silent', key: substring, base?: refactoring id applied first}
"""
import json
import os
import subprocess
import sys
import tempfile
import shutil
from concurrent.futures import ThreadPoolExecutor

HERE = os.path.dirname(os.path.abspath(__file__))


def run_one(m, suite=False, src='/repo'):
    tmp = tempfile.mkdtemp(prefix='asemut.')
    try:
        root = os.path.join(tmp, 'repo')
        subprocess.run(['rsync', '-a', '--exclude', 'target', '--exclude', '.git', '--exclude', 'SEED', src.rstrip('/') + '/', root + '/'], check=True)
        if m.get('base'):
            # a mutant of a behaviour-preserving refactoring (selftest/refactorings/<base>.diff): the accepted spelling, broken
            pr = subprocess.run(['patch', '-p1', '-s', '-i', os.path.join(HERE, 'refactorings', m['base'] + '.diff')], cwd=root, capture_output=True, text=True)
            if pr.returncode != 0:
                return m['id'], 'BROKEN-MUTANT', 'base %s does not apply: %s' % (m['base'], pr.stdout[-300:])
        edits = m.get('edits') or [dict(file=m['file'], find=m['find'], replace=m['replace'])]
        for e in edits:
            fp = os.path.join(root, e['file'])
            src = open(fp).read()
            n = src.count(e['find'])
            if e.get('all'):
                if n < 1:
                    return m['id'], 'BROKEN-MUTANT', 'pattern occurs 0 times in %s' % e['file']
            elif n != e.get('count', 1):
                return m['id'], 'BROKEN-MUTANT', 'pattern occurs %d times in %s' % (n, e['file'])
            src = src.replace(e['find'], e['replace'])
            open(fp, 'w').write(src)
        facts = os.path.join(tmp, 'facts.json')
        out = os.path.join(tmp, 'out')
        r = subprocess.run(['/verif/engine/extract.sh', root, out], capture_output=True, text=True)
        if r.returncode != 0:
            return m['id'], 'BROKEN-MUTANT', 'does not compile: ' + r.stderr[-600:]
        shutil.copy(os.path.join(out, 'asefile.json'), facts)
        if suite:
            tr = subprocess.run(['cargo', 'test', '--offline', '--lib', '-q'], cwd=root, capture_output=True, text=True,
                                env=dict(os.environ, CARGO_TARGET_DIR=os.path.join(tmp, 'tgt'), CARGO_NET_OFFLINE='true'))
            if tr.returncode != 0:
                return m['id'], 'SUITE-FAILS', tr.stdout[-400:]
        res = []
        good = True
        for prop in m['prop']:
            env = dict(os.environ, ASEFILE_ROOT=root, VERIF_EVIDENCE_DIR=os.path.join(tmp, 'ev'))
            c = subprocess.run(['python3', '/verif/engine/run.py', prop, '--facts', facts], capture_output=True, text=True, env=env)
            fired = c.returncode == 1 and 'VIOLATION property=' + prop in c.stdout
            if c.returncode not in (0, 1):
                good = False
                res.append('%s: CRASH %s' % (prop, (c.stderr or c.stdout)[-500:]))
                continue
            if m['expect'] == 'fire':
                okk = fired and (not m.get('key') or m['key'] in c.stdout)
                if not okk:
                    good = False
                res.append('%s: %s%s' % (prop, 'fired' if fired else 'silent',
                                          '' if okk else ' (expected fire with key~%s)\n%s' % (m.get('key'), c.stdout[-700:])))
            else:
                if fired:
                    good = False
                res.append('%s: %s%s' % (prop, 'fired' if fired else 'silent', '' if not fired else '\n' + c.stdout[-700:]))
        return m['id'], 'ok' if good else 'MISMATCH', '; '.join(res)
    finally:
        shutil.rmtree(tmp, ignore_errors=True)


def main():
    ms = json.load(open(os.path.join(HERE, 'mutants.json')))
    only = None
    prop = None
    jobs = 8
    suite = False
    a = sys.argv[1:]
    i = 0
    while i < len(a):
        if a[i] == '--only':
            only = set(a[i + 1].split(','))
            i += 2
        elif a[i] == '--prop':
            prop = a[i + 1]
            i += 2
        elif a[i] == '--jobs':
            jobs = int(a[i + 1])
            i += 2
        elif a[i] == '--suite':
            suite = True
            i += 1
        else:
            i += 1
    sel = [m for m in ms if (only is None or m['id'] in only) and (prop is None or prop in m['prop'])]
    bad = 0
    with ThreadPoolExecutor(max_workers=jobs) as ex:
        for mid, status, info in ex.map(lambda m: run_one(m, suite), sel):
            print('%-28s %-14s %s' % (mid, status, info))
            if status != 'ok':
                bad += 1
    print('%d mutants, %d not as expected' % (len(sel), bad))
    return 1 if bad else 0


if __name__ == '__main__':
    sys.exit(main())
