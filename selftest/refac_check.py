#!/usr/bin/env python3
"""Negative controls (development tool): apply behaviour-preserving patches to scratch copies of /repo and require every claimed
check to stay silent.  usage: refac_check.py <patch.diff> [<patch.diff> ...] [--jobs N]   -> one line per patch, exit 1 if any check fires"""
import json
import os
import shutil
import subprocess
import sys
import tempfile
from concurrent.futures import ThreadPoolExecutor


def claimed():
    m = json.load(open('/verif/MANIFEST.json'))
    return sorted(c['property_id'] for c in m['checks'])


def one(patch, props):
    tmp = tempfile.mkdtemp(prefix='refac.')
    try:
        root = os.path.join(tmp, 'repo')
        subprocess.run(['rsync', '-a', '--exclude', 'target', '--exclude', '.git', '/repo/', root + '/'], check=True)
        r = subprocess.run(['patch', '-p1', '-s', '-i', patch], cwd=root, capture_output=True, text=True)
        if r.returncode != 0:
            return patch, None, 'patch does not apply: ' + (r.stdout + r.stderr)[-200:]
        out = os.path.join(tmp, 'out')
        r = subprocess.run(['/verif/engine/extract.sh', root, out], capture_output=True, text=True)
        if r.returncode != 0:
            return patch, None, 'does not compile: ' + r.stderr[-300:]
        facts = os.path.join(out, 'asefile.json')
        fired = {}
        for p in props:
            env = dict(os.environ, ASEFILE_ROOT=root, VERIF_EVIDENCE_DIR=os.path.join(tmp, 'ev'))
            c = subprocess.run(['python3', '/verif/engine/run.py', p, '--facts', facts], capture_output=True, text=True, env=env)
            if c.returncode != 0:
                o = c.stdout + c.stderr
                msgs = [l.strip() for l in o.splitlines() if l.startswith('  ') and not l.startswith('  key') and not l.startswith('  at')]
                fired[p] = (msgs or [o[-300:]])[:3]
        return patch, fired, ''
    finally:
        shutil.rmtree(tmp, ignore_errors=True)


def main():
    a = sys.argv[1:]
    jobs = 8
    patches = []
    i = 0
    while i < len(a):
        if a[i] == '--jobs':
            jobs = int(a[i + 1]); i += 2
        else:
            patches.append(a[i]); i += 1
    props = claimed()
    bad = 0
    with ThreadPoolExecutor(max_workers=jobs) as ex:
        for patch, fired, err in ex.map(lambda p: one(p, props), patches):
            if fired is None:
                print('%s ERROR %s' % (patch, err)); bad += 1
            elif fired:
                bad += 1
                print('%s ALARM %s' % (patch, sorted(fired)))
                for p, ms in sorted(fired.items()):
                    for m in ms:
                        print('      %s: %s' % (p, m[:260]))
            else:
                print('%s silent' % patch)
    return 1 if bad else 0


if __name__ == '__main__':
    sys.exit(main())
