#!/usr/bin/env python3
"""Re-run every claimed check against every stored seeded breakage (development tool, not a registered check).
For each /verif/seeded/<id>/: rsync /repo to a scratch dir, `git apply`-style patch it (patch -p1), extract facts, run all claimed
rules, and rewrite meta.json['caught_by'].  Prints one line per seed; exit 1 if a seed is caught by no check, or not by the
check of the property it was written to break (printed as WEAK).
usage: seed_recheck.py [--jobs N] [--only ID,ID] [--no-write]"""
import json
import os
import shutil
import subprocess
import sys
import tempfile
from concurrent.futures import ThreadPoolExecutor

SEEDED = '/verif/seeded'


def claimed():
    m = json.load(open('/verif/MANIFEST.json'))
    return sorted(c['property_id'] for c in m['checks'])


def one(sid, props, write=True):
    d = os.path.join(SEEDED, sid)
    tmp = tempfile.mkdtemp(prefix='seedre.')
    try:
        root = os.path.join(tmp, 'repo')
        subprocess.run(['rsync', '-a', '--exclude', 'target', '--exclude', '.git', '/repo/', root + '/'], check=True)
        r = subprocess.run(['patch', '-p1', '-s', '-i', os.path.join(d, 'patch.diff')], cwd=root, capture_output=True, text=True)
        if r.returncode != 0:
            return sid, None, 'patch does not apply: ' + (r.stdout + r.stderr)[-200:]
        out = os.path.join(tmp, 'out')
        r = subprocess.run(['/verif/engine/extract.sh', root, out], capture_output=True, text=True)
        if r.returncode != 0:
            return sid, None, 'does not compile'
        facts = os.path.join(out, 'asefile.json')
        fired = {}
        for p in props:
            env = dict(os.environ, ASEFILE_ROOT=root, VERIF_EVIDENCE_DIR=os.path.join(tmp, 'ev'))
            c = subprocess.run(['python3', '/verif/engine/run.py', p, '--facts', facts], capture_output=True, text=True, env=env)
            if c.returncode == 1 and 'VIOLATION property=' + p in c.stdout:
                o = c.stdout
                msgs = [l.strip() for l in o.splitlines() if l.startswith('  ') and not l.startswith('  key') and not l.startswith('  at')]
                keys = [l.strip()[5:] for l in o.splitlines() if l.startswith('  key:')]
                fired[p] = {'violations': o.count('VIOLATION property='), 'first': (msgs or [''])[0][:300], 'keys': keys[:6]}
            elif c.returncode not in (0, 1):
                fired[p] = {'violations': 0, 'first': 'CRASH ' + (c.stderr or c.stdout)[-200:], 'keys': []}
        if write:
            mp = os.path.join(d, 'meta.json')
            meta = json.load(open(mp))
            meta['caught_by'] = fired
            json.dump(meta, open(mp, 'w'), indent=1)
        return sid, fired, ''
    finally:
        shutil.rmtree(tmp, ignore_errors=True)


def main():
    a = sys.argv[1:]
    jobs = 8
    only = None
    write = True
    i = 0
    while i < len(a):
        if a[i] == '--jobs':
            jobs = int(a[i + 1]); i += 2
        elif a[i] == '--only':
            only = set(a[i + 1].split(',')); i += 2
        elif a[i] == '--no-write':
            write = False; i += 1
        else:
            i += 1
    props = claimed()
    ids = sorted(x for x in os.listdir(SEEDED) if os.path.isdir(os.path.join(SEEDED, x)) and (only is None or x in only))
    bad = 0
    with ThreadPoolExecutor(max_workers=jobs) as ex:
        for sid, fired, err in ex.map(lambda s: one(s, props, write), ids):
            own = sid.split('-')[0]
            if fired is None:
                print('%-8s ERROR %s' % (sid, err)); bad += 1
                continue
            tag = 'ok  ' if own in fired else ('WEAK' if fired else 'MISS')
            if tag != 'ok  ':
                bad += 1
            crash = [p for p, v in fired.items() if v['first'].startswith('CRASH')]
            print('%-8s %s caught by %s%s' % (sid, tag, sorted(fired), ('  CRASH in %s' % crash) if crash else ''))
    print('%d seeds, %d not caught by their own property\'s check' % (len(ids), bad))
    return 1 if bad else 0


if __name__ == '__main__':
    sys.exit(main())
