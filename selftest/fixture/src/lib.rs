//! Positive controls for rules whose expected match count on the real crate is zero (DESIGN.md section 7).
//! Each item below contains exactly one instance of a pattern a rule must recognise; the thorough tier runs
//! the same driver and the same rule functions over this crate and fails if a pattern is no longer found.
#![allow(dead_code, unused_variables, clippy::all)]

use std::cell::RefCell;
use std::collections::HashMap;
use std::io::{self, BufRead, Read, Seek, SeekFrom};

// ---- C16 S2: interior mutability inside an exported type
pub struct Cached {
    pub value: u32,
    cache: RefCell<Option<u32>>,
}

// ---- C16 S3: static mut, thread_local, unsafe block / fn / impl
static mut COUNTER: u32 = 0;
thread_local! { static TL: RefCell<u32> = RefCell::new(0); }

pub struct Wrapper(*const u8);
unsafe impl Sync for Wrapper {}

pub unsafe fn unsafe_fn() {}

pub fn unsafe_block() -> u32 {
    unsafe {
        COUNTER += 1;
        COUNTER
    }
}

pub fn thread_local_use() -> u32 {
    TL.with(|t| *t.borrow())
}

// ---- C16 S4: an accessor that mutates through &mut self and hands out &mut
impl Cached {
    pub fn bump(&mut self) -> &mut u32 {
        self.value += 1;
        &mut self.value
    }
}

// ---- C16 S5: ambient input and hash-order dependence
pub fn ambient() -> u64 {
    std::time::SystemTime::now().duration_since(std::time::UNIX_EPOCH).map(|d| d.as_secs()).unwrap_or(0)
}

pub fn hash_order(m: &HashMap<u32, u32>) -> Vec<u32> {
    m.keys().copied().collect()
}

// ---- C13 / C14: short reads, seeking, buffered reads, error-kind interpretation
pub fn short_read<R: Read>(mut r: R) -> io::Result<usize> {
    let mut buf = [0u8; 16];
    r.read(&mut buf)
}

pub fn seeks<R: Read + Seek>(mut r: R) -> io::Result<u64> {
    r.seek(SeekFrom::Start(4))
}

pub fn buffered<R: BufRead>(mut r: R) -> io::Result<usize> {
    let mut s = String::new();
    r.read_line(&mut s)
}

pub fn eof_means_done<R: Read>(mut r: R) -> io::Result<u8> {
    let mut b = [0u8; 1];
    match r.read_exact(&mut b) {
        Err(e) if e.kind() == io::ErrorKind::UnexpectedEof => Ok(0),
        Err(e) => Err(e),
        Ok(()) => Ok(b[0]),
    }
}

pub fn raw_read_to_end<R: Read>(mut r: R) -> io::Result<Vec<u8>> {
    let mut v = Vec::new();
    r.read_to_end(&mut v)?;
    Ok(v)
}

// ---- P8 error discipline: a dropped Result, an .ok(), an unwrap_or
fn fallible(x: u8) -> Result<u8, String> {
    if x > 3 {
        Err("big".into())
    } else {
        Ok(x)
    }
}

pub fn drops_result(x: u8) -> Result<u8, String> {
    let _ = fallible(x);
    fallible(1)
}

pub fn oks_result(x: u8) -> Result<u8, String> {
    let v = fallible(x).ok();
    Ok(v.unwrap_or(0))
}

pub fn unwrap_or_result(x: u8) -> Result<u8, String> {
    let v = fallible(x).unwrap_or(0);
    Ok(v)
}

// ---- C04 / C05: recursion, unchecked arithmetic, unguarded index, unwrap, declared-size allocation, no-progress loop
pub fn recursive(n: u32) -> u32 {
    if n == 0 {
        0
    } else {
        recursive(n - 1) + 1
    }
}

pub fn unchecked_mul(a: u32, b: u32) -> u32 {
    a * b
}

pub fn unguarded_index(v: &[u8], i: usize) -> u8 {
    v[i]
}

pub fn unwraps(o: Option<u8>) -> u8 {
    o.unwrap()
}

pub fn declared_alloc(n: u32) -> Vec<u8> {
    Vec::with_capacity(n as usize)
}

pub fn truncating_cast(x: u32) -> u16 {
    x as u16
}

pub fn no_progress(n: u32) -> u32 {
    let mut acc = 0u32;
    for i in 0..n {
        acc = acc.wrapping_add(i);
    }
    acc
}
