#!/usr/bin/env python3
"""Evaluate a seeded breakage written by an independent sub-agent (development tool, not a registered check).
usage: seed_eval.py <worktree> <seed-dir> -> JSON summary on stdout
 1. demo passes on the clean worktree; 2. with the patch: the unedited suite still passes, the demo fails;
 3. facts are extracted from the patched worktree and every claimed rule is run against them."""
import json
import os
import subprocess
import sys
import shutil
import tempfile

CLAIMED = ['C01', 'C02', 'C04', 'C05', 'C06', 'C07', 'C08', 'C09', 'C10', 'C11', 'C12', 'C13', 'C14', 'C15', 'C16', 'C17', 'C18', 'C19']


def sh(cmd, cwd=None, env=None, timeout=1800):
    r = subprocess.run(cmd, cwd=cwd, capture_output=True, text=True, env=env, timeout=timeout)
    return r.returncode, (r.stdout + r.stderr)


def main():
    wt, seed = sys.argv[1], sys.argv[2]
    name = os.path.basename(seed.rstrip('/'))
    out = {'worktree': wt, 'seed': seed}
    env = dict(os.environ, CARGO_NET_OFFLINE='true')
    feat = ['--features', 'utils'] if os.path.basename(wt.rstrip('/')) == 'C18' else []
    sh(['git', 'checkout', '--', '.'], cwd=wt)
    demo_dst = os.path.join(wt, 'tests', 'demo_%s.rs' % name)
    shutil.copy(os.path.join(seed, 'demo.rs'), demo_dst)
    try:
        rc, o = sh(['cargo', 'test', '--offline'] + feat + ['--test', 'demo_%s' % name], cwd=wt, env=env)
        out['demo_passes_clean'] = rc == 0
        rc, o = sh(['git', 'apply', os.path.join(seed, 'patch.diff')], cwd=wt)
        out['patch_applies'] = rc == 0
        if rc != 0:
            out['error'] = o[-400:]
            print(json.dumps(out, indent=1))
            return
        rc, o = sh(['cargo', 'test', '--offline', '--lib'] + feat, cwd=wt, env=env)
        out['suite_passes_with_patch'] = rc == 0 and ('50 passed' in o or (feat and '52 passed' in o))
        rc2, o2 = sh(['cargo', 'test', '--offline', '--doc'] + feat, cwd=wt, env=env)
        out['doctests_pass_with_patch'] = rc2 == 0
        rc, o = sh(['cargo', 'test', '--offline'] + feat + ['--test', 'demo_%s' % name], cwd=wt, env=env)
        out['demo_fails_with_patch'] = rc != 0
        out['demo_failure'] = [l for l in o.splitlines() if 'panicked' in l or 'left:' in l or 'right:' in l or 'FAILED' in l][:6]
        # static checks against the patched tree
        os.remove(demo_dst)
        tmp = tempfile.mkdtemp(prefix='seedev.')
        try:
            rc, o = sh(['/verif/engine/extract.sh', wt, os.path.join(tmp, 'out')])
            if rc != 0:
                out['extract_error'] = o[-400:]
            else:
                facts = os.path.join(tmp, 'out', 'asefile.json')
                fired = {}
                for p in CLAIMED:
                    e2 = dict(os.environ, ASEFILE_ROOT=wt, VERIF_EVIDENCE_DIR=os.path.join(tmp, 'ev'))
                    rc, o = sh(['python3', '/verif/engine/run.py', p, '--facts', facts], env=e2)
                    if rc == 1:
                        msgs = [l.strip() for l in o.splitlines() if l.startswith('  ') and not l.startswith('  key') and not l.startswith('  at')]
                        keys = [l.strip()[5:] for l in o.splitlines() if l.startswith('  key:')]
                        fired[p] = {'n': o.count('VIOLATION property='), 'first': msgs[:2], 'keys': keys[:3]}
                    elif rc != 0:
                        fired[p] = {'crash': o[-300:]}
                out['checks_fired'] = fired
        finally:
            shutil.rmtree(tmp, ignore_errors=True)
    finally:
        if os.path.exists(demo_dst):
            os.remove(demo_dst)
        sh(['git', 'checkout', '--', '.'], cwd=wt)
    print(json.dumps(out, indent=1))


if __name__ == '__main__':
    main()
