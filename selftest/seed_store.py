#!/usr/bin/env python3
"""Store an evaluated seeded breakage under /verif/seeded/<id>/ (patch.diff, demo.rs, meta.json).
usage: seed_store.py <prop> <a|b|...> [<source-worktree-root>=/tmp/seed]"""
import json
import os
import shutil
import subprocess
import sys

prop, name = sys.argv[1], sys.argv[2]
root = sys.argv[3] if len(sys.argv) > 3 else '/tmp/seed'
wt = os.path.join(root, prop)
seed = os.path.join(wt, 'SEED', name)
r = subprocess.run(['python3', '/verif/selftest/seed_eval.py', wt, seed], capture_output=True, text=True)
t = r.stdout
ev = json.loads(t[t.find('{'):])
ok = all(ev.get(k) for k in ('demo_passes_clean', 'patch_applies', 'suite_passes_with_patch', 'demo_fails_with_patch'))
sid = '%s-%s' % (prop, name)
dst = os.path.join('/verif/seeded', sid)
if not ok:
    print(sid, 'NOT CONFIRMED', {k: v for k, v in ev.items() if k != 'checks_fired'})
    sys.exit(1)
os.makedirs(dst, exist_ok=True)
shutil.copy(os.path.join(seed, 'patch.diff'), os.path.join(dst, 'patch.diff'))
shutil.copy(os.path.join(seed, 'demo.rs'), os.path.join(dst, 'demo.rs'))
meta = json.load(open(os.path.join(seed, 'meta.json')))
meta['id'] = sid
meta['breaks_property'] = prop
meta['author'] = 'independent sub-agent (given only the property text and a scratch worktree)'
meta['confirmed_by_me'] = {
    'what_i_ran': ['cargo test --offline --test demo_%s (clean worktree): passes' % name,
                   'git apply patch.diff; cargo test --offline --lib (50 tests) and --doc: pass',
                   'cargo test --offline --test demo_%s (patched): FAILS' % name,
                   'engine/extract.sh <patched worktree>; engine/run.py Cxx for all 15 claimed properties'],
    'demo_failure': ev.get('demo_failure'),
}
meta['caught_by'] = {p: {'violations': v.get('n'), 'first': (v.get('first') or [''])[0][:300], 'keys': v.get('keys')} for p, v in ev.get('checks_fired', {}).items()}
json.dump(meta, open(os.path.join(dst, 'meta.json'), 'w'), indent=1)
print(sid, 'stored; caught by', sorted(meta['caught_by']))
