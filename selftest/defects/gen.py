#!/usr/bin/env python3
"""Throw-away generator of minimal .aseprite byte strings that reproduce the defects of DESIGN.md section 5.
Development aid only (shows a failing input before calling something a defect); not part of any registered check."""
import struct
import sys
import zlib
import os


def header(frames, w=4, h=4, depth=32, size=0, tci=0, pw=1, ph=1, ncolors=0, speed=100):
    return struct.pack('<IHHHHHIHIIBBBBHBBhhHH', size, 0xA5E0, frames, w, h, depth, 0, speed, 0, 0, tci, 0, 0, 0, ncolors, pw, ph, 0, 0, 0, 0) + b'\0' * 84


def chunk(ty, payload, size=None):
    return struct.pack('<IH', size if size is not None else len(payload) + 6, ty) + payload


def frame(chunks, nbytes=None, dur=100):
    body = b''.join(chunks)
    return struct.pack('<IHHHHI', nbytes if nbytes is not None else len(body) + 16, 0xF1FA, min(len(chunks), 0xFFFF), dur, 0, len(chunks)) + body


def s(txt):
    b = txt.encode()
    return struct.pack('<H', len(b)) + b


def layer(name='L', flags=1, ty=0, level=0, blend=0, opacity=255, tileset=None):
    p = struct.pack('<HHHHHHBBH', flags, ty, level, 0, 0, blend, opacity, 0, 0) + s(name)
    if ty == 2:
        p += struct.pack('<I', tileset)
    return chunk(0x2004, p)


def cel_raw(layer_i, w, h, pixels, x=0, y=0, opacity=255):
    return chunk(0x2005, struct.pack('<HhhBH', layer_i, x, y, opacity, 0) + b'\0' * 7 + struct.pack('<HH', w, h) + pixels)


def cel_z(layer_i, w, h, pixels, x=0, y=0, opacity=255):
    return chunk(0x2005, struct.pack('<HhhBH', layer_i, x, y, opacity, 2) + b'\0' * 7 + struct.pack('<HH', w, h) + zlib.compress(pixels))


def cel_link(layer_i, target):
    return chunk(0x2005, struct.pack('<HhhBH', layer_i, 0, 0, 255, 1) + b'\0' * 7 + struct.pack('<H', target))


def cel_tilemap(layer_i, w, h, tiles, x=0, y=0):
    data = b''.join(struct.pack('<I', t) for t in tiles)
    return chunk(0x2005, struct.pack('<HhhBH', layer_i, x, y, 255, 3) + b'\0' * 7 +
                 struct.pack('<HHHIIII', w, h, 32, 0x1fffffff, 0x20000000, 0x40000000, 0x80000000) + b'\0' * 10 + zlib.compress(data))


def tileset(tid, ntiles, tw, th, pixels, flags=2):
    p = struct.pack('<IIIHHh', tid, flags, ntiles, tw, th, 1) + b'\0' * 14 + s('ts')
    if flags & 2:
        z = zlib.compress(pixels)
        p += struct.pack('<I', len(z)) + z
    return chunk(0x2023, p)


def palette_new(first, last, entries):
    p = struct.pack('<III', len(entries), first, last) + b'\0' * 8
    for e in entries:
        p += struct.pack('<HBBBB', 0, *e)
    return chunk(0x2019, p)


def ext_files(n, entries=()):
    p = struct.pack('<I', n) + b'\0' * 8
    for i, name in entries:
        p += struct.pack('<I', i) + b'\0' * 8 + s(name)
    return chunk(0x2008, p)


RGBA16 = bytes([1, 2, 3, 255]) * 16
CASES = {}
CASES['ok_basic'] = header(1) + frame([layer(), cel_raw(0, 4, 4, RGBA16)])
CASES['D1_first_layer_child'] = header(1) + frame([layer(level=1), cel_raw(0, 4, 4, RGBA16)])
CASES['D2_cel_layer_out_of_range'] = header(1) + frame([layer(), cel_raw(5, 4, 4, RGBA16)])
CASES['D3_link_frame_out_of_range'] = header(1) + frame([layer(), cel_link(0, 7)])
CASES['D4_palette_range_overflow'] = header(1) + frame([layer(), palette_new(0, 0xFFFFFFFF, [])])
CASES['D5_tileset_count_overflow'] = header(1) + frame([tileset(0, 0xFFFFFFFF, 2, 2, b'')])
CASES['D5b_tileset_count_overflow'] = header(1) + frame([tileset(0, 0x40000000, 2, 2, b'')])
CASES['D6_linked_cel_beyond_layers'] = header(2) + frame([layer(), cel_raw(0, 4, 4, RGBA16)]) + frame([cel_raw(0, 4, 4, RGBA16), cel_link(1, 0)])
CASES['D7_short_zlib_cel'] = header(1) + frame([layer(), cel_z(0, 4, 4, bytes([1, 2, 3, 255]) * 4)])
CASES['D8_tile_id_out_of_range'] = header(1) + frame([tileset(0, 2, 2, 2, bytes([9, 9, 9, 255]) * 8), layer(ty=2, tileset=0), cel_tilemap(1 - 1, 2, 2, [0, 1, 9, 0])])
CASES['D9_zero_tile_size'] = header(1) + frame([tileset(0, 1, 0, 0, b''), layer(ty=2, tileset=0), cel_tilemap(0, 1, 1, [0])])
CASES['D10_short_tilemap'] = header(1) + frame([tileset(0, 2, 2, 2, bytes([9, 9, 9, 255]) * 8), layer(ty=2, tileset=0), cel_tilemap(0, 2, 2, [0, 1])])
CASES['D11_short_tileset_pixels'] = header(1) + frame([tileset(0, 2, 2, 2, bytes([9, 9, 9, 255]) * 2), layer(ty=2, tileset=0), cel_tilemap(0, 1, 1, [0])])
CASES['D12_deep_nesting'] = header(1) + frame([layer(ty=1, level=i, name='g') for i in range(60000)])
CASES['D13_unzip_declared_huge'] = header(1) + frame([layer(), cel_z(0, 20000, 20000, b'\1\2\3\4')])
CASES['D14_take_bytes_declared_huge'] = header(1) + frame([layer(), cel_raw(0, 20000, 20000, b'\1\2\3\4')])
CASES['D15_chunk_declared_huge'] = header(1) + struct.pack('<IHHHHI', 0x40000010, 0xF1FA, 1, 100, 0, 1) + struct.pack('<IH', 0x40000000, 0x2004) + b'\0' * 16
CASES['D16_external_files_count'] = header(1) + frame([ext_files(0x01000000)])
CASES['D17_cel_layer_65535'] = header(40) + b''.join(frame([chunk(0x2005, struct.pack('<HhhBH', 65535, 0, 0, 255, 1) + b'\0' * 7 + struct.pack('<H', 0))]) for _ in range(40))
CASES['D19_more_than_65536_layers'] = header(1) + frame([layer(name='x')] * 66001 + [cel_raw(464, 4, 4, RGBA16)])
CASES['ok_tilemap'] = header(1, w=4, h=4) + frame([tileset(0, 2, 2, 2, bytes([9, 9, 9, 255]) * 8), layer(ty=2, tileset=0), cel_tilemap(0, 2, 2, [0, 1, 1, 0])])
CASES['ok_link'] = header(2) + frame([layer(), cel_raw(0, 4, 4, RGBA16)]) + frame([cel_link(0, 0)])
CASES['ok_groups'] = header(1) + frame([layer(ty=1, level=0, name='g'), layer(level=1), layer(ty=1, level=1, name='g2'), layer(level=2), layer(level=0), cel_raw(1, 4, 4, RGBA16)])
CASES['ok_palette_sparse'] = header(1, depth=8) + frame([palette_new(3, 5, [(1, 2, 3, 255)] * 3), layer(), cel_raw(0, 2, 2, bytes([3, 4, 5, 3]))])

if __name__ == '__main__':
    out = sys.argv[1]
    os.makedirs(out, exist_ok=True)
    for k, v in CASES.items():
        open(os.path.join(out, k + '.aseprite'), 'wb').write(v)
    print(len(CASES), 'files in', out)
