// Loads every file given on the command line and exercises the whole read API; prints one line per file.
use asefile::AsepriteFile;
use std::panic;

fn exercise(f: &AsepriteFile) {
    let _ = (f.width(), f.height(), f.num_frames(), f.num_layers(), f.pixel_format(), f.palette().map(|p| p.num_colors()));
    for l in f.layers() {
        let _ = (l.name().len(), l.flags(), l.blend_mode(), l.opacity(), l.layer_type(), l.is_visible(), l.parent().map(|p| p.id()), l.user_data());
    }
    for fr in 0..f.num_frames() {
        let frame = f.frame(fr);
        let _ = frame.duration();
        let _ = frame.image();
        for l in 0..f.num_layers() {
            let c = f.cel(fr, l);
            let _ = (c.is_empty(), c.top_left(), c.user_data(), c.is_tilemap());
            let _ = c.image();
            if let Some(tm) = f.tilemap(l, fr) {
                let _ = tm.image();
                for y in 0..tm.height() + 2 {
                    for x in 0..tm.width() + 2 {
                        let _ = tm.tile(x, y).id();
                    }
                }
                let _ = (tm.tile_offsets(), tm.pixel_offsets(), tm.tile_size());
            }
        }
    }
    for ts in f.tilesets().iter() {
        let _ = ts.image();
        for i in 0..ts.tile_count().min(64) {
            let _ = ts.tile_image(i);
        }
    }
    for i in 0..f.num_tags() {
        let _ = f.tag(i).name();
    }
    if f.num_layers() > 66000 {
        println!("  D19: cel(0, 66000).is_empty() = {} (layer 66000 has no cel; layer 464 has one)", f.cel(0, 66000).is_empty());
    }
    let _ = f.slices().len();
    let _ = format!("{:?}", f).len();
}

fn main() {
    panic::set_hook(Box::new(|_| {}));
    for p in std::env::args().skip(1) {
        let data = std::fs::read(&p).unwrap();
        let name = std::path::Path::new(&p).file_name().unwrap().to_string_lossy().to_string();
        let r = panic::catch_unwind(|| AsepriteFile::read(&data[..]));
        match r {
            Err(_) => println!("{:40} LOAD-PANIC", name),
            Ok(Err(e)) => println!("{:40} load-err: {}", name, e.to_string().chars().take(70).collect::<String>()),
            Ok(Ok(f)) => {
                let r2 = panic::catch_unwind(panic::AssertUnwindSafe(|| exercise(&f)));
                println!("{:40} {}", name, if r2.is_ok() { "loads, api ok" } else { "loads, API-PANIC" });
            }
        }
    }
}
