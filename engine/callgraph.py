"""A1 - call graph over local bodies (paths), cones, SCCs."""
from facts import strip_generics


def _const_refs(op, fx, out):
    if op.get('k') != 'const':
        return
    fn = op.get('fn')
    if fn:
        for k in ('res', 'orig'):
            p = fn.get(k)
            if p and p in fx.by_path:
                out.add(p)
                break
    cd = op.get('closure_def')
    if cd and cd in fx.by_path:
        out.add(cd)


def _rv_ops(rv):
    k = rv['k']
    if k in ('use', 'cast', 'repeat'):
        return [rv['op']]
    if k == 'bin':
        return [rv['a'], rv['b']]
    if k == 'un':
        return [rv['a']]
    if k == 'agg':
        return list(rv['ops'])
    return []


def _last_generic(ty):
    """last top-level generic argument of 'A<B, C<D>>' -> 'C<D>'"""
    if not ty or '<' not in ty:
        return None
    i = ty.index('<')
    inner = ty[i + 1:ty.rindex('>')]
    depth = 0
    last = 0
    for j, c in enumerate(inner):
        if c == '<':
            depth += 1
        elif c == '>':
            depth -= 1
        elif c == ',' and depth == 0:
            last = j + 1
    return inner[last:].strip()


def _same_ty(a, b):
    if not a or not b:
        return False
    na = a.replace('&', '').strip()
    nb = b.replace('&', '').strip()
    return na == nb or na.split('::')[-1] == nb.split('::')[-1]


class CallGraph:
    def __init__(self, fx):
        self.fx = fx
        self.edges = {}       # path -> set(path)
        self.ext = {}         # path -> set(normalised external callee)
        for b in fx.bodies:
            es = set()
            ex = set()
            for bi, blk in enumerate(b.blocks):
                if bi not in b.cfg.reach:
                    continue
                for st in blk['stmts']:
                    if st['k'] != 'assign':
                        continue
                    rv = st['rv']
                    for op in _rv_ops(rv):
                        _const_refs(op, fx, es)
                    if rv['k'] == 'agg' and rv.get('ak') == 'closure' and rv['closure_def'] in fx.by_path:
                        es.add(rv['closure_def'])
                t = blk['term']
                if not t:
                    continue
                if t['k'] == 'call':
                    fn = t.get('fn')
                    if fn:
                        tgt = None
                        for k in ('res', 'orig'):
                            p = fn.get(k)
                            if p and p in fx.by_path:
                                tgt = p
                                break
                        if tgt:
                            es.add(tgt)
                        else:
                            ex.add(strip_generics(fn['orig']))
                            for imp in self._implicit(fn):
                                es.add(imp)
                    else:
                        ex.add('<indirect>')
                    for a in t['args']:
                        _const_refs(a, fx, es)
                elif t['k'] == 'drop':
                    pass
            self.edges[b.path] = es
            self.ext[b.path] = ex

    def _implicit(self, fn):
        """edges hidden inside std generics: `?`/into() -> local From impls; format args -> local fmt impls"""
        out = []
        orig = strip_generics(fn['orig'])
        ga = fn.get('args', [])
        if orig == 'std::ops::FromResidual::from_residual' and len(ga) == 2:
            dst, src = _last_generic(ga[0]), _last_generic(ga[1])
            out += self._from_impl(dst, src)
        elif orig == 'std::convert::Into::into' and len(ga) == 2:
            out += self._from_impl(ga[1], ga[0])
        elif orig == 'std::convert::From::from' and len(ga) == 2:
            out += self._from_impl(ga[0], ga[1])
        elif orig.startswith('core::fmt::rt::Argument::new_') and ga:
            tr = {'new_display': 'std::fmt::Display', 'new_debug': 'std::fmt::Debug',
                  'new_lower_hex': 'std::fmt::LowerHex', 'new_upper_hex': 'std::fmt::UpperHex'}.get(orig.split('::')[-1])
            if tr:
                for b in self.fx.bodies:
                    sg = b.sig or {}
                    tys = [x for x in ga if not x.startswith("'")]
                    if tys and sg.get('trait') == tr and _same_ty(sg.get('self_ty'), tys[0]):
                        out.append(b.path)
        return out

    def _from_impl(self, dst, src):
        out = []
        if not dst or not src:
            return out
        for b in self.fx.bodies:
            sg = b.sig or {}
            if sg.get('trait') == 'std::convert::From' and _same_ty(sg.get('self_ty'), dst):
                tr = sg.get('trait_ref', '')
                if _same_ty(_last_generic(tr.rsplit(' as ', 1)[-1].rstrip('>') + '>') if '<' in tr.rsplit(' as ', 1)[-1] else None, src):
                    out.append(b.path)
        return out

    def cone(self, entries):
        seen = set()
        st = [e for e in entries if e in self.edges]
        while st:
            x = st.pop()
            if x in seen:
                continue
            seen.add(x)
            st.extend(self.edges.get(x, ()))
        return seen

    def sccs(self, nodes=None):
        """non-trivial SCCs (incl. self loops) among nodes"""
        nodes = set(nodes) if nodes is not None else set(self.edges)
        index = {}
        low = {}
        onst = set()
        stack = []
        out = []
        counter = [0]
        import sys
        sys.setrecursionlimit(10000)

        def strong(v):
            index[v] = low[v] = counter[0]
            counter[0] += 1
            stack.append(v)
            onst.add(v)
            for w in self.edges.get(v, ()):
                if w not in nodes:
                    continue
                if w not in index:
                    strong(w)
                    low[v] = min(low[v], low[w])
                elif w in onst:
                    low[v] = min(low[v], index[w])
            if low[v] == index[v]:
                comp = []
                while True:
                    w = stack.pop()
                    onst.discard(w)
                    comp.append(w)
                    if w == v:
                        break
                if len(comp) > 1 or v in self.edges.get(v, ()):
                    out.append(sorted(comp))
        for v in sorted(nodes):
            if v not in index:
                strong(v)
        return out

    def callers(self, path):
        return sorted(p for p, es in self.edges.items() if path in es)

    def path(self, src, dst):
        """one call path src -> dst (list of body paths) or None"""
        prev = {src: None}
        q = [src]
        while q:
            x = q.pop(0)
            if x == dst:
                out = []
                while x is not None:
                    out.append(x)
                    x = prev[x]
                return out[::-1]
            for y in sorted(self.edges.get(x, ())):
                if y not in prev:
                    prev[y] = x
                    q.append(y)
        return None


_CG = {}


def get(fx):
    g = _CG.get(id(fx))
    if g is None:
        g = CallGraph(fx)
        _CG[id(fx)] = g
    return g


LOAD_ENTRY = 'asefile::parse::read_aseprite'


def load_cone(fx):
    g = get(fx)
    e = [b.path for b in fx.bodies if b.name == LOAD_ENTRY]
    return g.cone(e)
