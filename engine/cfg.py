"""A2 - CFG facts per body: dominators, post-dominators, loops, reachability (non-unwind CFG)."""


class CFG:
    def __init__(self, body):
        self.body = body
        n = len(body.blocks)
        self.n = n
        self.succ = [body.succs(i) for i in range(n)]
        self.pred = [[] for _ in range(n)]
        for i, ss in enumerate(self.succ):
            for s in ss:
                self.pred[s].append(i)
        self.reach = self._reach_from(0)
        self.dom = self._dominators()
        self.returns = [i for i in range(n) if i in self.reach and body.blocks[i]['term']
                        and body.blocks[i]['term']['k'] == 'return']
        self._pdom = None
        self._loops = None

    # ---- reachability
    def _reach_from(self, start, avoid=()):
        seen = set()
        st = [start]
        while st:
            x = st.pop()
            if x in seen or x in avoid:
                continue
            seen.add(x)
            st.extend(self.succ[x])
        return seen

    def reachable_from(self, start, avoid=()):
        return self._reach_from(start, avoid)

    def can_reach(self, targets):
        """set of blocks from which some block in `targets` is reachable (incl. targets)."""
        seen = set(targets)
        st = list(targets)
        while st:
            x = st.pop()
            for p in self.pred[x]:
                if p not in seen:
                    seen.add(p)
                    st.append(p)
        return seen

    # ---- dominators (iterative sets; bodies are small)
    def _dominators(self):
        n = self.n
        allb = set(self.reach)
        dom = {i: set(allb) for i in self.reach}
        dom[0] = {0}
        order = self._rpo()
        changed = True
        while changed:
            changed = False
            for b in order:
                if b == 0:
                    continue
                ps = [p for p in self.pred[b] if p in self.reach]
                if not ps:
                    continue
                new = set(dom[ps[0]])
                for p in ps[1:]:
                    new &= dom[p]
                new.add(b)
                if new != dom[b]:
                    dom[b] = new
                    changed = True
        return dom

    def _rpo(self):
        seen = set()
        out = []

        def dfs(x):
            stack = [(x, iter(self.succ[x]))]
            seen.add(x)
            while stack:
                node, it = stack[-1]
                adv = False
                for s in it:
                    if s not in seen:
                        seen.add(s)
                        stack.append((s, iter(self.succ[s])))
                        adv = True
                        break
                if not adv:
                    out.append(node)
                    stack.pop()
        dfs(0)
        out.reverse()
        return out

    def dominates(self, a, b):
        """a dominates b (both reachable)."""
        return b in self.dom and a in self.dom[b]

    @property
    def pdom(self):
        """post-dominators w.r.t. a virtual exit joining all `return` blocks only
        (panic/unreachable ends are not exits)."""
        if self._pdom is None:
            exits = self.returns
            live = self.can_reach(exits) & self.reach
            pd = {i: set(live) for i in live}
            for e in exits:
                pd[e] = {e}
            changed = True
            while changed:
                changed = False
                for b in live:
                    if b in exits:
                        continue
                    ss = [s for s in self.succ[b] if s in live]
                    if not ss:
                        continue
                    new = set(pd[ss[0]])
                    for s in ss[1:]:
                        new &= pd[s]
                    new.add(b)
                    if new != pd[b]:
                        pd[b] = new
                        changed = True
            self._pdom = pd
        return self._pdom

    def postdominates(self, a, b):
        """every path from b to a return passes a."""
        return b in self.pdom and a in self.pdom[b]

    # ---- loops
    @property
    def loops(self):
        """natural loops: list of dict(header, body(set), back_edges, exits[(from,to)])"""
        if self._loops is None:
            loops = {}
            for b in self.reach:
                for s in self.succ[b]:
                    if self.dominates(s, b):
                        # back edge b -> s
                        body = {s, b}
                        st = [b]
                        while st:
                            x = st.pop()
                            if x == s:
                                continue
                            for p in self.pred[x]:
                                if p in self.reach and p not in body:
                                    body.add(p)
                                    st.append(p)
                        L = loops.setdefault(s, {'header': s, 'body': set(), 'back_edges': []})
                        L['body'] |= body
                        L['back_edges'].append((b, s))
            for L in loops.values():
                L['exits'] = [(x, y) for x in L['body'] for y in self.succ[x] if y not in L['body']]
            self._loops = sorted(loops.values(), key=lambda L: L['header'])
        return self._loops

    def loop_of(self, bb):
        """innermost loop containing bb, or None"""
        best = None
        for L in self.loops:
            if bb in L['body']:
                if best is None or len(L['body']) < len(best['body']):
                    best = L
        return best

    def loops_containing(self, bb):
        return [L for L in self.loops if bb in L['body']]

    # ---- guards
    def edge_dominates(self, a, s, b):
        """edge a->s dominates b: every path from entry to b uses edge a->s.
        True when s dominates b and s's only reachable predecessor is a (MIR switch targets
        are normally single-pred), or b unreachable when removing the edge."""
        if b not in self.reach:
            return False
        # remove edge a->s and test reachability
        seen = set()
        st = [0]
        while st:
            x = st.pop()
            if x in seen:
                continue
            seen.add(x)
            for y in self.succ[x]:
                if x == a and y == s:
                    continue
                st.append(y)
        return b not in seen

    def switches_dominating(self, b):
        """[(switch_bb, succ_taken)] for every switch edge that dominates b."""
        out = []
        for a in sorted(self.dom.get(b, ())):
            t = self.body.blocks[a]['term']
            if t and t['k'] == 'switch' and a != b:
                for s in self.succ[a]:
                    if self.edge_dominates(a, s, b):
                        out.append((a, s))
        return out
