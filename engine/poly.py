"""Integer terms as polynomials over atomic sub-terms: insensitive to association, commutation and to casts
(width safety of the casts is the business of the overflow/cast rules, not of the shape rules that use this)."""
import q
from q import strip_casts


def canon(t):
    """drop call-site tags and casts so that equal computations at different program points compare equal"""
    if isinstance(t, frozenset):
        return frozenset(canon(x) for x in t)
    if not isinstance(t, tuple):
        return t
    if t and t[0] == 'cast':
        return canon(t[1])
    if len(t) == 3 and t[0] == 'param':
        return ('param', t[1], None)          # parameter names are not part of the meaning
    if len(t) == 4 and t[0] == 'call':
        return ('call', t[1], canon(t[2]), None)
    return tuple(canon(x) for x in t)


def _norm(p):
    return {k: v for k, v in p.items() if v != 0}


def _key(atoms):
    return tuple(sorted(atoms, key=repr))


def poly(t):
    """-> {monomial(tuple of atoms): coefficient}; () is the constant monomial"""
    t = strip_casts(t)
    if t[0] == 'const' and isinstance(t[1], int) and not isinstance(t[1], bool):
        return _norm({(): t[1]})
    if t[0] == 'bin' and t[1] in ('Add', 'Sub', 'Mul', 'AddWithOverflow', 'SubWithOverflow', 'MulWithOverflow'):
        a, b = poly(t[2]), poly(t[3])
        if t[1].startswith('Add'):
            out = dict(a)
            for k, v in b.items():
                out[k] = out.get(k, 0) + v
            return _norm(out)
        if t[1].startswith('Sub'):
            out = dict(a)
            for k, v in b.items():
                out[k] = out.get(k, 0) - v
            return _norm(out)
        out = {}
        for k1, v1 in a.items():
            for k2, v2 in b.items():
                k = _key(k1 + k2)
                out[k] = out.get(k, 0) + v1 * v2
        return _norm(out)
    if t[0] == 'un' and t[1] == 'Neg':
        return _norm({k: -v for k, v in poly(t[2]).items()})
    if t[0] == 'field' and t[2] == '0' and t[1][0] == 'next':
        # `for (i, v) in (a..b).enumerate()`: the position is the value minus the start of the range
        en = q.unwrap_into_iter(t[1][1])
        if en[0] == 'call' and en[1] == 'std::iter::Iterator::enumerate' and len(en[2]) == 1:
            rg = q.unwrap_into_iter(en[2][0])
            if rg[0] == 'agg' and rg[1] == 'std::ops::Range':
                out = dict(poly(('field', t[1], '1')))
                for k, v in poly(dict(rg[3])['start']).items():
                    out[k] = out.get(k, 0) - v
                return _norm(out)
    return {(canon(t),): 1}


def make(*monos):
    """make((coef, atom, atom..), ...) -> polynomial with atoms cast-stripped"""
    out = {}
    for m in monos:
        k = _key(tuple(canon(a) for a in m[1:]))
        out[k] = out.get(k, 0) + m[0]
    return _norm(out)


def show(p):
    parts = []
    for k, v in sorted(p.items(), key=repr):
        parts.append('%+d*%s' % (v, '*'.join(q.show(a)[:50] for a in k) or '1'))
    return ' '.join(parts) or '0'


def loop_var_end(t):
    """t is the loop variable of `for v in 0..E` (or start..E): returns (start, E) cast-stripped, else None"""
    t = strip_casts(t)
    if t[0] == 'field' and t[2] == '1' and t[1][0] == 'next':
        # the value half of `for (i, v) in (S..E).enumerate()`
        en = q.unwrap_into_iter(t[1][1])
        if en[0] == 'call' and en[1] == 'std::iter::Iterator::enumerate' and len(en[2]) == 1:
            t = ('next', en[2][0])
    if t[0] != 'next':
        return None
    rg = q.unwrap_into_iter(t[1])
    if rg[0] == 'agg' and rg[1] == 'std::ops::Range':
        f = dict(rg[3])
        return strip_casts(f['start']), strip_casts(f['end'])
    return None


def clamp_args(t):
    """t == x.clamp(lo, hi) -> (x, lo, hi) cast-stripped, else None"""
    t = strip_casts(t)
    if t[0] == 'call' and t[1].split('::')[-1] == 'clamp' and t[1].startswith(('std::cmp::', 'core::cmp::')) and len(t[2]) == 3:
        return tuple(strip_casts(a) for a in t[2])
    return None


def within_zero_to(v, is_len):
    """loop variable v runs inside 0..L (L satisfying is_len): 0..L itself, or a sub-range cut with max(_, 0) / min(_, L) /
    clamp(_, 0, L) on either side"""
    r_ = loop_var_end(v)
    if r_ is None:
        return False
    st_, en = r_

    def lower_ok(t):
        t = strip_casts(t)
        if t[0] == 'const' and isinstance(t[1], int) and t[1] >= 0:
            return True
        c = clamp_args(t)
        if c is not None and q.const_val(c[1]) is not None and q.const_val(c[1]) >= 0:
            return True
        if t[0] == 'call' and t[1].split('::')[-1] == 'max' and len(t[2]) == 2:
            return any(lower_ok(a) for a in t[2])
        return False

    def upper_ok(t):
        t = strip_casts(t)
        if is_len(canon(t)):
            return True
        c = clamp_args(t)
        if c is not None and is_len(canon(c[2])):
            return True
        if t[0] == 'call' and t[1].split('::')[-1] == 'min' and len(t[2]) == 2:
            return any(upper_ok(a) for a in t[2])
        return False
    return lower_ok(st_) and upper_ok(en)
