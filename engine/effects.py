"""A6 - effects: which locations (rooted at parameters) a body writes, directly or through local callees.

A write is (loc, value, kind, site):  loc/value are terms over the body's own parameters,
kind in assign | push | insert | call:<external mutator> ; site = (body name, bb, span).
"""
import q
from terms import (get_resolver, subst, show, walk, alts, mk_any, proj_field, proj_variant, payload)
from facts import strip_generics

# external callees that mutate their first (&mut) argument; value argument index (or None)
MUTATORS = {
    'std::vec::Vec::push': ('push', 1),
    'std::vec::Vec::insert': ('insert', 2),
    'std::vec::Vec::resize_with': ('resize', None),
    'std::vec::Vec::resize': ('resize', None),
    'std::vec::Vec::clear': ('clear', None),
    'std::vec::Vec::truncate': ('truncate', None),
    'std::vec::Vec::pop': ('pop', None),
    'std::vec::Vec::remove': ('remove', None),
    'std::vec::Vec::swap_remove': ('remove', None),
    'std::vec::Vec::extend': ('extend', 1),
    'std::vec::Vec::append': ('extend', 1),
    'std::vec::Vec::sort': ('reorder', None),
    'std::vec::Vec::reverse': ('reorder', None),
    'std::collections::HashMap::insert': ('insert', 2),
    'std::collections::HashMap::remove': ('remove', None),
    'std::collections::HashMap::clear': ('clear', None),
    'std::option::Option::insert': ('assign', 1),
    'std::option::Option::replace': ('assign', 1),
    'std::option::Option::take': ('clear', None),
    'std::option::Option::get_or_insert_with': ('assign', None),
    'std::mem::replace': ('assign', 1),
    'std::mem::swap': ('assign', 1),
    'std::mem::take': ('clear', None),
}

# calls that return a reference *into* their first argument (location-preserving)
LOC_THROUGH = {
    'std::ops::IndexMut::index_mut': 'index', 'std::ops::Index::index': 'index',
    'std::vec::Vec::get_mut': 'index', 'core::slice::get_mut': 'index', 'core::slice::get': 'index',
    'core::slice::last_mut': 'last', 'core::slice::first_mut': 'first',
    'std::option::Option::as_mut': None, 'std::vec::Vec::last_mut': 'last',
    'std::collections::HashMap::get_mut': 'index',
}


def root_of(t):
    """(root param index or None, path list) for a location term"""
    path = []
    while True:
        k = t[0]
        if k == 'param':
            return t[1], list(reversed(path))
        if k == 'field':
            path.append(t[2])
            t = t[1]
        elif k == 'variant':
            path.append('as ' + t[2])
            t = t[1]
        elif k == 'index':
            path.append('[]')
            t = t[1]
        elif k == 'call' and (t[1] in LOC_THROUGH or t[1].endswith('::cel_mut')):
            if LOC_THROUGH.get(t[1], 'index'):
                path.append('[]')
            t = t[2][0]
        elif k == 'any':
            roots = {root_of(x)[0] for x in t[1]}
            if len(roots) == 1:
                return root_of(sorted(t[1], key=repr)[0])
            return None, []
        else:
            return None, list(reversed(path))


class Effects:
    def __init__(self, fx):
        self.fx = fx
        self.memo = {}
        self.stack = []

    def writes(self, body, blocks=None):
        """writes performed by `body` (restricted to `blocks` of its CFG if given), callees included"""
        if blocks is None and body.path in self.memo:
            return self.memo[body.path]
        if body.path in self.stack:
            return []          # recursion: cut (LOAD has none)
        self.stack.append(body.path)
        try:
            out = self._writes(body, blocks)
        finally:
            self.stack.pop()
        if blocks is None:
            self.memo[body.path] = out
        return out

    def _writes(self, body, blocks):
        r = get_resolver(body)
        out = []
        for bi, blk in enumerate(body.blocks):
            if blk['cleanup'] or bi not in body.cfg.reach:
                continue
            if blocks is not None and bi not in blocks:
                continue
            for st in blk['stmts']:
                if st['k'] != 'assign':
                    continue
                p = st['p']
                if not any(e['k'] == 'deref' for e in p['p']):
                    # plain local (or field of a local): not a write through a reference, unless the local
                    # itself is a by-value parameter aggregate we do not track
                    continue
                loc = r.place(p)
                root, _ = root_of(loc)
                if root is None:
                    continue
                out.append((loc, r.rvalue(st['rv'], (), bi), 'assign', (body.name, bi, st.get('span'))))
            t = blk['term']
            if not t or t['k'] != 'call':
                continue
            c = body.call_at(bi)
            name = q.callee_name(c)
            args = [r.operand(a) for a in t['args']]
            site = (body.name, bi, t.get('span'))
            if name in MUTATORS and args:
                root, _ = root_of(args[0])
                if root is not None:
                    kind, vi = MUTATORS[name]
                    val = args[vi] if vi is not None and vi < len(args) else ('unknown', name)
                    out.append((args[0], val, kind, site))
                continue
            cb = c.local_body()
            if cb is None:
                # closures invoked indirectly are not followed; external non-mutators assumed pure w.r.t. params
                continue
            env = {i + 1: a for i, a in enumerate(args)}
            for (loc, val, kind, s2) in self.writes(cb):
                root, _ = root_of(loc)
                if root is None or root not in env:
                    continue
                # only through parameters that are references / own mutable state
                l2 = subst(loc, env)
                r2, _ = root_of(l2)
                if r2 is None:
                    continue
                out.append((l2, subst(val, env), kind, s2 + (site,)))
        return out


_EFF = {}


def get(fx):
    e = _EFF.get(id(fx))
    if e is None:
        e = Effects(fx)
        _EFF[id(fx)] = e
    return e


def path_str(loc):
    root, path = root_of(loc)
    return 'param%s.%s' % (root, '.'.join(path))
