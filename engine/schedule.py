"""A4 - read schedules by bounded path enumeration over the CFG (nothing is executed).

For a decoder body the *schedule* is the set of (events, decisions) over all non-error CFG paths, every loop
unrolled 0, 1 and 2 times, helper functions that receive the reader inlined at their call sites.

event  = ('R', kind, site, nbytes|None, used, size_term|None)   kind in byte word short dword long string skip bytes-raw bytes-zlib
decision = ('flag', read_term, mask, taken) | ('val', read_term, value|'other') | ('cmp', op, read_term, const, taken)
         | ('loop', count_term, 'iter'|'exit') | ('opaque', term_str, edge)
"""
import q
from terms import (get_resolver, subst, show, walk, alts, strip_casts, mk_any)
from facts import strip_generics

READER = 'asefile::reader::AseReader::'
PRIM_BYTES = {'byte': 1, 'word': 2, 'short': 2, 'dword': 4, 'long': 4}
MAX_HEADER_VISITS = 3          # 0, 1, 2 iterations
MAX_PATHS = 20000
MAX_STEPS = 60000             # calls of the path walker per decoder body (the pinned tree and all 160 negative controls need < 2000)


def _is_reader_ty(ty):
    return 'reader::AseReader<' in ty or ty.endswith('reader::AseReader')


class Sched:
    def __init__(self, fx):
        self.fx = fx
        self.memo = {}
        self.stack = []
        self.used_memo = {}

    # ---------- which call sites matter
    def reader_params(self, body):
        return [i for i in range(1, body.arg_count + 1) if _is_reader_ty(body.locals[i]['ty'])]

    def call_kind(self, body, c):
        """'prim' (reader primitive), 'helper' (local fn receiving the reader), 'iter-closure', or None"""
        name = q.callee_name(c)
        if name.startswith(READER):
            k = name[len(READER):]
            if k in PRIM_BYTES or k in ('string', 'skip_reserved', 'read_exact', 'read_vec', 'take_bytes', 'unzip'):
                return 'prim'
            return None
        cb = c.local_body()
        if cb is not None and cb.kind == 'fn':
            for a in c.args:
                if a['k'] in ('copy', 'move') and _is_reader_ty(a['p']['ty'].replace('&mut ', '').replace('&', '')):
                    return 'helper'
            return None
        if name in ('std::iter::Iterator::collect',):
            cl = self._iter_closure(body, c)
            if cl is not None:
                return 'iter-closure'
        if name in ('core::bool::then', 'std::bool::then'):
            at = q.arg_terms(c)
            if len(at) == 2 and at[1][0] == 'closure':
                cb = self.fx.by_path.get(at[1][1])
                if cb is not None and self.body_relevant(cb):
                    return 'cond-closure'
        return None

    def _iter_closure(self, body, c):
        """collect(map(range, closure)) where the closure's body reads from a captured reader"""
        at = q.arg_terms(c)
        if not at:
            return None
        t = at[0]
        if t[0] == 'call' and t[1] == 'std::iter::Iterator::map' and len(t[2]) == 2 and t[2][1][0] == 'closure':
            cl = t[2][1]
            cb = self.fx.by_path.get(cl[1])
            if cb is not None and self.body_relevant(cb):
                return (t[2][0], cl, cb)
        return None

    def body_relevant(self, body):
        for c in q.calls(body):
            if self.call_kind(body, c) in ('prim', 'helper'):
                return True
        return False

    # ---------- is the value of a read used anywhere?
    def value_used(self, body, c):
        key = (body.path, c.bb)
        if key in self.used_memo:
            return self.used_memo[key]
        seen = set()
        work = [c.dest['l']]
        used = False
        while work and not used:
            l = work.pop()
            if l in seen:
                continue
            seen.add(l)
            if l == 0:
                used = True
                break
            for kind, bb, obj in q.uses(body, l):
                if kind == 'drop':
                    continue
                if kind == 'call-arg':
                    t, i = obj
                    nm = q.callee_name(body.call_at(bb))
                    if nm in ('std::ops::Try::branch',):
                        work.append(t['dest']['l'])
                    elif nm == 'std::ops::FromResidual::from_residual':
                        continue
                    else:
                        used = True
                elif kind in ('stmt-operand', 'stmt-place'):
                    st = obj
                    rv = st['rv']
                    if rv['k'] == 'discr':
                        # the `?` discriminant test
                        continue
                    if rv['k'] in ('use', 'ref', 'copyforderef', 'cast') and not st['p']['p']:
                        # moving the value (or its Continue payload / Break residual) into another local
                        work.append(st['p']['l'])
                    else:
                        used = True
                elif kind == 'switch':
                    # only discriminant switches of `?` come here via discr locals; value switches are uses
                    used = True
                else:
                    used = True
        self.used_memo[key] = used
        return used

    # ---------- path enumeration
    def paths(self, body):
        """list of item-lists for non-error paths of body; items are events/decisions with terms over body's params"""
        if body.path in self.memo:
            return self.memo[body.path]
        failed = getattr(self, 'failed', None)
        if failed is None:
            failed = self.failed = {}
        if body.path in failed:
            raise RuntimeError(failed[body.path])       # do not walk a body that blew the budget a second time
        if body.path in self.stack:
            raise RuntimeError('recursive decoder ' + body.path)
        self.stack.append(body.path)
        try:
            out = self._paths(body)
        except RuntimeError as e:
            failed[body.path] = str(e)
            raise
        finally:
            self.stack.pop()
        self.memo[body.path] = out
        return out

    def _good_blocks(self, body):
        """blocks from which a return is reachable without passing a block that sets an error return value"""
        errb = q.error_blocks(body)
        cfg = body.cfg
        good = set()
        st = [r for r in cfg.returns if r not in errb]
        while st:
            x = st.pop()
            if x in good:
                continue
            good.add(x)
            for p in cfg.pred[x]:
                if p not in good and p not in errb and p in cfg.reach:
                    st.append(p)
        return good

    def _paths(self, body):
        r = get_resolver(body)
        cfg = body.cfg
        good = self._good_blocks(body)
        # loops that contain nothing reader-related are skipped (single pass to their exits)
        relevant_loop = {}
        for L in cfg.loops:
            rel = False
            for bi in L['body']:
                c = body.call_at(bi)
                if c is not None and self.call_kind(body, c) is not None:
                    rel = True
            relevant_loop[L['header']] = rel
        results = []

        quiet_memo = {}

        def join_of(sw, succs):
            """the block where all good arms of switch `sw` meet again, if no block on the way calls the reader / a helper /
            a reader-driven closure and no loop header lies in between; else None"""
            if sw in quiet_memo:
                return quiet_memo[sw]
            res_ = None
            cands = [x for x in cfg.reach if x != sw and x in good and all(cfg.postdominates(x, s_) for s_ in succs)]
            # nearest common post-dominator: the one post-dominated by all the others
            best = None
            for x in cands:
                if all(cfg.postdominates(y, x) for y in cands):
                    best = x
            if best is not None:
                between = set()
                st_ = list(succs)
                ok_ = True
                while st_ and ok_:
                    x = st_.pop()
                    if x == best or x in between:
                        continue
                    if x not in good:
                        continue
                    between.add(x)
                    if any(L_['header'] == x for L_ in cfg.loops) or x == sw:
                        ok_ = False
                        break
                    c_ = body.call_at(x)
                    if c_ is not None and self.call_kind(body, c_) is not None:
                        ok_ = False
                        break
                    if body.blocks[x]['term'] and body.blocks[x]['term']['k'] == 'return':
                        ok_ = False
                        break
                    st_.extend(cfg.succ[x])
                if ok_ and not any(L_['header'] == best and sw in L_['body'] for L_ in cfg.loops):
                    res_ = best
            quiet_memo[sw] = res_
            return res_

        def loop_count_term(header):
            # header block calls Iterator::next(it)
            for bi in [header] + cfg.succ[header]:
                c = body.call_at(bi)
                if c is not None and q.callee_name(c) == 'std::iter::Iterator::next':
                    return q.arg_terms(c)[0]
            return None

        steps = [0]

        def go(bb, items, counts):
            if len(results) > MAX_PATHS:
                raise RuntimeError('too many paths in ' + body.name)
            steps[0] += 1
            if steps[0] > MAX_STEPS:
                # the enumeration must end whatever the code looks like (seed C15-m: a chunk pre-scan helper multiplied the partial
                # paths of parse_frame without ever completing one): give up, the caller reports the decoder as not comparable
                raise RuntimeError('path enumeration budget (%d steps) exceeded in %s' % (MAX_STEPS, body.name))
            while True:
                if bb not in good:
                    return
                # loop bookkeeping
                Ls = [L for L in cfg.loops if L['header'] == bb]
                if Ls:
                    L = Ls[0]
                    if not relevant_loop[bb]:
                        # skip the loop: continue from every good exit target
                        outs = sorted({y for x, y in L['exits'] if y in good})
                        for y in outs:
                            go(y, list(items), dict(counts))
                        return
                    n = counts.get(bb, 0) + 1
                    if n > MAX_HEADER_VISITS:
                        return
                    counts = dict(counts)
                    counts[bb] = n
                    # entering an outer iteration resets inner loop counters
                    for L2 in cfg.loops:
                        if L2['header'] != bb and L2['header'] in L['body']:
                            counts.pop(L2['header'], None)
                blk = body.blocks[bb]
                t = blk['term']
                k = t['k']
                if k == 'return':
                    results.append(items)
                    return
                if k == 'call':
                    c = body.call_at(bb)
                    ck = self.call_kind(body, c)
                    if ck == 'prim':
                        items = items + [self._prim_event(body, c)]
                    elif ck == 'helper':
                        cb = c.local_body()
                        env = {i + 1: a for i, a in enumerate(q.arg_terms(c))}
                        sub = self.paths(cb)
                        nxt = t.get('target')
                        if nxt is None:
                            return
                        for sp in sub:
                            go(nxt, items + [_subst_item(x, env) for x in sp], counts)
                        return
                    elif ck == 'cond-closure':
                        # cond.then(|| reads..): the closure runs exactly when cond holds
                        at_ = q.arg_terms(c)
                        cl = at_[1]
                        cb = self.fx.by_path[cl[1]]
                        nxt = t.get('target')
                        if nxt is None:
                            return
                        subs = [[_subst_closure_item(x, cl) for x in sp] for sp in self.paths(cb)]
                        go(nxt, items + self._cond_items(at_[0], False), counts)
                        for sp in subs:
                            go(nxt, items + self._cond_items(at_[0], True) + sp, counts)
                        return
                    elif ck == 'iter-closure':
                        rng, cl, cb = self._iter_closure(body, c)
                        sub = self.paths(cb)
                        nxt = t.get('target')
                        if nxt is None:
                            return
                        cnt = rng
                        caps = {('up', i): x for i, (n_, x) in enumerate(cl[2])}
                        subs = [[_subst_closure_item(x, cl) for x in sp] for sp in sub]
                        # 0, 1, 2 iterations of the closure body
                        for n in range(3):
                            seqs = [[]]
                            for _ in range(n):
                                seqs = [s + [('D', 'loop', cnt, 'iter')] + sp for s in seqs for sp in subs]
                            for s in seqs:
                                go(nxt, items + s + [('D', 'loop', cnt, 'exit')], counts)
                        return
                    nxt = t.get('target')
                    if nxt is None:
                        return
                    bb = nxt
                    continue
                if k in ('goto', 'drop', 'assert'):
                    bb = t['target']
                    continue
                if k == 'switch':
                    succs = [s for s in cfg.succ[bb] if s in good]
                    if not succs:
                        return
                    cond = r.operand(t['discr'])
                    if len(succs) == 1:
                        # the other side is an error exit: no decision of the layout, but what the test says about a file field is
                        # kept as a 'guard' for the value-set step of normalise() (`if t >= 4 { return Err(..) }` bounds a later `_ =>`)
                        if len(cfg.succ[bb]) > 1:
                            d = self._decision(body, bb, cond, succs[0], loop_count_term)
                            if d is not None and d[1] == 'cmp':
                                items = items + [('D', 'guard') + tuple(d[2:])]
                        bb = succs[0]
                        continue
                    # a branch whose arms touch the reader nowhere before they rejoin does not shape the read sequence:
                    # continue at the join point (keeps e.g. a 14-arm value match from multiplying the paths)
                    j = join_of(bb, succs)
                    if j is not None:
                        bb = j
                        continue
                    for s in succs:
                        d = self._decision(body, bb, cond, s, loop_count_term)
                        go(s, items + ([d] if d is not None else []), counts)
                    return
                return

        go(0, [], {})
        # dedupe
        uniq = []
        seen = set()
        for p in results:
            key = repr(p)
            if key not in seen:
                seen.add(key)
                uniq.append(p)
        return uniq

    def _prim_event(self, body, c):
        name = q.callee_name(c)[len(READER):]
        at = q.arg_terms(c)
        site = (body.name, c.bb)
        if name in PRIM_BYTES:
            return ('R', name, site, PRIM_BYTES[name], self.value_used(body, c), None, c.span)
        if name == 'string':
            return ('R', 'string', site, None, self.value_used(body, c), None, c.span)
        if name == 'skip_reserved':
            n = q.const_val(at[1])
            return ('R', 'skip', site, n, False, at[1], c.span)
        if name == 'read_exact':
            return ('R', 'bytes-raw', site, None, True, at[1], c.span)
        if name in ('take_bytes', 'read_vec'):
            return ('R', 'bytes-raw', site, None, True, at[1], c.span)
        if name == 'unzip':
            return ('R', 'bytes-zlib', site, None, True, at[1], c.span)
        raise AssertionError(name)

    def _cond_items(self, c, truth):
        """decision items for `cond == truth` where cond is a term (not a branch in the CFG)"""
        if c[0] == 'bin' and c[1] in ('Ne', 'Eq') and c[2][0] == 'bin' and c[2][1] == 'BitAnd' and q.const_val(c[3]) is not None \
                and q.const_val(c[2][3]) is not None:
            mask = q.const_val(c[2][3])
            cmpv = q.const_val(c[3])
            is_set = truth if (c[1] == 'Ne' and cmpv == 0) or (c[1] == 'Eq' and cmpv == mask) else (not truth)
            return [('D', 'flag', c[2][2], mask, is_set)]
        if c[0] == 'bin' and c[1] in ('Eq', 'Ne', 'Lt', 'Le', 'Gt', 'Ge') and q.const_val(c[3]) is not None:
            return [('D', 'cmp', c[1], c[2], q.const_val(c[3]), truth)]
        return [('D', 'opaque', c, (1 if truth else 0,))]

    def _decision(self, body, bb, cond, succ, loop_count_term):
        t = body.blocks[bb]['term']
        vals = q.edge_value(body, bb, succ)
        # `while c < n { ..; c += 1 }`: the header test is the iteration test of the equivalent `for c in s..n`
        for L_ in body.cfg.loops:
            if L_['header'] == bb:
                rng = q.counter_loop(body, L_)
                if rng is not None:
                    return ('D', 'loop', rng, 'iter' if succ in L_['body'] else 'exit')
        # loop iteration test
        if cond[0] == 'discr' and cond[1][0] == 'next':
            it = q.unwrap_into_iter(cond[1][1])
            some = 1 in vals
            return ('D', 'loop', it, 'iter' if some else 'exit')
        c = cond
        if c[0] == 'bin' and c[1] in ('Ne', 'Eq') and c[2][0] == 'bin' and c[2][1] == 'BitAnd' and q.const_val(c[3]) is not None \
                and q.const_val(c[2][3]) is not None:
            truth = q.bool_outcome(body, bb, vals)
            mask = q.const_val(c[2][3])
            cmpv = q.const_val(c[3])
            if truth is not None:
                is_set = truth if (c[1] == 'Ne' and cmpv == 0) or (c[1] == 'Eq' and cmpv == mask) else (not truth)
                return ('D', 'flag', c[2][2], mask, is_set)
        if c[0] == 'bin' and c[1] in ('Eq', 'Ne', 'Lt', 'Le', 'Gt', 'Ge') and q.const_val(c[3]) is not None:
            truth = q.bool_outcome(body, bb, vals)
            if truth is not None:
                return ('D', 'cmp', c[1], c[2], q.const_val(c[3]), truth)
        if t['ty'] != 'bool' and c[0] == 'bin' and c[1] == 'BitAnd' and q.const_val(c[3]) is not None:
            # `match flags & BIT { 0 => .., _ => .. }`: the flag test written as a value match
            mask = q.const_val(c[3])
            listed = sorted(x_ for x_, _ in t['targets'])
            if vals == [0]:
                return ('D', 'flag', c[2], mask, False)
            if (vals == ['otherwise'] and listed == [0]) or (vals == [mask] and mask & (mask - 1) == 0):
                return ('D', 'flag', c[2], mask, True)
        if t['ty'] != 'bool' and c[0] != 'discr':
            v = vals[0] if vals and vals != ['otherwise'] else 'other'
            return ('D', 'val', c, v, tuple(sorted(x_ for x_, _ in t['targets'])))
        # bitflags `contains`
        if c[0] == 'call' and c[1].endswith('::contains') and len(c[2]) == 2:
            truth = q.bool_outcome(body, bb, vals)
            return ('D', 'contains', c[2][0], c[2][1], truth)
        return ('D', 'opaque', cond, tuple(vals))


def _reclassify(c, vals):
    """a test on a bool the caller computed and handed in (a parameter, a field of a small options struct, a captured local): once the
    argument is known it may be a flag / comparison test after all"""
    c0 = c
    vals_t = tuple(vals)
    truth = False if vals_t == (0,) else True if vals_t in ((1,), ('otherwise',)) else None
    neg = False
    while c[0] == 'un' and c[1] == 'Not':
        c, neg = c[2], not neg
    if truth is not None:
        tr = truth != neg
        if c[0] == 'bin' and c[1] in ('Ne', 'Eq') and c[2][0] == 'bin' and c[2][1] == 'BitAnd' and q.const_val(c[3]) is not None \
                and q.const_val(c[2][3]) is not None:
            mask, cmpv = q.const_val(c[2][3]), q.const_val(c[3])
            is_set = tr if (c[1] == 'Ne' and cmpv == 0) or (c[1] == 'Eq' and cmpv == mask) else (not tr)
            return ('D', 'flag', c[2][2], mask, is_set)
        if c[0] == 'bin' and c[1] in ('Eq', 'Ne', 'Lt', 'Le', 'Gt', 'Ge') and q.const_val(c[3]) is not None:
            return ('D', 'cmp', c[1], c[2], q.const_val(c[3]), tr)
    return ('D', 'opaque', c0, vals)


def _subst_item(x, env):
    if x[0] == 'R':
        return x[:5] + (subst(x[5], env) if x[5] is not None else None,) + x[6:]
    if x[0] == 'D' and x[1] == 'opaque':
        return _reclassify(subst(x[2], env), x[3])
    return tuple(subst(e, env) if isinstance(e, tuple) and e and isinstance(e[0], str) and _is_term(e) else e for e in x)


def _is_term(e):
    return e[0] in ('param', 'const', 'fn', 'call', 'field', 'variant', 'cast', 'bin', 'un', 'agg', 'tuple', 'array',
                    'discr', 'index', 'len', 'closure', 'try', 'residual', 'next', 'any', 'phi', 'unknown', 'static', 'upvar')


def _subst_closure_item(x, cl):
    from terms import subst_closure
    if x[0] == 'R':
        return x[:5] + (subst_closure(x[5], {}, cl) if x[5] is not None else None,) + x[6:]
    if x[0] == 'D' and x[1] == 'opaque':
        return _reclassify(subst_closure(x[2], {}, cl), x[3])
    return tuple(subst_closure(e, {}, cl) if isinstance(e, tuple) and e and isinstance(e[0], str) and _is_term(e) else e for e in x)


_S = {}


def get(fx):
    s = _S.get(id(fx))
    if s is None:
        s = Sched(fx)
        _S[id(fx)] = s
    return s


# ------------------------------------------------------------------ normalisation to byte layouts
KIND_CODE = {'byte': 'B', 'word': 'W', 'short': 'S', 'dword': 'D', 'long': 'L', 'string': 'STR'}


def reads_in(t):
    """sites of reader-primitive calls inside a term"""
    out = []
    for x in walk(t):
        if isinstance(x, tuple) and x[0] == 'call' and x[1].startswith(READER) and x[3] is not None:
            out.append(x[3])
    return out


def consts_in(t):
    """integer constants of a size/count term; a reader-primitive call is an atom (a file field) - constants inside its receiver (say
    the capacity of a BufReader the input was wrapped in) say nothing about the size"""
    out = []

    def rec(x):
        if isinstance(x, frozenset):
            for y in x:
                rec(y)
            return
        if not isinstance(x, tuple) or not x:
            return
        if x[0] == 'const':
            if isinstance(x[1], int) and not isinstance(x[1], bool):
                out.append(x[1])
            return
        if x[0] == 'call' and isinstance(x[1], str) and x[1].startswith(READER) and x[3] is not None:
            for a in x[2][1:]:
                rec(a)
            return
        for y in x:
            rec(y)
    rec(t)
    return out


def calls_outside_reads(t):
    """callee names in a size/count term, a reader-primitive call being an atom (its receiver is the input, however wrapped)"""
    out = set()

    def rec(x):
        if isinstance(x, frozenset):
            for y in x:
                rec(y)
            return
        if not isinstance(x, tuple) or not x:
            return
        if x[0] == 'call' and isinstance(x[1], str):
            out.add(x[1])
            if x[1].startswith(READER) and x[3] is not None:
                for a in x[2][1:]:
                    rec(a)
                return
        for y in x:
            rec(y)
    rec(t)
    return out


def normalise(path):
    """-> (events, decisions): events are ('skip', n) | (code,) | ('BYTES', mode, refs, consts, pf);
    read references are indices into the *event list* (most recent occurrence of the site)."""
    events = []
    site_idx = {}
    decisions = []
    excluded = {}          # field refs -> values a `match` listed before its `_ =>` edge was taken
    guards = []            # comparisons of a field whose other side is an error exit
    sites_of_event = []

    def refs(t):
        rs = set()
        unresolved = 0
        for s in reads_in(t):
            if s in site_idx:
                rs.add(site_idx[s])
            else:
                unresolved += 1
        return tuple(sorted(rs)), unresolved

    for it in path:
        if it[0] == 'R':
            _, kind, site, nb, used, szt, span = it
            if kind == 'skip' and nb is None and szt is not None:
                kind = 'bytes-raw'       # skipping a file-declared number of bytes consumes exactly what a payload read would
            if (kind == 'skip' and nb is not None) or (kind != 'skip' and not used and nb is not None):
                if events and events[-1][0] == 'skip':
                    events[-1] = ('skip', events[-1][1] + nb)
                    sites_of_event[-1].append((site, span))
                else:
                    events.append(('skip', nb))
                    sites_of_event.append([(site, span)])
                site_idx[site] = len(events) - 1
                continue
            if kind in KIND_CODE:
                events.append((KIND_CODE[kind],) if used else (KIND_CODE[kind], 'ignored'))
            else:
                rf, un = refs(szt)
                pf = any(isinstance(x, tuple) and x[0] == 'call' and (x[1].endswith('bytes_per_pixel') or x[1].endswith('output_size'))
                         for x in walk(szt))
                cs = tuple(sorted(c for c in consts_in(szt) if c not in (0, 1)))
                events.append(('BYTES', kind[6:], rf, cs, pf))
            sites_of_event.append([(site, span)])
            site_idx[site] = len(events) - 1
        else:
            tag = it[1]
            if tag == 'loop':
                rf, un = refs(it[2])
                cs = tuple(sorted(c for c in consts_in(it[2]) if c not in (0, 1)))
                decisions.append(('loop', rf, it[3]))
            elif tag == 'flag':
                rf, un = refs(it[2])
                decisions.append(('flag', rf, it[3], it[4]))
            elif tag == 'cmp':
                rf, un = refs(it[3])
                if not rf:
                    continue     # comparisons not involving file fields do not label the path
                decisions.append(('cmp', it[2], rf, it[4], it[5]))
            elif tag == 'guard':
                rf, un = refs(it[3])
                if rf:
                    guards.append(('cmp', it[2], rf, it[4], it[5]))
            elif tag == 'val':
                rf, un = refs(it[2])
                if not rf:
                    decisions.append(('val-nonread', show(it[2]), it[3]))
                else:
                    decisions.append(('val', rf, it[3]))
                    if it[3] == 'other' and len(it) > 4:
                        excluded.setdefault(rf, set()).update(it[4])
            elif tag == 'contains':
                rf, un = refs(it[2])
                cs = tuple(sorted(consts_in(it[3])))
                decisions.append(('flag', rf, cs[0] if len(cs) == 1 else cs, it[4]))
            else:
                rf, un = refs(it[2])
                if rf:
                    decisions.append(('opaque', rf, show(it[2])[:80], it[3]))
    # `_ =>` after the other values have been dealt with: when the tests on the way (a range check, the values the match lists, an
    # `== c` that failed) leave exactly one value for the field, the path IS the path of that value (`if t >= 4 {Err}; match t {1 => ..,
    # 3 => .., _ => { let z = t == 2; .. } }` reaches the raw-image reads for t == 0 only)
    for rf, excl in excluded.items():
        lo, hi, eq = 0, None, None
        excl = set(excl)
        grp = [d for d in decisions if d[0] in ('val', 'cmp') and (d[1] if d[0] == 'val' else d[2]) == rf]
        for d in grp + [g for g in guards if g[2] == rf]:
            if d[0] == 'val':
                if isinstance(d[2], int):
                    eq = d[2]
                continue
            op, c, truth = d[1], d[3], d[4]
            if not isinstance(c, int) or truth is None:
                continue
            if not truth:
                op = {'Lt': 'Ge', 'Ge': 'Lt', 'Gt': 'Le', 'Le': 'Gt', 'Eq': 'Ne', 'Ne': 'Eq'}[op]
            if op == 'Lt':
                hi = c - 1 if hi is None else min(hi, c - 1)
            elif op == 'Le':
                hi = c if hi is None else min(hi, c)
            elif op == 'Ge':
                lo = max(lo, c)
            elif op == 'Gt':
                lo = max(lo, c + 1)
            elif op == 'Eq':
                eq = c
            elif op == 'Ne':
                excl.add(c)
        if eq is None and hi is not None and hi - lo <= 64:
            cand = [v for v in range(lo, hi + 1) if v not in excl]
            if len(cand) == 1:
                eq = cand[0]
        if eq is not None and eq not in excl and (hi is None or eq <= hi) and eq >= lo:
            decisions = [d for d in decisions if d not in grp] + [('val', rf, eq)]
    return tuple(events), tuple(sorted(decisions, key=repr)), sites_of_event
