#!/usr/bin/env python3
"""Runner: ./check Cxx [--tier quick|thorough] [--replay file] [--facts cached.json]"""
import sys
import os
import time
import json
import importlib
import shutil

HERE = os.path.dirname(os.path.abspath(__file__))
sys.path.insert(0, HERE)
sys.path.insert(0, os.path.join(os.path.dirname(HERE), 'rules'))
import facts as F  # noqa: E402
import rule as R  # noqa: E402

COMMON_ASSUMPTIONS = [
    'rustc nightly builds MIR faithfully; the asemir driver serialises it faithfully',
    'dev-profile MIR (overflow checks and debug assertions on), mir-opt-level=0',
    'external callees behave as documented (std, byteorder, flate2, image, nohash)',
]


def main():
    args = sys.argv[1:]
    if not args:
        print('usage: check Cxx [--tier quick|thorough] [--replay f]')
        return 2
    prop = args[0]
    tier = os.environ.get('VERIF_TIER', 'quick')
    replay = None
    cached = os.environ.get('ASEMIR_FACTS')
    i = 1
    while i < len(args):
        if args[i] == '--tier':
            tier = args[i + 1]
            i += 2
        elif args[i] == '--replay':
            replay = args[i + 1]
            i += 2
        elif args[i] == '--facts':
            cached = args[i + 1]
            i += 2
        else:
            i += 1
    if tier not in ('quick', 'thorough'):
        tier = 'quick'
    root = os.environ.get('ASEFILE_ROOT', '/repo')
    t0 = time.time()
    mod = importlib.import_module(prop)
    nu = getattr(mod, 'NEEDS_UTILS', False)
    need_utils = nu == 'always' or (nu and tier == 'thorough')
    if cached:
        fx = F.load(cached, root)
        fx.extract_s = 0.0
    else:
        fx = F.extract(root)
    fxu = None
    if need_utils:
        cu = os.environ.get('ASEMIR_FACTS_UTILS')      # development only, like --facts
        fxu = F.load(cu, root) if (cached and cu) else F.extract(root, features='utils')
    ctx = R.Ctx(prop, fx, tier, fxu)
    ctx.assumptions = list(COMMON_ASSUMPTIONS)
    ctx.root = root
    level = getattr(mod, 'LEVEL', 'other')
    # the rule engine must end whatever the analysed code looks like: a watchdog turns a runaway analysis into a fail-closed finding
    # (seed C15-m sent the path enumeration into a 20-minute walk before the step budget of engine/schedule.py existed)
    import signal

    class AnalysisTimeout(Exception):
        pass

    def _alarm(signum, frame):
        raise AnalysisTimeout('rule evaluation exceeded %d s' % limit)
    limit = int(os.environ.get('VERIF_RULE_TIMEOUT_S', '300'))
    try:
        signal.signal(signal.SIGALRM, _alarm)
        signal.alarm(limit)
    except Exception:
        pass
    try:
        proof = mod.run(ctx) or None
        signal.alarm(0)
    except Exception as e:     # fail closed: an engine error on an unforeseen shape is reported as a finding, never a silent pass or a bare crash
        import traceback
        tb = traceback.extract_tb(e.__traceback__)
        where = '%s:%d' % (os.path.basename(tb[-1].filename), tb[-1].lineno) if tb else '?'
        proof = None
        try:
            signal.alarm(0)
        except Exception:
            pass
        ctx.fail('engine|%s|analysis-error' % prop, 'the analysis could not handle a construct of the analysed tree (%s: %s at %s); the rule fails closed - '
                 'the property is NOT shown for this tree' % (type(e).__name__, str(e)[:160], where))
    if tier == 'thorough' and not replay:
        import controls
        nfix, failed = controls.run_fixture_controls(ctx)
        ran, skipped = controls.run_mutant_controls(ctx, root)
        ctx.extra['thorough'] = {'fixture_controls_run': nfix, 'fixture_controls_failed': failed, 'source_mutants_run': ran,
                                 'source_mutants_not_applicable_to_this_tree': skipped,
                                 'note': 'thorough = quick rules + positive controls: the rule functions are re-run over selftest/fixture '
                                         '(one instance of every zero-count pattern) and over the source mutants registered for this property '
                                         '(scratch copies of the analysed tree); a control that no longer fires is a violation'}
        if fxu is not None and hasattr(mod, 'run_utils'):
            mod.run_utils(ctx, fxu)
    known = R.load_known().get(prop, {})
    matched = []
    viol = []
    for f in ctx.findings:
        if f.key in known:
            matched.append(f.key)
            print('KNOWN-FINDING: property=%s %s [%s] %s' % (prop, known[f.key] or f.msg, f.key, f.span or ''))
        else:
            viol.append(f)
    if replay:
        want = json.load(open(replay)).get('key')
        viol = [f for f in viol if f.key == want]
    evdir = os.environ.get('VERIF_EVIDENCE_DIR', '/verif/evidence')
    vdir = os.path.join(evdir, prop + '.violations')
    if os.path.isdir(vdir):
        shutil.rmtree(vdir, ignore_errors=True)
    wall = time.time() - t0
    ctx.extra['fact_extraction_s'] = round(getattr(fx, 'extract_s', 0.0), 2)
    ctx.extra['analysed_root'] = root
    if not replay:
        R.write_evidence(ctx, level, wall, len(viol), matched, os.path.join(evdir, prop + '.json'), proof)
    if viol:
        os.makedirs(vdir, exist_ok=True)
        for n, f in enumerate(viol):
            rp = os.path.join(vdir, '%d.json' % n)
            with open(rp, 'w') as fh:
                json.dump(f.to_json(), fh, indent=1, default=str)
            print('VIOLATION property=%s replay=%s' % (prop, rp))
            print('  %s' % f.msg)
            print('  key: %s' % f.key)
            if f.span:
                print('  at: %s' % f.span)
        return 1
    print('%s ok: %d instances evaluated (%d non-trivial), %d known findings, %.1fs'
          % (prop, len(ctx.instances), len(ctx.nontrivial), len(matched), wall))
    return 0


if __name__ == '__main__':
    sys.exit(main())
