"""Spec side of A4: expected labelled read sequences generated from tables/spec_layout.json, and the
comparison with the sequences extracted from the CFG."""
import json
import schedule
from terms import expand

SPEC_PATH = '/verif/tables/spec_layout.json'
KEEP_DECISIONS = ('flag', 'val', 'loop')
NO_INLINE = {'asefile::pixel::output_size', 'asefile::file::PixelFormat::bytes_per_pixel'} | {
    'asefile::reader::AseReader::' + k for k in ('byte', 'word', 'short', 'dword', 'long', 'string', 'read_exact', 'read_vec',
                                                   'skip_reserved', 'take_bytes', 'unzip', 'new', 'with')}


def load_spec():
    with open(SPEC_PATH) as f:
        return json.load(f)


def gen_paths(spec, sname, depth=0):
    """all item-lists for structure `sname` (ifs both ways, loops 0/1/2, every match case)"""
    return _gen(spec, spec['structures'][sname]['layout'], sname)


def _gen(spec, layout, sname):
    paths = [[]]
    for node in layout:
        k = node[0]
        if k in ('B', 'W', 'S', 'D', 'L', 'STR'):
            item = ('F', k, node[1], sname)
            paths = [p + [item] for p in paths]
        elif k == 'ign':
            paths = [p + [('skip', node[1], node[2], sname)] for p in paths]
        elif k == 'bytes':
            item = ('BYTES', node[1], tuple(node[2]), tuple(sorted(node[3])), bool(node[4]))
            paths = [p + [item] for p in paths]
        elif k == 'if_flag':
            sub = _gen(spec, node[3], sname)
            new = []
            for p in paths:
                new.append(p + [('D', 'flag', node[1], node[2], False)])
                for s in sub:
                    new.append(p + [('D', 'flag', node[1], node[2], True)] + s)
            paths = new
        elif k == 'match':
            new = []
            for val, lay in sorted(node[2].items(), key=lambda kv: int(kv[0])):
                sub = _gen(spec, lay, sname)
                for p in paths:
                    for s in sub:
                        new.append(p + [('D', 'val', node[1], int(val))] + s)
            paths = new
        elif k == 'loop':
            names = tuple(node[1])
            sub = _gen(spec, node[2], sname)
            new = []
            for p in paths:
                for n in range(3):
                    seqs = [[]]
                    for _ in range(n):
                        seqs = [s + [('D', 'loop', names, 'iter')] + b for s in seqs for b in sub]
                    for s in seqs:
                        new.append(p + s + [('D', 'loop', names, 'exit')])
            paths = new
        elif k == 'sub':
            sub = _gen(spec, spec['structures'][node[1]]['layout'], node[1])
            paths = [p + s for p in paths for s in sub]
        else:
            raise ValueError('bad spec node %r' % (node,))
    return paths


def normalise_spec(path):
    events = []
    names_of_event = []
    idx = {}
    decisions = []
    for it in path:
        if it[0] == 'F':
            code = it[1]
            events.append((code,))
            names_of_event.append([(it[3], it[2])])
            idx[it[2]] = len(events) - 1
        elif it[0] == 'skip':
            if events and events[-1][0] == 'skip':
                events[-1] = ('skip', events[-1][1] + it[1])
                names_of_event[-1].append((it[3], 'ign:' + it[2]))
            else:
                events.append(('skip', it[1]))
                names_of_event.append([(it[3], 'ign:' + it[2])])
        elif it[0] == 'BYTES':
            refs = tuple(sorted({idx[n] for n in it[2]}))
            events.append(('BYTES', it[1], refs, it[3], it[4]))
            names_of_event.append([('', 'payload')])
        else:
            tag = it[1]
            if tag == 'flag':
                decisions.append(('flag', (idx[it[2]],), it[3], it[4]))
            elif tag == 'val':
                decisions.append(('val', (idx[it[2]],), it[3]))
            elif tag == 'loop':
                decisions.append(('loop', tuple(sorted({idx[n] for n in it[2]})), it[3]))
    return tuple(events), tuple(sorted(decisions, key=repr)), names_of_event


def code_signatures(fx, body):
    """[(events, decisions, sites_of_event)] distinct signatures of the decoder's non-error paths"""
    S = schedule.get(fx)
    out = {}
    for p in S.paths(body):
        p2 = []
        for it in p:
            if it[0] == 'R' and it[5] is not None:
                it = it[:5] + (expand(it[5], fx, 3, tuple(NO_INLINE)),) + it[6:]
            elif it[0] == 'D':
                it = tuple(expand(e, fx, 3, tuple(NO_INLINE)) if isinstance(e, tuple) and e and isinstance(e[0], str)
                           and schedule._is_term(e) else e for e in it)
            p2.append(it)
        ev, dec, sites = schedule.normalise(p2)
        dec = tuple(d for d in dec if d[0] in KEEP_DECISIONS)
        out.setdefault((ev, dec), sites)
    return out


def spec_signatures(spec, sname):
    out = {}
    for p in gen_paths(spec, sname):
        ev, dec, names = normalise_spec(p)
        out.setdefault((ev, dec), names)
    return out


def fmt_events(ev):
    parts = []
    for e in ev:
        if e[0] == 'skip':
            parts.append('skip%s' % (e[1] if e[1] is not None else '<variable>'))
        elif e[0] == 'BYTES':
            parts.append('%s[size<-fields%s%s%s]' % (e[1], list(e[2]), ' consts%s' % list(e[3]) if e[3] else '', ' *bpp' if e[4] else ''))
        elif len(e) == 2:
            parts.append(e[0] + '(unused)')
        else:
            parts.append(e[0])
    return ' '.join(parts)


def fmt_decisions(dec):
    out = []
    for d in dec:
        if d[0] == 'flag':
            out.append('field%s&%s=%s' % (list(d[1]), d[2], 'set' if d[3] else 'clear'))
        elif d[0] == 'val':
            out.append('field%s==%s' % (list(d[1]), d[2]))
        elif d[0] == 'loop':
            out.append('loop(count<-fields%s):%s' % (list(d[1]), d[2]))
    return ', '.join(out)


def compare(fx, body, spec, sname):
    """-> dict(missing=[sig], extra=[sig], matched=n, binding={site: name}, conflicts=[...])"""
    cs0 = code_signatures(fx, body)
    ss = spec_signatures(spec, sname)
    # only decisions on fields that the format itself branches on label a path: a `match` / flag test the code makes on any other
    # field (to refuse a value, to pick a default ...) does not change which bytes are read and is judged by other rules
    subjects = {(d[0], d[1]) for (ev, dec) in ss for d in dec if d[0] in ('val', 'flag')}
    cs = {}
    for (ev, dec), sites in cs0.items():
        dec2 = tuple(d for d in dec if d[0] not in ('val', 'flag') or (d[0], d[1]) in subjects)
        cs.setdefault((ev, dec2), sites)
    missing = [k for k in ss if k not in cs]
    extra = [k for k in cs if k not in ss]
    binding = {}
    conflicts = []
    spans = {}
    for k in cs:
        if k in ss:
            sites = cs[k]
            names = ss[k]
            for se, ne in zip(sites, names):
                if len(se) == 1 and len(ne) == 1:
                    site, span = se[0]
                    nm = ne[0]
                    spans[site] = span
                    if site in binding and binding[site] != nm:
                        conflicts.append((site, binding[site], nm))
                    binding.setdefault(site, nm)
                else:
                    for site, span in se:
                        spans[site] = span
                        binding.setdefault(site, ('', 'ign:' + '+'.join(n[1].replace('ign:', '') for n in ne)))
    return {'missing': missing, 'extra': extra, 'matched': len([k for k in cs if k in ss]), 'code_paths': len(cs),
            'spec_paths': len(ss), 'binding': binding, 'conflicts': conflicts, 'spans': spans}


def closest(sig, others):
    """the signature in `others` sharing the longest event prefix with sig (for diagnostics)"""
    best = None
    bl = -1
    for o in others:
        n = 0
        for a, b in zip(sig[0], o[0]):
            if a != b:
                break
            n += 1
        if n > bl or (n == bl and best is not None and abs(len(o[0]) - len(sig[0])) < abs(len(best[0]) - len(sig[0]))):
            best, bl = o, n
    return best, bl
