"""Rule framework: findings, instances, floors, anchors, evidence."""
import json
import os
import time


class Finding:
    def __init__(self, prop, key, msg, span=None, detail=None):
        self.prop = prop
        self.key = key
        self.msg = msg
        self.span = span
        self.detail = detail or {}

    def to_json(self):
        return {'property': self.prop, 'key': self.key, 'message': self.msg, 'where': self.span,
                'detail': self.detail}


class View:
    """a rule-renaming view of a Ctx: lets one property run another property's rule function under its own rule ids
    (C01 runs C11's palette decoder rules as its L2).  Everything else is the underlying context."""
    def __init__(self, ctx, rename):
        object.__setattr__(self, '_ctx', ctx)
        object.__setattr__(self, '_rename', rename)

    def __getattr__(self, name):
        return getattr(self._ctx, name)

    def __setattr__(self, name, value):
        if name in ('rules', 'explanation', 'samples'):
            return                      # a whole run() of another property seen through the view keeps the host's description
        setattr(self._ctx, name, value)

    def inst(self, rule, subject, ok, what, span=None, nontrivial=True, detail=None, key=None):
        return self._ctx.inst(self._rename.get(rule, rule), subject, ok, what, span, nontrivial, detail, key)


class Ctx:
    def __init__(self, prop, fx, tier='quick', fx_utils=None):
        self.prop = prop
        self.fx = fx
        self.fx_utils = fx_utils
        self.tier = tier
        self.findings = []
        self.instances = []      # every evaluated rule instance
        self.nontrivial = set()  # distinct instance keys that carried an obligation
        self.samples = []
        self.floors = {}
        self.notes = []
        self.assumptions = []
        self.explanation = ''
        self.rules = []
        self.functions = set()
        self.extra = {}
        self._ord = {}

    # -- anchors
    def anchor(self, name, what='function'):
        """body by normalised name; a missing anchor is a finding (fail closed)."""
        b = None
        try:
            b = self.fx.body(name)
        except KeyError:
            b = None
        if b is None:
            self.fail('%s|anchor-missing' % name, 'anchor missing: %s %s is named by the rule table but not '
                      'present in the crate (renamed or removed?) - update the table' % (what, name))
            return None
        self.functions.add(name)
        return b

    def key(self, fn, rule, kind, operand):
        base = '%s|%s|%s|%s' % (fn, rule, kind, operand)
        n = self._ord.get(base, 0)
        self._ord[base] = n + 1
        return '%s|%d' % (base, n)

    # -- instances
    def inst(self, rule, subject, ok, what, span=None, nontrivial=True, detail=None, key=None):
        """record one evaluated rule instance; a failed instance is a finding."""
        k = key or ('%s|%s' % (subject, rule))
        rec = {'rule': rule, 'subject': subject, 'verdict': 'ok' if ok else 'VIOLATED', 'what': what}
        if span:
            rec['where'] = span
        if detail:
            rec['detail'] = detail
        self.instances.append(rec)
        if nontrivial:
            self.nontrivial.add(k)
        if not ok:
            self.findings.append(Finding(self.prop, k, '%s: %s' % (rule, what), span, detail))
        return ok

    def fail(self, key, msg, span=None, detail=None):
        self.instances.append({'rule': key.split('|')[1] if '|' in key else 'rule', 'subject': key,
                               'verdict': 'VIOLATED', 'what': msg})
        self.findings.append(Finding(self.prop, key, msg, span, detail))

    def floor(self, name, count, minimum):
        self.floors[name] = {'count': count, 'floor': minimum}
        if count < minimum:
            self.fail('floor|%s' % name, 'instance count for "%s" fell to %d, below the hand-confirmed floor %d '
                      '(the rule would pass vacuously)' % (name, count, minimum))

    def note(self, s):
        self.notes.append(s)


def load_known(path='/verif/known_findings.txt'):
    """lines: 'finding: property=Cxx key=<key> -- <what fails>' and 'fixed: ...' (suppresses nothing)"""
    out = {}
    if not os.path.exists(path):
        return out
    for line in open(path):
        line = line.strip()
        if not line.startswith('finding:'):
            continue
        rest = line[len('finding:'):].strip()
        try:
            p = rest.split('property=', 1)[1].split()[0]
            k = rest.split('key=', 1)[1].split(' -- ', 1)[0].strip()
            what = rest.split(' -- ', 1)[1] if ' -- ' in rest else ''
        except IndexError:
            continue
        out.setdefault(p, {})[k] = what
    return out


def write_evidence(ctx, level, wall_s, violations, known_matched, path, proof=None):
    cov = {
        'explanation': ctx.explanation,
        'evaluations': len(ctx.instances),
        'distinct_nontrivial': len(ctx.nontrivial),
        'rule': ('instances are enumerated from the type-checked MIR of /repo (every site, table row, field '
                 'binding or path the rule applies to); one is non-trivial when it carried an obligation '
                 '(a guard, table row, origin or layout that had to match), counted once per distinct key'),
        'samples': ctx.samples or ctx.instances[:12],
        'rules_applied': ctx.rules,
        'functions_analysed': sorted(ctx.functions),
        'bodies_in_crate': len(ctx.fx.bodies),
        'floors': ctx.floors,
        'known_findings_matched': known_matched,
        'notes': ctx.notes,
        'exhaustive': True,
    }
    cov.update(ctx.extra)
    if proof:
        cov.update(proof)
    ev = {
        'property_id': ctx.prop,
        'tier': ctx.tier,
        'seed': int(os.environ.get('VERIF_SEED', '0') or 0),
        'level': level,
        'coverage': cov,
        'assumptions': ctx.assumptions,
        'wall_s': round(wall_s, 2),
        'violations': violations,
    }
    os.makedirs(os.path.dirname(path), exist_ok=True)
    tmp = path + '.tmp'
    with open(tmp, 'w') as f:
        json.dump(ev, f, indent=1, default=str)
    os.replace(tmp, path)
