#!/bin/bash
# usage: extract.sh <repo-root> <out-dir> [cargo feature args...]
# Runs the asemir driver under the real `cargo check` build with a fresh target dir.
set -euo pipefail
ROOT="$1"; OUT="$2"; shift 2
DRV=/verif/driver/target/release/asemir
[ -x "$DRV" ] || { echo "asemir driver not built (run MANIFEST.setup_cmd)" >&2; exit 2; }
TGT=$(mktemp -d /tmp/asemir-tgt.XXXXXX)
trap 'rm -rf "$TGT"' EXIT
mkdir -p "$OUT"
SYSROOT=$(rustc +nightly --print sysroot)
env LD_LIBRARY_PATH="$SYSROOT/lib" RUSTFLAGS="-Zmir-opt-level=0 -Awarnings" \
  RUSTC_WORKSPACE_WRAPPER="$DRV" ASEMIR_OUT="$OUT" CARGO_TARGET_DIR="$TGT" \
  CARGO_NET_OFFLINE=true \
  cargo +nightly check --offline --lib --manifest-path "$ROOT/Cargo.toml" "$@" >"$OUT/cargo.log" 2>&1 \
  || { cat "$OUT/cargo.log" >&2; exit 2; }
