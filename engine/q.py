"""Query helpers over bodies and terms, shared by the rules."""
from terms import (get_resolver, expand, show, walk, alts, strip_casts, casts_on, payload, mk_any)
from facts import strip_generics


def res(body):
    return get_resolver(body)


def stmt_aggs(body, adt=None, variant=None):
    """[(bb, stmt, term)] for aggregate assignments (non-cleanup, reachable) of an ADT"""
    r = res(body)
    out = []
    for bi, b in enumerate(body.blocks):
        if b['cleanup'] or bi not in body.cfg.reach:
            continue
        for st in b['stmts']:
            if st['k'] == 'assign' and st['rv']['k'] == 'agg' and st['rv'].get('ak') == 'adt':
                a = strip_generics(st['rv']['adt'])
                if adt is not None and a != adt:
                    continue
                if variant is not None and st['rv']['variant'] != variant:
                    continue
                out.append((bi, st, r.rvalue(st['rv'], (), bi)))
    return out


def calls(body, callee=None, pred=None):
    out = []
    for c in body.calls():
        if body.blocks[c.bb]['cleanup'] or c.bb not in body.cfg.reach:
            continue
        name = c.res_norm if (c.fn and c.fn.get('res_local')) else c.callee
        if callee is not None and name != callee and c.callee != callee:
            continue
        if pred is not None and not pred(c):
            continue
        out.append(c)
    return out


def callee_name(c):
    return c.res_norm if (c.fn and c.fn.get('res_local')) else c.callee


def arg_terms(c):
    r = res(c.body)
    return [r.operand(a) for a in c.args]


def dest_term(c):
    r = res(c.body)
    return r.call_term(c.term, (), c.bb)


def is_param(t, idx=None):
    return isinstance(t, tuple) and t[0] == 'param' and (idx is None or t[1] == idx)


def field_path(t):
    """('field', ('field', X, a), b) -> (X, [a, b])"""
    names = []
    while isinstance(t, tuple) and t[0] == 'field':
        names.append(t[2])
        t = t[1]
    names.reverse()
    return t, names


def is_param_path(t, idx, names):
    base, ns = field_path(t)
    return is_param(base, idx) and ns == list(names)


def switch_cond(body, bb):
    """the discriminant term of the switch terminating bb"""
    t = body.blocks[bb]['term']
    if not t or t['k'] != 'switch':
        return None
    return res(body).operand(t['discr'])


def edge_value(body, a, s):
    """the switch value(s) that lead from a to s: list of ints, or 'otherwise'"""
    t = body.blocks[a]['term']
    vals = [v for v, bb in t['targets'] if bb == s]
    if t['otherwise'] == s:
        return vals + ['otherwise']
    return vals


def guards(body, bb):
    """[(cond_term, values_taken, switch_bb)] for every switch edge dominating bb"""
    out = []
    for a, s in body.cfg.switches_dominating(bb):
        out.append((switch_cond(body, a), edge_value(body, a, s), a))
    return out


def bool_outcome(body, a, vals):
    """for a boolean switch: True/False for the edge"""
    t = body.blocks[a]['term']
    if t['ty'] != 'bool':
        return None
    if vals == [0]:
        return False
    if vals == ['otherwise'] and [v for v, _ in t['targets']] == [0]:
        return True
    if vals == [1]:
        return True
    return None


def subterms(t, pred):
    return [x for x in walk(t) if isinstance(x, tuple) and pred(x)]


def contains(t, sub):
    return any(x == sub for x in walk(t))


def calls_in(t, callee):
    return [x for x in walk(t) if isinstance(x, tuple) and x[0] == 'call' and x[1] == callee]


def is_call(t, callee=None):
    return isinstance(t, tuple) and t[0] == 'call' and (callee is None or t[1] == callee)


def const_val(t):
    """value of a constant term; closed integer arithmetic over constants (`K - 1`, `1 << 16`, `6 as u32`) counts as a constant"""
    if isinstance(t, tuple) and t and t[0] == 'const':
        return t[1]
    if isinstance(t, tuple) and t and t[0] in ('bin', 'cast') and not any(
            isinstance(x, tuple) and x and x[0] not in ('bin', 'cast', 'const') for x in walk(t) if isinstance(x, tuple) and x):
        return const_fold(t)
    return None


def where(body, bb, stmt=None):
    if stmt is not None:
        return stmt.get('span')
    t = body.blocks[bb]['term']
    return t.get('span') if t else body.span


def fn_of_site(site):
    return site[0] if site else None


# ---------------------------------------------------------------- def-use (forward)
def _op_locals(op):
    if op['k'] in ('copy', 'move'):
        out = [op['p']['l']]
        for e in op['p']['p']:
            if e['k'] == 'index':
                out.append(e['l'])
        return out
    return []


def _place_locals_read(p):
    """locals read when *writing* to place p (index operands, derefs of the base pointer)"""
    out = []
    for e in p['p']:
        if e['k'] == 'index':
            out.append(e['l'])
    if any(e['k'] == 'deref' for e in p['p']):
        out.append(p['l'])
    return out


def rv_operands(rv):
    k = rv['k']
    if k in ('use', 'cast', 'repeat'):
        return [rv['op']]
    if k == 'bin':
        return [rv['a'], rv['b']]
    if k == 'un':
        return [rv['a']]
    if k == 'agg':
        return list(rv['ops'])
    return []


def rv_places(rv):
    k = rv['k']
    if k in ('ref', 'rawptr', 'copyforderef', 'discr'):
        return [rv['p']]
    return []


def uses(body, local):
    """every read of `local` in reachable non-cleanup blocks:
    [(kind, bb, obj)] kind in stmt-operand / stmt-place / call-arg / switch / assert / drop / ret"""
    out = []
    for bi, b in enumerate(body.blocks):
        if b['cleanup'] or bi not in body.cfg.reach:
            continue
        for st in b['stmts']:
            if st['k'] != 'assign':
                continue
            for op in rv_operands(st['rv']):
                if local in _op_locals(op):
                    out.append(('stmt-operand', bi, st))
            for p in rv_places(st['rv']):
                if p['l'] == local or local in _place_locals_read(p):
                    out.append(('stmt-place', bi, st))
            if local in _place_locals_read(st['p']):
                out.append(('stmt-dest', bi, st))
        t = b['term']
        if not t:
            continue
        k = t['k']
        if k == 'call':
            for i, a in enumerate(t['args']):
                if local in _op_locals(a):
                    out.append(('call-arg', bi, (t, i)))
            if t.get('indirect') and local in _op_locals(t['indirect']):
                out.append(('call-fn', bi, t))
            if local in _place_locals_read(t['dest']):
                out.append(('call-dest', bi, t))
        elif k == 'switch':
            if local in _op_locals(t['discr']):
                out.append(('switch', bi, t))
        elif k == 'assert':
            if local in _op_locals(t['cond']):
                out.append(('assert', bi, t))
        elif k == 'drop':
            if t['p']['l'] == local:
                out.append(('drop', bi, t))
        elif k == 'return' and local == 0:
            out.append(('ret', bi, t))
    return out


def ty_is_result(ty):
    return ty.startswith('std::result::Result<') or ty.startswith('core::result::Result<')


RESULT_PROPAGATORS = {
    'std::ops::Try::branch', 'std::result::Result::map', 'std::result::Result::map_err',
    'std::result::Result::and_then', 'std::ops::FromResidual::from_residual',
    'std::iter::Iterator::collect',
}


def _manual_question_mark(body, local):
    """block of the switch if `local` (a Result) is only inspected by a match whose Err arm returns an error on every path and
    whose other uses are projections of its payloads ((x as Ok).0 / (x as Err).0); else None"""
    if 'Result<' not in body.locals[local]['ty'] and 'result::Result' not in body.locals[local]['ty']:
        return None
    dls = []
    for bi, b in enumerate(body.blocks):
        if b['cleanup'] or bi not in body.cfg.reach:
            continue
        for st in b['stmts']:
            if st['k'] == 'assign' and st['rv']['k'] == 'discr' and st['rv']['p']['l'] == local and not st['rv']['p']['p']:
                dls.append((bi, st['p']['l']))
    if not dls:
        return None
    # drop elaboration re-reads the discriminant inside the arms: the match proper is the read that dominates the others
    top = [d for d in dls if all(body.cfg.dominates(d[0], o[0]) for o in dls)]
    if len(top) != 1:
        return None
    bi, dl = top[0]
    sw = None
    for bj, b in enumerate(body.blocks):
        t = b['term']
        if t and t['k'] == 'switch' and t['discr'].get('k') in ('copy', 'move') and t['discr']['p']['l'] == dl and not t['discr']['p']['p']:
            sw = bj
    if sw is None:
        return None
    t = body.blocks[sw]['term']
    err_edges = [s_ for v_, s_ in t['targets'] if v_ == 1] or ([t['otherwise']] if any(v_ == 0 for v_, _ in t['targets']) else [])
    if not err_edges or not all(arm_always_err(body, e_) for e_ in err_edges):
        return None
    # every other use reads a payload through a downcast
    for bj, b in enumerate(body.blocks):
        if b['cleanup'] or bj not in body.cfg.reach:
            continue
        for st in b['stmts']:
            if st['k'] != 'assign':
                continue
            for p_ in [o['p'] for o in rv_operands(st['rv']) if o.get('k') in ('copy', 'move')] + list(rv_places(st['rv'])):
                if p_['l'] == local:
                    if st['rv']['k'] == 'discr':
                        continue
                    if not (p_['p'] and p_['p'][0].get('k') == 'downcast'):
                        return None
        tt = b['term']
        if tt and tt['k'] == 'call':
            for a in tt['args']:
                if a.get('k') in ('copy', 'move') and a['p']['l'] == local and not (a['p']['p'] and a['p']['p'][0].get('k') == 'downcast'):
                    return None
    return sw


def result_fates(body, local, seen=None):
    """where does the Result held in `local` end up?  returns list of (fate, bb, span)
    fate in: try / returned / combinator:<callee> (followed) / consumed:<callee> / matched / dropped / field-read"""
    if seen is None:
        seen = set()
    if local in seen:
        return []
    seen.add(local)
    out = []
    us = uses(body, local)
    mq = _manual_question_mark(body, local)
    if mq is not None:
        # `match r { Ok(v) => v, Err(e) => return Err(..) }`: the hand-written form of `r?`
        return [('try', mq, body.blocks[mq]['term'].get('span'))]
    real = [u for u in us if u[0] != 'drop']
    if local == 0:
        out.append(('returned', None, body.span))
    if not real and local != 0:
        out.append(('dropped', None, None))
    for kind, bb, obj in real:
        if kind == 'stmt-operand':
            st = obj
            rv = st['rv']
            if rv['k'] == 'use' and not st['p']['p']:
                out += result_fates(body, st['p']['l'], seen)
            elif rv['k'] == 'agg':
                # wrapped in an aggregate (e.g. Some(r)): follow the aggregate
                out += result_fates(body, st['p']['l'], seen)
            else:
                out.append(('other-use', bb, st.get('span')))
        elif kind == 'stmt-place':
            st = obj
            if st['rv']['k'] == 'discr':
                out.append(('matched', bb, st.get('span')))
            elif st['rv']['k'] in ('ref', 'copyforderef') and not st['p']['p']:
                out += result_fates(body, st['p']['l'], seen)
            else:
                out.append(('other-use', bb, st.get('span')))
        elif kind == 'call-arg':
            t, i = obj
            c = body.call_at(bb)
            name = callee_name(c)
            if name == 'std::ops::Try::branch':
                out.append(('try', bb, t['span']))
            elif name in RESULT_PROPAGATORS and i == 0:
                out += result_fates(body, t['dest']['l'], seen)
            else:
                out.append(('consumed:' + name, bb, t['span']))
        elif kind == 'switch':
            out.append(('matched', bb, obj['span']))
        else:
            out.append((kind, bb, None))
    return out


# ---------------------------------------------------------------- A5 switch tables
def edge_region(body, a, s):
    """blocks that can only be reached through edge a->s"""
    cfg = body.cfg
    seen = set()
    st = [0]
    while st:
        x = st.pop()
        if x in seen:
            continue
        seen.add(x)
        for y in cfg.succ[x]:
            if x == a and y == s:
                continue
            st.append(y)
    return cfg.reach - seen


def defs_in(body, blocks):
    """[(local, proj, term, bb, span)] assignments (stmts and call dests) inside `blocks`"""
    r = res(body)
    out = []
    for bi in sorted(blocks):
        b = body.blocks[bi]
        if b['cleanup']:
            continue
        for st in b['stmts']:
            if st['k'] == 'assign':
                out.append((st['p']['l'], r._projkey(st['p']), r.rvalue(st['rv'], (), bi), bi, st.get('span')))
        t = b['term']
        if t and t['k'] == 'call':
            out.append((t['dest']['l'], r._projkey(t['dest']), r.call_term(t, (), bi), bi, t.get('span')))
    return out


def switch_table(body, bb):
    """{'values': {v: succ}, 'otherwise': succ, 'arms': {succ: {'region', 'defs', 'ret'}}}
    'ret' = list of terms assigned to _0 (whole) inside the arm region."""
    t = body.blocks[bb]['term']
    values = {v: s for v, s in t['targets']}
    out = {'values': values, 'otherwise': t['otherwise'], 'arms': {}, 'bb': bb, 'span': t['span'],
           'ty': t['ty']}
    for s in set(list(values.values()) + [t['otherwise']]):
        reg = edge_region(body, bb, s)
        ds = defs_in(body, reg)
        out['arms'][s] = {'region': reg, 'defs': ds,
                          'ret': [d[2] for d in ds if d[0] == 0 and not d[1]]}
    return out


def switches_on(body, pred):
    """switch blocks whose discriminant term satisfies pred (after stripping casts and discr())"""
    out = []
    for bi, b in enumerate(body.blocks):
        t = b['term']
        if b['cleanup'] or bi not in body.cfg.reach or not t or t['k'] != 'switch':
            continue
        d = res(body).operand(t['discr'])
        if pred(d):
            out.append(bi)
    return out


def is_err_term(t):
    """an error-return value"""
    if t[0] == 'residual':
        return True
    if t[0] == 'agg' and t[2] == 'Err':
        return True
    return False


_NEG = {'Lt': 'Ge', 'Ge': 'Lt', 'Gt': 'Le', 'Le': 'Gt', 'Eq': 'Ne', 'Ne': 'Eq'}
_SWAP = {'Lt': 'Gt', 'Gt': 'Lt', 'Le': 'Ge', 'Ge': 'Le', 'Eq': 'Eq', 'Ne': 'Ne'}


def holds(cond, truth):
    """the comparison that is known to hold when `cond` evaluated to `truth`: (op, left, right) with casts stripped, or None.
    `!(a > b)` is reported as (Le, a, b); use holds_both to also get the mirrored spelling."""
    if truth is None:
        return None
    if cond[0] == 'un' and cond[1] == 'Not':
        return holds(cond[2], not truth)
    if cond[0] != 'bin' or cond[1] not in _NEG:
        return None
    op = cond[1] if truth else _NEG[cond[1]]
    return op, strip_casts(cond[2]), strip_casts(cond[3])


def holds_both(cond, truth):
    h = holds(cond, truth)
    if h is None:
        return []
    op, l, r = h
    return [(op, l, r), (_SWAP[op], r, l)]


def facts_at(body, bb):
    """all comparisons known to hold on entry to block bb (from dominating branches), both spellings"""
    out = []
    for cond, vals, a in guards(body, bb):
        out += holds_both(cond, bool_outcome(body, a, vals))
    return out


def root_local(body, op):
    """follow plain copies back to the user local an operand denotes"""
    r = res(body)
    l = op['p']['l'] if op['k'] in ('copy', 'move') and not op['p']['p'] else None
    seen = set()
    while l is not None and l not in seen:
        seen.add(l)
        ds = r.defs.get(l, [])
        if len(ds) == 1 and ds[0][1] == 'rv' and ds[0][2]['k'] == 'use' and ds[0][2]['op']['k'] in ('copy', 'move') \
                and not ds[0][2]['op']['p']['p'] and not ds[0][0]:
            l = ds[0][2]['op']['p']['l']
        else:
            break
    return l


def origin_local(body, op, depth=12):
    """root_local, also through a value that was packed into a struct / Ok(..) / `?` and taken out again (`let p = Packet::read(..)?;
    .. p.first_id ..` with the helper inlined): the local whose value the operand carries, or None.  Every step follows the ONLY whole
    definition of a temporary, so the answer is exact, not one of several alternatives."""
    r = res(body)
    if op.get('k') not in ('copy', 'move'):
        return None
    l, proj = op['p']['l'], list(op['p']['p'])
    for _ in range(depth * 4):
        ds = list(r.defs.get(l, []))
        if proj and proj[0].get('k') == 'downcast':
            # looking at the value under one variant: definitions that build another variant (the Err of an inlined helper's `?`, the
            # copies of a Try::branch block the inliner made for the error route) do not supply it
            v = proj[0].get('v')
            def other(d):
                if d[0]:
                    return False
                if body.blocks[d[3]].get('err_dup'):
                    return True
                if d[1] == 'rv' and d[2]['k'] == 'agg' and d[2].get('variant') not in (None, v):
                    return True
                return d[1] == 'call' and v in ('Ok', 'Some', 'Continue') and (d[2].get('fn') or {}).get('orig', '').endswith('from_residual')
            ds = [d for d in ds if not other(d)]
        if len(ds) != 1 or ds[0][0]:
            break
        _, kind, pl, bb = ds[0]
        if kind == 'rv' and pl['k'] == 'use' and pl['op']['k'] in ('copy', 'move'):
            l, proj = pl['op']['p']['l'], list(pl['op']['p']['p']) + proj
            continue
        if kind == 'rv' and pl['k'] == 'agg' and pl.get('ak') in ('adt', 'tuple') and proj:
            pr = list(proj)
            if pr[0].get('k') == 'downcast':
                if pr[0].get('v') != pl.get('variant'):
                    break
                pr = pr[1:]
            if not pr or pr[0].get('k') != 'field' or pr[0]['i'] >= len(pl['ops']):
                break
            o2 = pl['ops'][pr[0]['i']]
            if o2.get('k') not in ('copy', 'move'):
                return None
            l, proj = o2['p']['l'], list(o2['p']['p']) + pr[1:]
            continue
        if kind == 'call' and (pl.get('fn') or {}).get('orig', '').endswith('Try::branch') and len(pl['args']) == 1 and len(proj) >= 2 \
                and proj[0].get('k') == 'downcast' and proj[0].get('v') == 'Continue' and proj[1].get('k') == 'field' \
                and pl['args'][0].get('k') in ('copy', 'move'):
            a = pl['args'][0]
            ok_v = 'Ok' if 'Result<' in a['p'].get('ty', '').replace('result::Result', 'Result') else 'Some'
            l = a['p']['l']
            proj = list(a['p']['p']) + [{'k': 'downcast', 'vi': 0 if ok_v == 'Ok' else 1, 'v': ok_v}, proj[1]] + proj[2:]
            continue
        break
    return l if not proj else None


def local_defs(body, l):
    """[(term, bb)] whole definitions of local l"""
    r = res(body)
    out = []
    for proj, kind, pl, bb in r.defs.get(l, []):
        if proj:
            continue
        t = r.rvalue(pl, (l,), bb) if kind == 'rv' else r.call_term(pl, (l,), bb)
        out.append((t, bb))
    return out


def closure_item_range(fx, cbody, any_source=False):
    """for a closure body handed to an iterator adapter (map / filter / all / any / for_each / find / position ..) whose source,
    below order- and value-preserving adapters, is a Range: the Range term (its items are what the closure's argument takes), in
    the terms of the function that builds the closure; else None.  `filter(|x| ..)` receives `&item`: same values."""
    if '{closure' not in cbody.name:
        return None
    parent_name = cbody.name.rsplit('::{closure', 1)[0]
    pb = fx.body(parent_name)
    if pb is None:
        return None
    for c in calls(pb):
        at = arg_terms(c)
        if len(at) < 2 or not any(isinstance(a, tuple) and a and a[0] == 'closure' and a[1] == cbody.path for a in at[1:]):
            continue
        if not c.callee.startswith('std::iter::Iterator::'):
            return None
        src = at[0]
        while src[0] == 'call' and src[1].startswith('std::iter::Iterator::') and src[1].split('::')[-1] in (
                'filter', 'rev', 'skip', 'take', 'step_by', 'skip_while', 'take_while', 'inspect', 'by_ref', 'peekable', 'into_iter') and src[2]:
            src = src[2][0]
        if src[0] == 'agg' and src[1] in ('std::ops::Range', 'std::ops::RangeInclusive'):
            return src
        return src if any_source else None
    return None


def closure_item_source(fx, cbody):
    """like closure_item_range, for any source: the iterator (below order- and value-preserving adapters) whose items the closure's
    argument takes, in the terms of the function that builds the closure; else None"""
    return closure_item_range(fx, cbody, any_source=True)


def deep_facts(body, bb, _depth=3):
    """facts_at, seen through materialised booleans: for `let ok = a >= 0 && a < w; if ok { .. }` the switch tests a local whose
    definitions are `false` (on the a < 0 side) and `a < w` (on the a >= 0 side); ok == true can only come from the second one,
    so `a < w` holds and so does everything that guards that definition (a >= 0).  Dually for `||` and the false edge."""
    out = []
    for cond, vals, a in guards(body, bb):
        truth = bool_outcome(body, a, vals)
        out += holds_both(cond, truth)
        if truth is None or _depth == 0:
            continue
        l = root_local(body, body.blocks[a]['term']['discr'])
        if l is None:
            continue
        defs = [(t, b_) for t, b_ in local_defs(body, l) if b_ in body.cfg.reach]
        if len(defs) < 2:
            continue
        live = [(t, b_) for t, b_ in defs if not (t[0] == 'const' and isinstance(t[1], (bool, int)) and bool(t[1]) == (not truth))]
        if len(live) != 1:
            continue
        t, b_ = live[0]
        out += holds_both(t, truth)
        out += deep_facts(body, b_, _depth - 1)
    return out


def deep_conds(body, bb, _depth=3):
    """[(condition term, truth)] known at bb - the guards themselves and, like deep_facts, what a materialised boolean stands for
    (`let ok = r1.contains(&x) && r2.contains(&y); if ok {..}`, or the same returned by an inlined helper): conditions that are
    calls rather than comparisons included"""
    out = []
    for cond, vals, a in guards(body, bb):
        truth = bool_outcome(body, a, vals)
        if truth is None:
            continue
        out.append((cond, truth))
        if _depth == 0:
            continue
        l = root_local(body, body.blocks[a]['term']['discr'])
        if l is None:
            continue
        defs = [(t, b_) for t, b_ in local_defs(body, l) if b_ in body.cfg.reach]
        if len(defs) < 2:
            continue
        live = [(t, b_) for t, b_ in defs if not (t[0] == 'const' and isinstance(t[1], (bool, int)) and bool(t[1]) == (not truth))]
        if len(live) != 1:
            continue
        t, b_ = live[0]
        out.append((t, truth))
        out += deep_conds(body, b_, _depth - 1)
    return out


def controlling_switches(body, x):
    """blocks ending in a switch on which block x is (transitively) control dependent: one edge of the switch leads to x on every
    returning path, another one can return without x.  Unlike dominating guards this sees short-circuit tests (`if a && b && c
    { fast path; return }` makes what follows depend on three switches none of which dominates it with a single edge)."""
    cfg = body.cfg
    sws = [i for i in cfg.reach if not body.blocks[i]['cleanup'] and body.blocks[i]['term'] and body.blocks[i]['term']['k'] == 'switch']
    out, work = set(), [x]
    while work:
        y = work.pop()
        for S in sws:
            if S in out:
                continue
            succs = [s_ for s_ in cfg.succ[S] if not body.blocks[s_]['cleanup']]
            if any(s_ == y or cfg.postdominates(y, s_) for s_ in succs) and not cfg.postdominates(y, S):
                out.add(S)
                work.append(S)
    return out


def counter_loop(body, L):
    """`let mut c = S; while c < N { ...; c += 1; }` -> the iterator term of the equivalent `for c in S..N`
    (an ('agg', 'std::ops::Range', ..) term), or None.  Requires: the loop header tests c < N (or N > c), c has exactly one
    definition outside the loop and one inside, the inner one is c + 1 and lies on every iteration (dominates the back edges),
    N is not assigned inside the loop."""
    h = L['header']
    blk = body.blocks[h]
    t = blk['term']
    if not t or t['k'] != 'switch' or t['discr'].get('k') not in ('copy', 'move') or t['discr']['p']['p']:
        return None
    dl = t['discr']['p']['l']
    cmpv = None
    for st in blk['stmts']:
        if st['k'] == 'assign' and st['p']['l'] == dl and not st['p']['p'] and st['rv']['k'] == 'bin' and st['rv']['op'] in ('Lt', 'Gt'):
            cmpv = st['rv']
    if cmpv is None:
        return None
    a, b = (cmpv['a'], cmpv['b']) if cmpv['op'] == 'Lt' else (cmpv['b'], cmpv['a'])
    if a.get('k') not in ('copy', 'move') or a['p']['p']:
        return None
    r = res(body)
    # the compared local may be a copy of the counter made in the header
    c = a['p']['l']
    ds = r.defs.get(c, [])
    if len(ds) == 1 and ds[0][1] == 'rv' and ds[0][2]['k'] == 'use' and ds[0][2]['op'].get('k') in ('copy', 'move') and not ds[0][2]['op']['p']['p'] \
            and ds[0][3] == h:
        c = ds[0][2]['op']['p']['l']
        ds = r.defs.get(c, [])
    whole = [d for d in ds if not d[0]]
    if len(whole) != 2 or len(ds) != 2:
        return None
    inside = [d for d in whole if d[3] in L['body']]
    outside = [d for d in whole if d[3] not in L['body']]
    if len(inside) != 1 or len(outside) != 1:
        return None
    inc = r.rvalue(inside[0][2], (c,), inside[0][3]) if inside[0][1] == 'rv' else None
    if inc is None:
        return None
    inc = strip_casts(inc)
    if not (inc[0] == 'bin' and inc[1] == 'Add' and const_val(inc[3]) == 1 and inc[2][0] == 'phi'):
        return None
    if not all(body.cfg.dominates(inside[0][3], x) for x, _ in L['back_edges']):
        return None
    start = r.rvalue(outside[0][2], (c,), outside[0][3]) if outside[0][1] == 'rv' else None
    if start is None:
        return None
    end = r.operand(b)
    if b.get('k') in ('copy', 'move'):
        if any(d[3] in L['body'] for d in r.defs.get(b['p']['l'], [])) and not (
                len(r.defs.get(b['p']['l'], [])) == 1 and r.defs[b['p']['l']][0][3] == h):
            return None
    return ('agg', 'std::ops::Range', None, (('start', start), ('end', end)))


def thread_bool(body, bb):
    """`matches!(x, P)` and `a && b` materialise a bool: an arm assigns a constant to a temporary and the join block switches
    on that temporary.  If block bb does only that, return the block the constant leads to; else bb."""
    blk = body.blocks[bb]
    t = blk['term']
    if not t or t['k'] != 'goto':
        return bb
    consts = [(st['p']['l'], st['rv']['op'].get('v')) for st in blk['stmts']
              if st['k'] == 'assign' and not st['p']['p'] and st['rv']['k'] == 'use' and st['rv']['op'].get('k') == 'const'
              and st['rv']['op'].get('ty') == 'bool']
    if len(consts) != 1 or len([st for st in blk['stmts'] if st['k'] == 'assign']) != 1:
        return bb
    l, v = consts[0]
    nxt = body.blocks[t['target']]
    nt = nxt['term']
    if nxt['stmts'] or not nt or nt['k'] != 'switch' or nt['discr'].get('k') not in ('copy', 'move') or nt['discr']['p']['l'] != l or nt['discr']['p']['p']:
        return bb
    v = 1 if v in (1, True) else 0
    for vv, s_ in nt['targets']:
        if vv == v:
            return s_
    return nt['otherwise']


def error_blocks(body):
    """blocks that set an error value which must end the function with that error: a whole definition of the return slot
    (local 0) - or of the return slot of an inlined `helper(..)?` call (locals flagged err_exit by engine/inline.py) - by an
    error term only"""
    out = set()
    manual = getattr(body, '_manual_qm', None)
    if manual is None:
        # return slots of inlined helpers whose result the caller inspects with a hand-written `?`
        # (`match helper(..) { Ok(v) => v, Err(e) => return Err(e) }`, `if let Err(e) = helper(..) { return Err(e) }`)
        manual = set()
        for i, l in enumerate(body.locals):
            rd = l.get('ret_dest')
            if rd is not None and not l.get('err_exit') and _manual_question_mark(body, rd) is not None:
                manual.add(i)
        try:
            body._manual_qm = manual
        except Exception:
            pass
    for d in defs_in(body, body.cfg.reach):
        if d[1]:
            continue
        if d[0] == 0 or body.locals[d[0]].get('err_exit') or d[0] in manual:
            if all(is_err_term(a) for a in alts(d[2])):
                out.add(d[3])
    return out


def return_slots(body):
    """locals that carry the function's result: local 0, and the return slots of inlined `helper(..)?` calls (an Err put there ends the
    function with that error)"""
    error_blocks(body)          # fills body._manual_qm
    manual = getattr(body, '_manual_qm', set())
    return {0} | {i for i, l in enumerate(body.locals) if l.get('err_exit')} | set(manual)


def is_ok_agg(t):
    return t[0] == 'agg' and t[2] == 'Ok'


def _handoffs(body):
    """{(bb, local)}: statements `slot = move other_slot` between result slots (the result of an inlined helper handed to the caller's
    own return place): they create neither an Ok nor an Err value"""
    h = getattr(body, '_handoff_memo', None)
    if h is not None:
        return h
    slots = return_slots(body) | {i for i, l in enumerate(body.locals) if l.get('ret_dest') == 0}
    h = set()
    for bi, blk in enumerate(body.blocks):
        for st in blk['stmts']:
            if st['k'] == 'assign' and not st['p']['p'] and st['rv']['k'] == 'use' and st['rv']['op'].get('k') in ('move', 'copy') \
                    and not st['rv']['op']['p']['p'] and st['rv']['op']['p']['l'] in slots and (st['p']['l'] in slots or st['p']['l'] == 0):
                h.add((bi, st['p']['l']))
    try:
        body._handoff_memo = h
    except Exception:
        pass
    return h


def result_slots(body):
    """locals whose value becomes the function's own result: local 0 and the return slot of an inlined helper whose result is the
    caller's result (tail call)"""
    return {0} | {i for i, l in enumerate(body.locals) if l.get('ret_dest') == 0 and l.get('err_exit')}


def arm_always_err(body, succ, region=None):
    """every path from `succ` to a return carries an Err in the function's result and no Ok value is assigned on the way:
    checked as: within blocks reachable from succ (before return), every whole def of a result slot (local 0, or the return slot of an
    inlined helper whose result the caller returns / `?`-propagates) is an error term and there is at least one."""
    cfg = body.cfg
    reach = cfg.reachable_from(succ)
    slots = return_slots(body)
    ho = _handoffs(body)
    ds = [d for d in defs_in(body, reach) if d[0] in slots and not d[1] and (d[3], d[0]) not in ho]
    if not ds:
        return False
    return all(all(is_err_term(a) for a in alts(d[2])) for d in ds)


# ---------------------------------------------------------------- abstract evaluation of branch conditions
class CannotEval(Exception):
    pass


def eval_term(t, env):
    """evaluate a comparison/bit term over an environment {term: int}; raises CannotEval"""
    if t in env:
        return env[t]
    k = t[0]
    if k == 'const' and isinstance(t[1], int):
        return t[1]
    if k == 'cast':
        return eval_term(t[1], env)
    if k == 'un' and t[1] == 'Not':
        v = eval_term(t[2], env)
        return (not v) if isinstance(v, bool) else ~v
    if k == 'bin':
        a = eval_term(t[2], env)
        b = eval_term(t[3], env)
        op = t[1]
        if op == 'Eq':
            return a == b
        if op == 'Ne':
            return a != b
        if op == 'Lt':
            return a < b
        if op == 'Le':
            return a <= b
        if op == 'Gt':
            return a > b
        if op == 'Ge':
            return a >= b
        if op == 'BitAnd':
            return a & b
        if op == 'BitOr':
            return a | b
        if op in ('Add', 'AddWithOverflow'):
            return a + b
        if op in ('Sub', 'SubWithOverflow'):
            return a - b
        if op in ('Mul', 'MulWithOverflow'):
            return a * b
        if op == 'Shl' and 0 <= b < 128:
            return a << b
        if op == 'Shr' and 0 <= b < 128:
            return a >> b
    if k == 'discr' and t[1][0] == 'try':
        return 0   # `?` assumed to continue
    raise CannotEval(show(t))


_WIDTH = {'u8': 8, 'u16': 16, 'u32': 32, 'u64': 64, 'usize': 64, 'u128': 128, 'i8': 8, 'i16': 16, 'i32': 32, 'i64': 64, 'isize': 64, 'i128': 128}


def _wrap(v, ty):
    w = _WIDTH.get(ty)
    if w is None:
        raise CannotEval('type ' + str(ty))
    v &= (1 << w) - 1
    if ty.startswith('i') and v >> (w - 1):
        v -= 1 << w
    return v


def propagate_constants(t, env):
    """constant propagation through a call-free arithmetic term with the machine's wrapping semantics: env maps terms (parameters) to
    (value, type); -> (value, type).  Raises CannotEval on anything it does not model (calls, loops-carried values, floats) and on
    operations that would trap (shift amount >= width, division by zero)."""
    if t in env:
        return env[t]
    k = t[0]
    if k == 'const' and isinstance(t[1], int) and not isinstance(t[1], bool) and len(t) > 2:
        return t[1], t[2]
    if k == 'cast':
        v, _ = propagate_constants(t[1], env)
        return _wrap(v, t[3]), t[3]
    if k == 'bin':
        a, ta = propagate_constants(t[2], env)
        b, tb = propagate_constants(t[3], env)
        op = t[1].replace('WithOverflow', '')
        if op in ('Shl', 'Shr'):
            if not 0 <= b < _WIDTH.get(ta, 0):
                raise CannotEval('shift amount')
            return _wrap(a << b if op == 'Shl' else a >> b, ta), ta
        if op in ('Div', 'Rem'):
            if b == 0:
                raise CannotEval('division by zero')
            qv = abs(a) // abs(b) * (1 if (a < 0) == (b < 0) else -1)
            return _wrap(qv if op == 'Div' else a - qv * b, ta), ta
        fn = {'Add': lambda: a + b, 'Sub': lambda: a - b, 'Mul': lambda: a * b, 'BitAnd': lambda: a & b, 'BitOr': lambda: a | b,
              'BitXor': lambda: a ^ b}.get(op)
        if fn is None:
            raise CannotEval(op)
        return _wrap(fn(), ta), ta
    raise CannotEval(show(t))


def const_fold(t):
    """the integer a closed arithmetic term evaluates to (`6 - 1`, `1 << 20`), or None"""
    try:
        v = eval_term(strip_casts(t), {})
    except (CannotEval, Exception):
        return None
    return v if isinstance(v, int) and not isinstance(v, bool) else None


def walk_branches(body, start, env, stop):
    """follow the CFG from `start`, deciding switches by evaluating their condition under env, until stop(bb)
    returns a label. Returns (label, path)."""
    bb = start
    path = []
    for _ in range(200):
        path.append(bb)
        lab = stop(bb)
        if lab is not None:
            return lab, path
        t = body.blocks[bb]['term']
        k = t['k']
        if k == 'switch':
            v = eval_term(res(body).operand(t['discr']), env)
            v = int(v)
            nxt = None
            for val, s in t['targets']:
                if val == v:
                    nxt = s
            if nxt is None:
                nxt = t['otherwise']
            bb = nxt
        elif k in ('goto', 'drop', 'assert') or (k == 'call' and t.get('target') is not None):
            bb = t['target']
        else:
            return 'end:' + k, path
    return 'too-long', path


def loop_exit_kinds(body, L):
    """classify every exit edge of loop L: exhausted (iterator returned None / range ended), err (always returns
    an error), unreachable, other"""
    out = []
    for x, y in L['exits']:
        ty = body.blocks[y]['term']
        tx = body.blocks[x]['term']
        if ty and ty['k'] == 'unreachable' and not body.blocks[y]['stmts']:
            out.append((x, y, 'unreachable'))
            continue
        if tx['k'] == 'switch':
            c = switch_cond(body, x)
            if c[0] == 'discr' and c[1][0] == 'next':
                out.append((x, y, 'exhausted'))
                continue
        if arm_always_err(body, y):
            out.append((x, y, 'err'))
            continue
        out.append((x, y, 'other'))
    return out


def unwrap_into_iter(t):
    while t[0] == 'call' and t[1] == 'std::iter::IntoIterator::into_iter':
        t = t[2][0]
    return t


# ---------------------------------------------------------------- abstract interpreter for scalar branch logic
_UNK = object()


def _binop(op, a, b):
    if op == 'Eq':
        return a == b
    if op == 'Ne':
        return a != b
    if op == 'Lt':
        return a < b
    if op == 'Le':
        return a <= b
    if op == 'Gt':
        return a > b
    if op == 'Ge':
        return a >= b
    if op == 'BitAnd':
        return (a & b) if not isinstance(a, bool) else (a and b)
    if op == 'BitOr':
        return (a | b) if not isinstance(a, bool) else (a or b)
    if op == 'BitXor':
        return a ^ b
    if op in ('Add', 'AddWithOverflow', 'AddUnchecked'):
        return a + b
    if op in ('Sub', 'SubWithOverflow', 'SubUnchecked'):
        return a - b
    if op in ('Mul', 'MulWithOverflow'):
        return a * b
    return _UNK


def interp(body, start, term_env, stop, max_steps=400):
    """interpret scalar assignments and switches from block `start` with the values of some *terms* fixed
    (term_env), until stop(bb) gives a label. Raises CannotEval when a branch depends on an unknown value."""
    r = res(body)
    store = {}

    def opval(op):
        if op['k'] == 'const':
            return op['v'] if 'v' in op else _UNK
        p = op['p']
        if not p['p'] and p['l'] in store and store[p['l']] is not _UNK:
            return store[p['l']]
        t = r.operand(op)
        try:
            return eval_term(t, term_env)
        except CannotEval:
            return _UNK

    bb = start
    path = []
    for _ in range(max_steps):
        path.append(bb)
        lab = stop(bb)
        if lab is not None:
            return lab, path
        blk = body.blocks[bb]
        for st in blk['stmts']:
            if st['k'] != 'assign' or st['p']['p']:
                continue
            rv = st['rv']
            k = rv['k']
            v = _UNK
            if k == 'use':
                v = opval(rv['op'])
            elif k == 'cast':
                v = opval(rv['op'])
            elif k == 'bin':
                a, b_ = opval(rv['a']), opval(rv['b'])
                if a is not _UNK and b_ is not _UNK:
                    v = _binop(rv['op'], a, b_)
            elif k == 'un' and rv['op'] == 'Not':
                a = opval(rv['a'])
                if a is not _UNK:
                    v = (not a) if isinstance(a, bool) else ~a
            store[st['p']['l']] = v
        t = blk['term']
        k = t['k']
        if k == 'switch':
            v = opval(t['discr'])
            if v is _UNK:
                raise CannotEval('branch at %s depends on %s' % (t['span'], show(r.operand(t['discr']))))
            v = int(v)
            nxt = None
            for val, s in t['targets']:
                if val == v:
                    nxt = s
            bb = nxt if nxt is not None else t['otherwise']
        elif k in ('goto', 'drop', 'assert') or (k == 'call' and t.get('target') is not None):
            if k == 'call' and not t['dest']['p']:
                store[t['dest']['l']] = _UNK
            bb = t['target']
        else:
            return 'end:' + k, path
    return 'too-long', path


def must_pass(body, start, target):
    """every non-error path from block `start` to a return passes through block `target`
    (paths that set an error return value may bypass it)"""
    cfg = body.cfg
    errb = error_blocks(body)
    seen = set()
    st = [start]
    while st:
        x = st.pop()
        if x in seen or x == target or x in errb:
            continue
        seen.add(x)
        t = body.blocks[x]['term']
        if t and t['k'] == 'return':
            return False
        st.extend(cfg.succ[x])
    return True
