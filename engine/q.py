"""Query helpers over bodies and terms, shared by the rules."""
from terms import (get_resolver, expand, show, walk, alts, strip_casts, casts_on, payload, mk_any)
from facts import strip_generics


def res(body):
    return get_resolver(body)


def stmt_aggs(body, adt=None, variant=None):
    """[(bb, stmt, term)] for aggregate assignments (non-cleanup, reachable) of an ADT"""
    r = res(body)
    out = []
    for bi, b in enumerate(body.blocks):
        if b['cleanup'] or bi not in body.cfg.reach:
            continue
        for st in b['stmts']:
            if st['k'] == 'assign' and st['rv']['k'] == 'agg' and st['rv'].get('ak') == 'adt':
                a = strip_generics(st['rv']['adt'])
                if adt is not None and a != adt:
                    continue
                if variant is not None and st['rv']['variant'] != variant:
                    continue
                out.append((bi, st, r.rvalue(st['rv'], (), bi)))
    return out


def calls(body, callee=None, pred=None):
    out = []
    for c in body.calls():
        if body.blocks[c.bb]['cleanup'] or c.bb not in body.cfg.reach:
            continue
        name = c.res_norm if (c.fn and c.fn.get('res_local')) else c.callee
        if callee is not None and name != callee and c.callee != callee:
            continue
        if pred is not None and not pred(c):
            continue
        out.append(c)
    return out


def callee_name(c):
    return c.res_norm if (c.fn and c.fn.get('res_local')) else c.callee


def arg_terms(c):
    r = res(c.body)
    return [r.operand(a) for a in c.args]


def dest_term(c):
    r = res(c.body)
    return r.call_term(c.term, (), c.bb)


def is_param(t, idx=None):
    return isinstance(t, tuple) and t[0] == 'param' and (idx is None or t[1] == idx)


def field_path(t):
    """('field', ('field', X, a), b) -> (X, [a, b])"""
    names = []
    while isinstance(t, tuple) and t[0] == 'field':
        names.append(t[2])
        t = t[1]
    names.reverse()
    return t, names


def is_param_path(t, idx, names):
    base, ns = field_path(t)
    return is_param(base, idx) and ns == list(names)


def switch_cond(body, bb):
    """the discriminant term of the switch terminating bb"""
    t = body.blocks[bb]['term']
    if not t or t['k'] != 'switch':
        return None
    return res(body).operand(t['discr'])


def edge_value(body, a, s):
    """the switch value(s) that lead from a to s: list of ints, or 'otherwise'"""
    t = body.blocks[a]['term']
    vals = [v for v, bb in t['targets'] if bb == s]
    if t['otherwise'] == s:
        return vals + ['otherwise']
    return vals


def guards(body, bb):
    """[(cond_term, values_taken, switch_bb)] for every switch edge dominating bb"""
    out = []
    for a, s in body.cfg.switches_dominating(bb):
        out.append((switch_cond(body, a), edge_value(body, a, s), a))
    return out


def bool_outcome(body, a, vals):
    """for a boolean switch: True/False for the edge"""
    t = body.blocks[a]['term']
    if t['ty'] != 'bool':
        return None
    if vals == [0]:
        return False
    if vals == ['otherwise'] and [v for v, _ in t['targets']] == [0]:
        return True
    if vals == [1]:
        return True
    return None


def subterms(t, pred):
    return [x for x in walk(t) if isinstance(x, tuple) and pred(x)]


def contains(t, sub):
    return any(x == sub for x in walk(t))


def calls_in(t, callee):
    return [x for x in walk(t) if isinstance(x, tuple) and x[0] == 'call' and x[1] == callee]


def is_call(t, callee=None):
    return isinstance(t, tuple) and t[0] == 'call' and (callee is None or t[1] == callee)


def const_val(t):
    if isinstance(t, tuple) and t[0] == 'const':
        return t[1]
    return None


def where(body, bb, stmt=None):
    if stmt is not None:
        return stmt.get('span')
    t = body.blocks[bb]['term']
    return t.get('span') if t else body.span


def fn_of_site(site):
    return site[0] if site else None
