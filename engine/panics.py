"""A8 - inventory of sites that can stop the program other than by returning, for a set of bodies."""
import q
import intervals as IV
from terms import show, strip_casts, walk

PANIC_FNS = ('core::panicking::', 'std::rt::begin_panic', 'std::panicking::', 'core::option::expect_failed', 'core::option::unwrap_failed',
             'core::result::unwrap_failed', 'core::slice::index::', 'core::str::slice_error_fail')

# external callees that can panic on some argument values
EXT_PANIC = {
    'std::ops::Index::index': 'index', 'std::ops::IndexMut::index_mut': 'index',
    'std::option::Option::unwrap': 'unwrap', 'std::option::Option::expect': 'unwrap',
    'std::result::Result::unwrap': 'unwrap', 'std::result::Result::expect': 'unwrap',
    'std::result::Result::unwrap_err': 'unwrap', 'std::result::Result::expect_err': 'unwrap',
    'core::slice::copy_from_slice': 'len-eq', 'core::slice::clone_from_slice': 'len-eq',
    'core::slice::split_at': 'idx', 'core::slice::split_at_mut': 'idx', 'core::slice::chunks': 'nonzero',
    'core::slice::chunks_exact': 'nonzero', 'core::slice::windows': 'nonzero', 'core::slice::swap': 'idx',
    'std::vec::Vec::remove': 'idx', 'std::vec::Vec::insert': 'idx', 'std::vec::Vec::swap_remove': 'idx',
    'std::vec::Vec::split_off': 'idx', 'std::vec::Vec::drain': 'idx', 'std::vec::Vec::truncate': None,
    'std::iter::Iterator::step_by': 'nonzero',
    'image::ImageBuffer::get_pixel': 'coords', 'image::ImageBuffer::get_pixel_mut': 'coords', 'image::ImageBuffer::put_pixel': 'coords',
    'std::cell::RefCell::borrow': 'borrow', 'std::cell::RefCell::borrow_mut': 'borrow',
    'std::char::from_digit': 'radix', 'std::string::String::insert': 'idx', 'std::string::String::remove': 'idx',
    'std::collections::HashMap::index': 'index',
    'std::cmp::Ord::clamp': 'min-le-max',          # asserts min <= max (seed C04-r clamped a tag's end frame into from..last)
}
ALLOC = {
    'std::vec::Vec::with_capacity': (0, 'elem'), 'std::vec::from_elem': (1, 'elem'), 'alloc::vec::from_elem': (1, 'elem'),
    'std::vec::Vec::resize': (1, 'elem'), 'std::vec::Vec::resize_with': (1, 'elem'), 'std::vec::Vec::reserve': (1, 'elem'),
    'std::vec::Vec::reserve_exact': (1, 'elem'), 'std::collections::HashMap::with_capacity': (0, 'kv'),
    'std::collections::HashMap::with_capacity_and_hasher': (0, 'kv'), 'std::string::String::with_capacity': (0, 'byte'),
    'std::collections::HashMap::reserve': (1, 'kv'), 'std::io::Read::read_to_end': (None, 'grow'),
    'std::io::Read::read_to_string': (None, 'grow'),
    'std::io::BufReader::with_capacity': (0, 'byte'), 'std::io::BufWriter::with_capacity': (0, 'byte'),
    'std::collections::VecDeque::with_capacity': (0, 'elem'), 'std::collections::HashSet::with_capacity': (0, 'elem'),
    'std::collections::BinaryHeap::with_capacity': (0, 'elem'), 'std::string::String::reserve': (1, 'byte'),
    'std::string::String::reserve_exact': (1, 'byte'), 'std::collections::VecDeque::reserve': (1, 'elem'),
    'std::collections::VecDeque::resize': (1, 'elem'), 'std::collections::HashSet::reserve': (1, 'elem'),
}
# any other external callee whose name says it reserves memory by a count: treated as a sink on its first integer argument, so that a
# container type nobody listed cannot carry a declared size past the inventory (seed C12-g used BufReader::with_capacity)
import re as _re
ALLOC_NAME = _re.compile(r'^(with_capacity|reserve|try_reserve|resize|from_elem|new_zeroed_slice|new_uninit_slice|repeat)(_|$)')


def alloc_entry(c):
    name = c.callee
    if name in ALLOC:
        return ALLOC[name]
    if c.local_body() is None and ALLOC_NAME.match(name.split('::')[-1]):
        for i, op in enumerate(c.args):
            t_ = op['p'].get('ty') if op['k'] in ('copy', 'move') else op.get('ty')
            if t_ in ('usize', 'u64', 'u32'):
                return (i, 'elem')
    return None


class Site:
    def __init__(self, kind, body, bb, what, span, macros, detail=None):
        self.kind = kind
        self.body = body
        self.bb = bb
        self.what = what
        self.span = span
        self.macros = macros
        self.detail = detail or {}

    def key(self, ordinal=0):
        return '%s|%s|%s|%d' % (self.body.name, self.kind, self.what, ordinal)


def user_macro(macros):
    for m in macros:
        if m in ('assert', 'debug_assert', 'assert_eq', 'assert_ne', 'debug_assert_eq', 'debug_assert_ne', 'panic', 'unreachable', 'todo',
                 'unimplemented'):
            return m
    return None


_NEG = {'Lt': 'Ge', 'Ge': 'Lt', 'Gt': 'Le', 'Le': 'Gt', 'Eq': 'Ne', 'Ne': 'Eq'}


def assertion_cannot_fail(b, bi, iv):
    """the failing side of an assert!/debug_assert! (block bi calls the panic routine) is unreachable, shown in one of two ways:
    (1) the comparisons that hold on the way there contradict each other - `if n > MAX { return Err(..) }; debug_assert!(n <= MAX)`:
        on the failing side both `n <= MAX` (from the early return) and `n > MAX` (the assertion failed) would hold;
    (2) the assertion is `(LO..=HI).contains(&x)` / `(LO..HI).contains(&x)` with constant bounds and the interval analysis bounds
        x inside them (the difference of two values widened from u8 lies in -255..=255)."""
    try:
        facts = q.facts_at(b, bi)
    except Exception:
        return False
    seen = set()
    for op, l, r_ in facts:
        key = (repr(strip_casts(l)), repr(strip_casts(r_)))
        if (_NEG.get(op), key) in seen:
            return True
        seen.add((op, key))
        # a <= b together with a > b; also a < b with a >= b etc. are covered by _NEG; a <= b with a == b is no contradiction
    for cond, vals, a in q.guards(b, bi):
        truth = q.bool_outcome(b, a, vals)
        if truth is not False or cond[0] != 'call' or cond[1] not in ('std::ops::RangeInclusive::contains', 'std::ops::Range::contains'):
            continue
        rg = cond[2][0]
        lo = hi = None
        if rg[0] == 'agg':
            f = dict(rg[3])
            lo, hi = q.const_val(f.get('start', ('unknown',))), q.const_val(f.get('end', ('unknown',)))
            if hi is not None and rg[1].endswith('::Range'):
                hi -= 1
        elif rg[0] == 'call' and rg[1] == 'std::ops::RangeInclusive::new' and len(rg[2]) == 2:
            lo, hi = q.const_val(rg[2][0]), q.const_val(rg[2][1])
        if not isinstance(lo, int) or not isinstance(hi, int):
            continue
        # the operand of contains(): `&x` - find the call and the local behind the reference
        t = b.blocks[a]['term']
        dl = t['discr']['p']['l'] if t and t.get('discr', {}).get('k') in ('copy', 'move') else None
        r = q.res(b)
        ds = r.defs.get(dl, []) if dl is not None else []
        if len(ds) == 1 and ds[0][1] == 'call' and len(ds[0][2]['args']) == 2:
            ref = ds[0][2]['args'][1]
            if ref.get('k') in ('copy', 'move') and not ref['p']['p']:
                rd = r.defs.get(ref['p']['l'], [])
                for _ in range(3):      # `&*&x`: reborrows
                    if len(rd) == 1 and rd[0][1] == 'rv' and rd[0][2]['k'] == 'ref' and [e['k'] for e in rd[0][2]['p']['p']] == ['deref']:
                        rd = r.defs.get(rd[0][2]['p']['l'], [])
                    else:
                        break
                if len(rd) == 1 and rd[0][1] == 'rv' and rd[0][2]['k'] == 'ref' and not rd[0][2]['p']['p']:
                    x = iv.operand({'k': 'copy', 'p': {'l': rd[0][2]['p']['l'], 'p': [], 'ty': b.locals[rd[0][2]['p']['l']]['ty']}}, (), ds[0][3])
                    if x is not None and lo <= x[0] and x[1] <= hi:
                        return True
    return False


def inventory(fx, bodies):
    sums = IV.get(fx)
    out = []
    for b in bodies:
        if b.kind == 'promoted':
            continue
        r = q.res(b)
        iv = sums.of(b)
        for bi, blk in enumerate(b.blocks):
            if blk['cleanup'] or bi not in b.cfg.reach:
                continue
            t = blk['term']
            if not t:
                continue
            if t['k'] == 'assert':
                m = t['msg']
                mk = m['k']
                if mk == 'Overflow':
                    a, bb_ = iv.operand(m['a'], (), bi), iv.operand(m['b'], (), bi)
                    rty = m['a'].get('ty') or (m['a']['p']['ty'] if 'p' in m['a'] else None)
                    rng = IV.arith(m['op'], a, bb_)
                    what = '%s(%s, %s)' % (m['op'], show(strip_casts(r.operand(m['a'])))[:60], show(strip_casts(r.operand(m['b'])))[:60])
                    if m['op'] in ('Shl', 'Shr'):
                        bits = {'u8': 8, 'i8': 8, 'u16': 16, 'i16': 16, 'u32': 32, 'i32': 32, 'u64': 64, 'i64': 64, 'usize': 64, 'isize': 64}.get(rty, 0)
                        safe = bb_ is not None and 0 <= bb_[0] and bb_[1] < bits
                    else:
                        safe = rng is not None and IV.fits(rng, rty)
                    out.append(Site('overflow:' + m['op'], b, bi, what, t['span'], t['macros'],
                                    {'a': a, 'b': bb_, 'result': rng, 'ty': rty, 'safe_by_width': safe,
                                     'a_term': r.operand(m['a']), 'b_term': r.operand(m['b'])}))
                elif mk == 'BoundsCheck':
                    what = 'index %s of len %s' % (show(r.operand(m['index']))[:60], show(r.operand(m['len']))[:60])
                    idx, ln = iv.operand(m['index'], (), bi), iv.operand(m['len'], (), bi)
                    safe = idx is not None and ln is not None and idx[1] < ln[0]
                    out.append(Site('bounds', b, bi, what, t['span'], t['macros'], {'index': idx, 'len': ln, 'safe_by_width': safe,
                                                                                   'index_term': r.operand(m['index']), 'len_term': r.operand(m['len'])}))
                elif mk in ('DivisionByZero', 'RemainderByZero'):
                    # the assert condition is `divisor == 0`; the message operand is the dividend
                    ct = r.operand(t['cond'])
                    dv = None
                    dterm = None
                    co = t['cond']
                    if co['k'] in ('copy', 'move') and not co['p']['p']:
                        ds = r.defs.get(co['p']['l'], [])
                        if len(ds) == 1 and ds[0][1] == 'rv' and ds[0][2]['k'] == 'bin' and ds[0][2]['op'] == 'Eq':
                            dv = iv.operand(ds[0][2]['a'], (), bi)
                            dterm = r.operand(ds[0][2]['a'])
                    elif co['k'] == 'const':
                        dv = (1, 1) if co.get('v') == 0 else (0, 0)
                    safe = dv is not None and (dv[0] > 0 or dv[1] < 0)
                    out.append(Site('div0', b, bi, 'divisor %s' % (show(dterm)[:80] if dterm else show(ct)[:80]), t['span'], t['macros'],
                                    {'divisor': dv, 'safe_by_width': safe, 'term': dterm}))
                elif mk == 'OverflowNeg':
                    a = iv.operand(m['a'], (), bi)
                    rty = m['a'].get('ty') or (m['a']['p']['ty'] if 'p' in m['a'] else None)
                    tr = IV.ty_range(rty) if rty else None
                    # -x overflows only for x == MIN
                    safe = a is not None and tr is not None and a[0] > tr[0]
                    out.append(Site('neg', b, bi, show(r.operand(m['a']))[:80], t['span'], t['macros'], {'a': a, 'ty': rty, 'safe_by_width': safe}))
                else:
                    out.append(Site('assert-other', b, bi, m.get('s', mk)[:80], t['span'], t['macros'], {}))
            elif t['k'] == 'call':
                c = b.call_at(bi)
                name = c.callee
                if name.startswith(PANIC_FNS):
                    um = user_macro(t['macros']) or name.split('::')[-1]
                    if um in ('assert', 'debug_assert') and assertion_cannot_fail(b, bi, iv):
                        continue          # an assertion of something the code on the way already guarantees: not a panic site
                    out.append(Site('panic:' + um, b, bi, um, t['span'], t['macros'], {'callee': name}))
                    continue
                if name in EXT_PANIC:
                    at = q.arg_terms(c)
                    kind = EXT_PANIC[name]
                    what = '%s(%s)' % (name.split('::')[-1], ', '.join(show(x)[:50] for x in at[:3]))
                    out.append(Site('ext:' + name.split('::')[-1], b, bi, what, t['span'], t['macros'],
                                    {'callee': name, 'kind': kind, 'args': at, 'res': c.res_norm,
                                     'arg_ranges': [iv.operand(a_, (), bi) for a_ in c.args] if kind == 'min-le-max' else None}))
                    continue
                if alloc_entry(c) is not None:
                    at = q.arg_terms(c)
                    ai, ek = alloc_entry(c)
                    sz = iv.operand(c.args[ai], (), bi) if ai is not None and ai < len(c.args) else None
                    esz = None
                    if c.fn and c.fn.get('arg_sizes'):
                        gs = [s for s in c.fn['arg_sizes'] if s is not None]
                        if ek == 'elem' and gs:
                            esz = gs[0]
                        elif ek == 'kv' and len(gs) >= 2:
                            esz = gs[0] + gs[1]
                    if ek == 'byte':
                        esz = 1
                    out.append(Site('alloc:' + name.split('::')[-1], b, bi, '%s(%s)' % (name.split('::')[-1],
                                    show(at[ai])[:80] if ai is not None and ai < len(at) else ''), t['span'], t['macros'],
                                    {'callee': name, 'size_range': sz, 'elem_size': esz, 'size_term': at[ai] if ai is not None and ai < len(at) else None,
                                     'elem_types': c.fn.get('args') if c.fn else None}))
    return out


def external_callees(fx, bodies):
    """distinct external callees not on any list (assumed total)"""
    s = set()
    for b in bodies:
        for c in q.calls(b):
            if c.local_body() is None and c.callee not in EXT_PANIC and alloc_entry(c) is None and not c.callee.startswith(PANIC_FNS):
                s.add(c.callee)
    return sorted(s)
