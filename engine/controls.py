"""Positive controls (thorough tier): the same rule functions are run over the fixture crate, which holds one
instance of every pattern whose expected count on the real crate is zero, and over a subset of source mutants."""
import os
import sys
import json
import shutil
import tempfile
import subprocess
import facts as F
import rule as R
import q
import panics
import callgraph as CG

HERE = os.path.dirname(os.path.abspath(__file__))
FIXTURE = '/verif/selftest/fixture'

# control id -> (properties it serves, function(ctx_fixture) -> None recording findings, predicate on finding keys/messages)
def _run_static_state(c):
    import C16
    scope = [b for b in c.fx.bodies if b.kind != 'promoted']
    C16.static_state_rules(c, c.fx, scope)


def _run_io(c):
    import iorules
    bodies = [b for b in c.fx.bodies if b.kind != 'promoted']
    iorules.exact_reads_only(c, bodies, 'X1')
    iorules.reader_dependent_state(c, bodies, 'Y2')


def _run_p8(c):
    import common
    common.error_discipline(c, [b for b in c.fx.bodies if b.kind != 'promoted'], 'P8')


def _run_inventory(c):
    import totality as T
    import C04
    import intervals as IV
    import layout
    bodies = [b for b in c.fx.bodies if b.kind != 'promoted']
    for s in panics.inventory(c.fx, bodies):
        reason = T.auto(s) or T.guard_index(s) or T.guard_index_enumerate(s) or T.guard_unwrap(s)
        if s.kind.startswith('alloc:'):
            rng = s.detail.get('size_range')
            reason = 'bounded' if rng is not None and rng[1] * (s.detail.get('elem_size') or 1) <= (32 << 20) else None
        c.inst('INV', s.key(), reason is not None, '%s %s' % (s.kind, s.what), s.span, key=s.key())
    g = CG.get(c.fx)
    for scc in g.sccs():
        c.inst('REC', ','.join(scc), False, 'recursion %s' % scc, None, key='rec|' + ','.join(scc))
    for b in bodies:
        for L in b.cfg.loops:
            cls, why = C04.classify_loop(c.fx, b, L)
            c.inst('LOOP', b.name, cls in ('memory', 'bounded', 'input-driven'), '%s: %s' % (cls, why), None, key='loop|%s|%s' % (b.name, cls))
        iv = IV.get(c.fx).of(b)
        for bi, blk in enumerate(b.blocks):
            for st in blk['stmts']:
                if st['k'] == 'assign' and st['rv']['k'] == 'cast' and st['rv']['ck'].startswith('IntToInt') and \
                        not layout.value_preserving(st['rv']['from'], st['rv']['to']):
                    rng = iv.operand(st['rv']['op'], (), bi)
                    c.inst('CAST', b.name, IV.fits(rng, st['rv']['to']), 'cast %s->%s range %s' % (st['rv']['from'], st['rv']['to'], rng), None,
                           key='cast|%s' % b.name)


CONTROLS = [
    ('refcell-in-exported-type', ['C16'], _run_static_state, lambda f: 'Cached' in f.key and '|S2' in f.key),
    ('static-mut', ['C16'], _run_static_state, lambda f: 'COUNTER' in f.key and 'S3' in f.key),
    ('thread-local', ['C16'], _run_static_state, lambda f: '__RUST_STD_INTERNAL_VAL' in f.key or 'thread_local' in f.key),
    ('unsafe-impl', ['C16'], _run_static_state, lambda f: 'unsafe impl' in f.msg),
    ('unsafe-fn', ['C16'], _run_static_state, lambda f: 'unsafe fn' in f.msg),
    ('unsafe-block', ['C16'], _run_static_state, lambda f: 'unsafe block' in f.msg),
    ('mut-self-accessor', ['C16'], _run_static_state, lambda f: 'Cached::bump' in f.key and 'S4' in f.key),
    ('ambient-time', ['C16'], _run_static_state, lambda f: 'std::time::' in f.key),
    ('hash-iteration', ['C16'], _run_static_state, lambda f: 'hash-iter' in f.key),
    ('short-read', ['C13', 'C14'], _run_io, lambda f: 'std::io::Read::read|' in f.key + '|' and 'short_read' in f.key),
    ('raw-read-to-end', ['C13', 'C14', 'C12'], _run_io, lambda f: 'raw_read_to_end' in f.key),
    ('seek', ['C14'], _run_io, lambda f: 'seeks' in f.key),
    ('bufread', ['C14'], _run_io, lambda f: 'buffered' in f.key),
    ('error-kind', ['C14', 'C13'], _run_io, lambda f: 'eof_means_done' in f.key),
    ('dropped-result', ['C04', 'C13', 'C14', 'C15'], _run_p8, lambda f: 'drops_result' in f.key and 'dropped' in f.key),
    ('ok-on-result', ['C04', 'C13', 'C15'], _run_p8, lambda f: 'oks_result' in f.key),
    ('unwrap-or-result', ['C04', 'C15'], _run_p8, lambda f: 'unwrap_or_result' in f.key),
    ('recursion', ['C04', 'C05'], _run_inventory, lambda f: f.key.startswith('rec|') and 'recursive' in f.key),
    ('unchecked-mul', ['C04', 'C05', 'C16'], _run_inventory, lambda f: 'unchecked_mul' in f.key and 'overflow:Mul' in f.key),
    ('unguarded-index', ['C04', 'C05'], _run_inventory, lambda f: 'unguarded_index' in f.key),
    ('unwrap', ['C04', 'C05'], _run_inventory, lambda f: 'unwraps' in f.key),
    ('declared-alloc', ['C12', 'C04'], _run_inventory, lambda f: 'declared_alloc' in f.key and 'alloc:' in f.key),
    ('truncating-cast', ['C16'], _run_inventory, lambda f: f.key == 'cast|asefixture::truncating_cast'),
    ('no-progress-loop', ['C04', 'C12'], _run_inventory, lambda f: f.key.startswith('loop|asefixture::no_progress')),
]


def run_fixture_controls(ctx):
    """returns (n_run, failures) for the controls serving ctx.prop"""
    mine = [c for c in CONTROLS if ctx.prop in c[1]]
    if not mine:
        return 0, []
    fx = F.extract(FIXTURE)
    cache = {}
    failures = []
    for cid, props, fn, pred in mine:
        if fn not in cache:
            c = R.Ctx('CONTROL', fx, 'thorough')
            c.root = FIXTURE
            fn(c)
            cache[fn] = c
        c = cache[fn]
        hit = [f for f in c.findings if pred(f)]
        ok = bool(hit)
        ctx.inst('CTRL', 'fixture:' + cid, ok, 'positive control "%s": the rule %s the seeded pattern in selftest/fixture'
                 % (cid, 'finds' if ok else 'NO LONGER FINDS'), None, key='control|fixture|' + cid)
        if not ok:
            failures.append(cid)
    return len(mine), failures


def run_mutant_controls(ctx, root='/repo', jobs=8):
    """apply the source mutants registered for ctx.prop to a scratch copy and require the rule to fire (or stay silent)"""
    sys.path.insert(0, '/verif/selftest')
    import mutants as M
    ms = [m for m in json.load(open('/verif/selftest/mutants.json')) if ctx.prop in m['prop']]
    from concurrent.futures import ThreadPoolExecutor
    ran = skipped = 0
    with ThreadPoolExecutor(max_workers=jobs) as ex:
        for m, (mid, status, info) in zip(ms, ex.map(lambda m: M.run_one(dict(m, prop=[ctx.prop]), False, root), ms)):
            if status == 'BROKEN-MUTANT':
                skipped += 1
                continue
            ran += 1
            ctx.inst('CTRL', 'mutant:' + mid, status == 'ok', 'source mutant "%s" (expect %s): %s' % (mid, m['expect'], info[:160]), None,
                     key='control|mutant|' + mid)
    return ran, skipped
