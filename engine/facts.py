"""Fact model: loads the JSON written by the asemir driver and offers CFG / call-graph views.

Nothing here judges anything; rules live in /verif/rules.
"""
import json
import os
import subprocess
import tempfile
import shutil
import time


def strip_generics(s):
    """'a::B::<T>::c' -> 'a::B::c';  'Vec<u8>' -> 'Vec'. Leaves '<X as Y>::m' qualified
    paths structurally intact (normalising X and Y)."""
    s = s.strip()
    # qualified self form, possibly with a crate prefix 'asefile::<...>::m'
    lt = s.find('<')
    if lt != -1 and (lt == 0 or s[:lt].endswith('::')) and ' as ' in s:
        # find matching '>'
        depth = 0
        for i in range(lt, len(s)):
            if s[i] == '<':
                depth += 1
            elif s[i] == '>':
                # skip '->'
                if i > 0 and s[i - 1] == '-':
                    continue
                depth -= 1
                if depth == 0:
                    inner = s[lt + 1:i]
                    rest = s[i + 1:]
                    # split at top-level ' as '
                    d2 = 0
                    cut = None
                    j = 0
                    while j < len(inner):
                        c = inner[j]
                        if c == '<':
                            d2 += 1
                        elif c == '>' and not (j > 0 and inner[j - 1] == '-'):
                            d2 -= 1
                        elif d2 == 0 and inner.startswith(' as ', j):
                            cut = j
                            break
                        j += 1
                    if cut is None:
                        break
                    a = strip_generics(inner[:cut])
                    b = strip_generics(inner[cut + 4:])
                    return s[:lt] + '<' + a + ' as ' + b + '>' + _strip_plain(rest)
        # fallthrough
    return _strip_plain(s)


def _strip_plain(s):
    out = []
    depth = 0
    i = 0
    while i < len(s):
        c = s[i]
        if c == '<':
            if depth == 0 and len(out) >= 2 and out[-1] == ':' and out[-2] == ':':
                out.pop()
                out.pop()
            depth += 1
        elif c == '>' and not (i > 0 and s[i - 1] == '-'):
            depth -= 1
        elif depth == 0:
            out.append(c)
        i += 1
    return ''.join(out)


class Call:
    __slots__ = ('body', 'bb', 'term', 'callee', 'res', 'orig', 'args', 'dest', 'target',
                 'span', 'macros', 'fn', 'trait', 'method')

    def __init__(self, body, bb, term):
        self.body = body
        self.bb = bb
        self.term = term
        fn = term.get('fn')
        self.fn = fn
        if fn:
            self.orig = strip_generics(fn['orig'])
            self.res = fn.get('res')
            self.trait = strip_generics(fn['trait']) if fn.get('trait') else None
            self.method = fn.get('method')
        else:
            self.orig = '<indirect>'
            self.res = None
            self.trait = None
            self.method = None
        self.callee = self.orig
        self.args = term['args']
        self.dest = term['dest']
        self.target = term['target']
        self.span = term['span']
        self.macros = term['macros']

    @property
    def res_norm(self):
        return strip_generics(self.res) if self.res else None

    def local_body(self):
        """The local MIR body this call executes, if known."""
        fx = self.body.facts
        if self.res and self.res in fx.by_path:
            return fx.by_path[self.res]
        if self.fn and self.fn['orig'] in fx.by_path:
            return fx.by_path[self.fn['orig']]
        return None

    def __repr__(self):
        return 'Call(%s @%s bb%d)' % (self.callee, self.span, self.bb)


class Body:
    def __init__(self, facts, j):
        self.facts = facts
        self.j = j
        self.path = j['path']
        self.name = strip_generics(j['path'])
        self.kind = j['kind']
        self.blocks = j['blocks']
        self.locals = j['locals']
        self.arg_count = j['arg_count']
        self.span = j['span']
        self.lines = j['lines']
        self.sig = j.get('sig')
        self.vis = j.get('vis')
        self.exported = j.get('exported', False)
        self._calls = None
        self._cfg = None

    @property
    def file(self):
        return self.span.split(':')[0]

    def local_name(self, l):
        return self.locals[l].get('name')

    def param_index(self, name):
        for i in range(1, self.arg_count + 1):
            if self.locals[i].get('name') == name:
                return i
        return None

    def calls(self):
        if self._calls is None:
            self._calls = []
            for i, b in enumerate(self.blocks):
                t = b['term']
                if t and t['k'] == 'call':
                    self._calls.append(Call(self, i, t))
        return self._calls

    def call_at(self, bb):
        t = self.blocks[bb]['term']
        if t and t['k'] == 'call':
            return Call(self, bb, t)
        return None

    def succs(self, bb, unwind=False):
        t = self.blocks[bb]['term']
        if not t:
            return []
        k = t['k']
        out = []
        if k == 'goto':
            out = [t['target']]
        elif k == 'switch':
            out = [x[1] for x in t['targets']] + [t['otherwise']]
        elif k in ('call', 'drop', 'assert'):
            if t.get('target') is not None:
                out = [t['target']]
            if unwind and t.get('unwind') is not None:
                out.append(t['unwind'])
        elif k in ('return', 'unreachable', 'resume', 'terminate'):
            out = []
        else:
            out = []
        # dedupe, keep order
        seen = []
        for x in out:
            if x not in seen:
                seen.append(x)
        return seen

    @property
    def cfg(self):
        if self._cfg is None:
            from cfg import CFG
            self._cfg = CFG(self)
        return self._cfg

    def __repr__(self):
        return 'Body(%s)' % self.name


class Facts:
    def __init__(self, j, root='/repo'):
        self.inline_report = {'inlined': {}, 'kept': []}
        self.renamed = {}
        if j.get('crate') == 'asefile':
            import inline
            import rename
            j, self.renamed = rename.apply(j)
            j, self.renamed_fields = rename.apply_fields(j)
            j, self.inline_report = inline.apply(j)
        self.j = j
        self.root = root
        self.crate = j['crate']
        self.bodies = [Body(self, b) for b in j['bodies']]
        self.by_path = {b.path: b for b in self.bodies}
        self.by_name = {}
        for b in self.bodies:
            self.by_name.setdefault(b.name, []).append(b)
        self.adts = {strip_generics(a['path']): a for a in j['adts']}
        self.statics = j['statics']
        self.impls = j['impls']
        self.unsafe = j['unsafe']

    def body(self, name):
        """Look up a body by normalised name (generics stripped). Returns None if absent;
        raises if ambiguous."""
        bs = self.by_name.get(name)
        if not bs:
            return None
        if len(bs) > 1:
            raise KeyError('ambiguous body name %s: %s' % (name, [b.path for b in bs]))
        return bs[0]

    def bodies_named(self, name):
        return self.by_name.get(name, [])

    def inlined_view(self, name, helpers):
        """a copy of body `name` in which the calls to the named crate-local helpers are replaced by their bodies
        (engine/inline.py splice: reference forwarding, `?` error exits threaded).  Block numbers of the original body are
        preserved (new blocks are appended), so sites found in the original can be looked up in the view."""
        import copy
        import inline
        key = (name, tuple(sorted(helpers)))
        cache = self.__dict__.setdefault('_views', {})
        if key in cache:
            return cache[key]
        b = self.body(name)
        if b is None:
            return None
        j = copy.deepcopy(b.j)
        bodies = {x.path: x.j for x in self.bodies}
        want = {x.path for h in helpers for x in self.bodies_named(h)}
        for _ in range(3):
            did = False
            for bi in range(len(j['blocks'])):
                t = j['blocks'][bi]['term']
                if t and t['k'] == 'call':
                    p = inline._callee_path(t, bodies)
                    if p in want and p != j['path'] and len(t['args']) == bodies[p]['arg_count']:
                        inline._splice(j, bi, copy.deepcopy(bodies[p]))
                        did = True
            if not did:
                break
        v = Body(self, j)
        cache[key] = v
        return v

    def closures_of(self, body):
        pre = body.path + '::{closure#'
        return [b for b in self.bodies if b.path.startswith(pre)]

    def closure_cone(self, body):
        """closures written in `body`, in the helpers that were inlined into it, and (recursively) in those closures"""
        out, todo, seen = [], [body], set()
        while todo:
            b = todo.pop()
            if b.path in seen:
                continue
            seen.add(b.path)
            pres = {b.path} | {l['inlined_from'] for l in b.locals if l.get('inlined_from')}
            for c in self.bodies:
                if c.path not in seen and any(c.path.startswith(p_ + '::{closure#') for p_ in pres):
                    out.append(c)
                    todo.append(c)
        return out


def extract(root='/repo', features=None, keep=None):
    """Run the driver over `root`; return Facts. Fresh target dir per run (cargo's freshness
    cache would otherwise skip the wrapper)."""
    out = tempfile.mkdtemp(prefix='asemir-out.')
    try:
        args = ['/verif/engine/extract.sh', root, out]
        if features:
            args += ['--features', features]
        t0 = time.time()
        r = subprocess.run(args, stdout=subprocess.PIPE, stderr=subprocess.PIPE, text=True)
        if r.returncode != 0:
            raise RuntimeError('fact extraction failed:\n' + r.stderr[-4000:])
        fp = os.path.join(out, 'asefile.json')
        if not os.path.exists(fp):
            # fixture crates have other names: take the only json
            js = [f for f in os.listdir(out) if f.endswith('.json')]
            if len(js) != 1:
                raise RuntimeError('fact file missing in %s: %s' % (out, os.listdir(out)))
            fp = os.path.join(out, js[0])
        if os.path.getmtime(fp) < t0 - 1:
            raise RuntimeError('stale fact file')
        with open(fp) as f:
            j = json.load(f)
        if keep:
            shutil.copy(fp, keep)
        fx = Facts(j, root)
        fx.extract_s = time.time() - t0
        return fx
    finally:
        shutil.rmtree(out, ignore_errors=True)


def load(path, root='/repo'):
    with open(path) as f:
        return Facts(json.load(f), root)
