"""MIR-level inlining of *new* crate-local helper functions.

The rule tables name functions of the crate as anchors (decoders, accessors, validators ...).  A function that is not in the
inventory taken when the rules were written (tables/known_functions.json) is a helper somebody introduced later - typically by
an "extract function" refactoring, possibly by a change that hides a defect in a helper.  Either way the right thing is to analyse
its body in the context of its callers: every call to such a helper is replaced by a copy of its CFG (parameters become locals
assigned from the arguments, `return` becomes an assignment to the call's destination followed by a jump to the call's target).
After that the helper is dropped from the body list (unless it is also used as a function value or is recursive).
Nothing is judged here."""
import copy
import re
import json
import os

KNOWN = '/verif/tables/known_functions.json'
MAX_ROUNDS = 4


CALLBACK_TRAITS = (' as std::io::', ' as std::iter::Iterator>', ' as std::ops::Drop>', ' as std::ops::Deref', ' as std::ops::Index',
                   ' as std::ops::Fn', ' as std::iter::IntoIterator>')


def _strip(path):
    from facts import strip_generics
    return strip_generics(path)


def known_functions():
    try:
        return set(json.load(open(KNOWN))['functions'])
    except Exception:
        return None


def _remap(o, loff, boff):
    """deep copy of a MIR fragment with locals and block numbers shifted"""
    if isinstance(o, list):
        return [_remap(x, loff, boff) for x in o]
    if not isinstance(o, dict):
        return o
    out = {}
    is_place = 'l' in o and isinstance(o.get('p'), list)
    is_index = o.get('k') == 'index' and 'l' in o and 'p' not in o
    for k, v in o.items():
        if k == 'l' and (is_place or is_index) and isinstance(v, int):
            out[k] = v + loff
        elif k in ('target', 'unwind', 'otherwise') and isinstance(v, int) and not isinstance(v, bool):
            out[k] = v + boff
        elif k == 'targets' and isinstance(v, list):
            out[k] = [[a, b + boff] for a, b in v]
        else:
            out[k] = _remap(v, loff, boff)
    return out


def _callee_path(term, bodies):
    fn = term.get('fn')
    if not fn:
        return None
    for p in (fn.get('res'), fn.get('orig')):
        if p and p in bodies:
            return p
    return None


def _fn_values(j):
    """paths of functions that are used as values (fn items passed around), which must keep their body"""
    used = set()

    def walk(o):
        if isinstance(o, list):
            for x in o:
                walk(x)
        elif isinstance(o, dict):
            if o.get('k') == 'const' and isinstance(o.get('fn'), dict):
                for p in (o['fn'].get('res'), o['fn'].get('orig')):
                    if p:
                        used.add(p)
            for k, v in o.items():
                if k != 'fn':
                    walk(v)
    for b in j['bodies']:
        for blk in b['blocks']:
            walk(blk['stmts'])
            t = blk['term']
            if t:
                walk({k: v for k, v in t.items() if k != 'fn'})
    return used


def _single_ref_def(caller, bi, local, depth=0):
    """if `local` is assigned exactly once in the whole caller by `&place` / `&mut place` -> that place, with reborrow chains
    (`t2 = &mut *t1; t1 = &mut x`) composed"""
    found = None
    for i, blk in enumerate(caller['blocks']):
        for st in blk['stmts']:
            if st['k'] == 'assign' and st['p']['l'] == local:
                if found is not None or st['p']['p'] or st['rv']['k'] != 'ref':
                    return None
                found = st['rv']['p']
        t = blk['term']
        if t and t['k'] == 'call' and t['dest']['l'] == local:
            return None
    if found is None or local <= caller['arg_count']:
        return None
    if found['p'] and found['p'][0].get('k') == 'deref' and depth < 3:
        inner = _single_ref_def(caller, bi, found['l'], depth + 1)
        if inner is not None:
            return {'l': inner['l'], 'p': copy.deepcopy(inner['p']) + copy.deepcopy(found['p'][1:]), 'ty': found.get('ty')}
    return found


def _forward_refs(o, fwd):
    """rewrite places  (*param).rest  ->  target.rest  for parameters that are plain references to a caller place"""
    if isinstance(o, list):
        return [_forward_refs(x, fwd) for x in o]
    if not isinstance(o, dict):
        return o
    if 'l' in o and isinstance(o.get('p'), list) and o['l'] in fwd and o['p'] and o['p'][0].get('k') == 'deref':
        tgt = fwd[o['l']]
        out = dict(o)
        out['l'] = tgt['l']
        out['p'] = copy.deepcopy(tgt['p']) + [_forward_refs(e, fwd) for e in o['p'][1:]]
        return out
    return {k: _forward_refs(v, fwd) for k, v in o.items()}


def _whole_defs(body, local):
    out = []
    for blk in body['blocks']:
        for st in blk['stmts']:
            if st['k'] == 'assign' and st['p']['l'] == local and not st['p']['p']:
                out.append(st['rv'])
        t = blk['term']
        if t and t['k'] == 'call' and t['dest']['l'] == local and not t['dest']['p']:
            out.append(None)
    return out


def _closure_of(body, op, depth=0):
    """path of the closure an operand denotes (through plain moves and `&closure`), else None"""
    if depth > 6 or op.get('k') not in ('move', 'copy') or [e for e in op['p']['p'] if e.get('k') != 'deref']:
        return None
    ds = _whole_defs(body, op['p']['l'])
    if len(ds) != 1 or ds[0] is None:
        return None
    rv = ds[0]
    if rv['k'] == 'agg' and rv.get('ak') == 'closure':
        return rv.get('closure_def')
    if rv['k'] == 'use':
        return _closure_of(body, rv['op'], depth + 1)
    if rv['k'] == 'ref' and not [e for e in rv['p']['p'] if e.get('k') != 'deref']:
        return _closure_of(body, {'k': 'copy', 'p': rv['p']}, depth + 1)
    return None


def _tuple_ops(body, op):
    """the operands of the argument tuple of a Fn*::call*, or None"""
    if op.get('k') == 'const':
        return [] if op.get('ty') == '()' else None
    if op.get('p', {}).get('ty') == '()':
        return []
    if op.get('k') not in ('move', 'copy') or op['p']['p']:
        return None
    ds = _whole_defs(body, op['p']['l'])
    if len(ds) == 1 and ds[0] is not None and ds[0]['k'] == 'agg' and ds[0].get('ak') == 'tuple':
        return copy.deepcopy(ds[0].get('ops', []))
    return None


def _mentions(o, local):
    if isinstance(o, list):
        return any(_mentions(x, local) for x in o)
    if isinstance(o, dict):
        if 'l' in o and isinstance(o.get('p'), list) and o['l'] == local:
            return True
        return any(_mentions(v, local) for v in o.values())
    return False


def _single_def_rv(body, local):
    """the rvalue of the only whole assignment to `local` in body (a JSON body), or None"""
    found = None
    for b in body['blocks']:
        for st in b['stmts']:
            if st['k'] == 'assign' and st['p']['l'] == local and not st['p']['p']:
                if found is not None:
                    return None
                found = st['rv']
        t = b['term']
        if t and t['k'] == 'call' and t['dest']['l'] == local and not t['dest']['p']:
            return None
    return found


def _const_fn(body, op, depth=3):
    """the function item an operand denotes (`parse_old_chunk_04` passed as a `fn(&[u8]) -> ..` pointer): the const itself, or a local
    whose only definition is that const, possibly through the fn-item -> fn-pointer coercion or plain copies"""
    if op.get('k') == 'const':
        return op.get('fn') if isinstance(op.get('fn'), dict) else None
    if op.get('k') in ('move', 'copy') and not op['p']['p'] and depth > 0:
        rv = _single_def_rv(body, op['p']['l'])
        if rv is None:
            return None
        if rv['k'] == 'use':
            return _const_fn(body, rv['op'], depth - 1)
        if rv['k'] == 'cast' and 'ReifyFnPointer' in rv.get('ck', ''):
            return _const_fn(body, rv['op'], depth - 1)
    return None


def _err_preserving_sink(caller, bidx, d, depth):
    """local d (a Result) is consumed in block bidx by Result::map / map_err whose result is the caller's return value or goes to `?`
    (possibly through further map / map_err): an Err stays an Err and ends the caller"""
    if depth == 0 or not isinstance(bidx, int):
        return False
    blk = caller['blocks'][bidx]
    for st in blk['stmts']:
        if _mentions(st, d):
            if st['k'] == 'assign' and st['p']['l'] == 0 and not st['p']['p'] and st['rv']['k'] == 'use' and st['rv']['op'].get('k') == 'move' and \
                    st['rv']['op']['p']['l'] == d and not st['rv']['op']['p']['p']:
                return True
            return False
    tt = blk['term']
    if not tt or tt['k'] != 'call' or not tt.get('fn'):
        return False
    orig = tt['fn'].get('orig', '')
    a0 = tt['args'][0] if tt['args'] else {}
    if a0.get('k') != 'move' or a0.get('p', {}).get('l') != d or a0['p']['p']:
        return False
    if orig.endswith('Try::branch') and len(tt['args']) == 1:
        return True
    if 'result::Result' in orig and orig.split('::')[-1] in ('map', 'map_err') and not tt['dest']['p']:
        d2 = tt['dest']['l']
        if d2 == 0:
            return True
        # the mapped value must not be looked at anywhere but in the next consumer
        nxt = tt.get('target')
        for i2, b2 in enumerate(caller['blocks']):
            if i2 == nxt or b2 is blk:
                continue
            if any(_mentions(st, d2) for st in b2['stmts']) or (b2['term'] is not None and _mentions({k: v for k, v in b2['term'].items() if k != 'fn'}, d2)):
                return False
        return _err_preserving_sink(caller, nxt, d2, depth - 1)
    return False


def _splice(caller, bi, helper):
    blk = caller['blocks'][bi]
    t = blk['term']
    loff = len(caller['locals'])
    boff = len(caller['blocks'])
    # parameters that receive `&place` of the caller: accesses through them are accesses to that place
    fwd = {}
    for k, arg in enumerate(t['args']):
        if arg.get('k') in ('move', 'copy') and not arg['p']['p']:
            tgt = _single_ref_def(caller, bi, arg['p']['l'])
            if tgt is not None and not any(e.get('k') == 'index' for e in tgt['p']):
                # the helper must not reassign the parameter itself
                pl = 1 + k
                reassigned = any(st['k'] == 'assign' and st['p']['l'] == pl and not st['p']['p'] for hb in helper['blocks'] for st in hb['stmts']) or \
                    any(hb['term'] and hb['term']['k'] == 'call' and hb['term']['dest']['l'] == pl and not hb['term']['dest']['p'] for hb in helper['blocks'])
                if not reassigned:
                    fwd[loff + pl] = tgt
    for l in helper['locals']:
        caller['locals'].append(dict(l, inlined_from=helper['path']))
    if not t['dest']['p']:
        caller['locals'][loff]['ret_dest'] = t['dest']['l']      # for q.error_blocks: a hand-written `?` on the result is judged on the CFG
    # the helper's result IS the caller's result (`match ctx { A => self.handle_a(..), .. }` as the tail expression): an Err of the helper
    # ends the caller with that error
    if not t['dest']['p'] and t['dest']['l'] == 0 and ('Result<' in caller['locals'][0]['ty'].replace('result::Result', 'Result') or
                                                       caller['locals'][0]['ty'].replace('std::', '').replace('option::', '').startswith('Option<')):
        caller['locals'][loff]['err_exit'] = True
    # `helper(..)?`: the call's destination is consumed only by Try::branch in the continuation block
    tgt_blk = caller['blocks'][t['target']] if isinstance(t.get('target'), int) else None
    if tgt_blk is not None and not t['dest']['p']:
        tt = tgt_blk['term']
        d = t['dest']['l']
        uses_elsewhere = False
        for i2, b2 in enumerate(caller['blocks']):
            if b2.get('cleanup'):
                continue          # unwinding paths drop the temporary (a Result<Tag> owns a String): not a use of its value
            for st in b2['stmts']:
                if _mentions(st, d):
                    uses_elsewhere = True
            t2 = b2['term']
            if t2 is not None and t2 is not t and b2 is not tgt_blk and t2.get('k') != 'drop' and \
                    _mentions({k: v for k, v in t2.items() if k != 'fn'}, d):
                uses_elsewhere = True
        if tt and tt['k'] == 'call' and tt.get('fn') and tt['fn'].get('orig', '').endswith('Try::branch') and len(tt['args']) == 1 and \
                tt['args'][0].get('p', {}).get('l') == d and not uses_elsewhere:
            caller['locals'][loff]['err_exit'] = True
        elif not uses_elsewhere and _err_preserving_sink(caller, t['target'], d, 4):
            # `helper(..).map(f)` / `.map_err(g)` handed on as the function's own result (or to a `?`): an Err of the helper is an Err of
            # the caller just the same
            caller['locals'][loff]['err_exit'] = True
    span = t.get('span')
    for k, arg in enumerate(t['args']):
        pl = {'l': loff + 1 + k, 'p': [], 'ty': helper['locals'][1 + k]['ty']}
        blk['stmts'].append({'k': 'assign', 'p': pl, 'rv': {'k': 'use', 'op': copy.deepcopy(arg)}, 'span': span, 'macros': t.get('macros', [])})
    dest, target, unwind = t['dest'], t.get('target'), t.get('unwind')
    blk['term'] = {'k': 'goto', 'target': boff, 'span': span, 'macros': t.get('macros', []), 'inlined_call': helper['path']}
    # `helper(..)?`: find the Break arm of the `?` so that the helper's error exits can be routed to it directly
    brk = None
    brk_block, brk_dest = target, dest        # the Try::branch block the error exits are copied from, and the local it reads
    if caller['locals'][loff].get('err_exit'):
        bB = caller['blocks'][target] if isinstance(target, int) else None
        # `helper(..).map(f)?` / `.map_err(g)?`: an Err passes through these unchanged (as far as "it is an Err" goes), so the error
        # exits may skip them and go to the `?` behind
        for _ in range(3):
            tB = bB['term'] if bB is not None else None
            if tB and tB['k'] == 'call' and re.sub(r'::<[^>]*>', '', (tB.get('fn') or {}).get('orig', '')) in ('std::result::Result::map', 'std::result::Result::map_err') \
                    and tB['args'] and tB['args'][0].get('k') in ('move', 'copy') and not tB['args'][0]['p']['p'] \
                    and tB['args'][0]['p']['l'] == brk_dest['l'] and not tB['dest']['p'] and isinstance(tB.get('target'), int) and not bB['stmts']:
                brk_dest, brk_block = tB['dest'], tB['target']
                bB = caller['blocks'][brk_block]
            else:
                break
        tC = caller['blocks'][bB['term']['target']]['term'] if bB is not None and bB['term'] and isinstance(bB['term'].get('target'), int) and \
            bB['term']['k'] == 'call' and (bB['term'].get('fn') or {}).get('orig', '').endswith('Try::branch') else None
        # (besides the discriminant read the block may set drop flags - constants assigned to bool locals - when the value owns heap data)
        def _plain(st_):
            return st_['k'] != 'assign' or st_['rv']['k'] == 'discr' or (st_['rv']['k'] == 'use' and st_['rv']['op'].get('k') == 'const')
        if tC and tC['k'] == 'switch' and all(_plain(st_) for st_ in caller['blocks'][bB['term']['target']]['stmts']) and \
                sum(1 for st_ in caller['blocks'][bB['term']['target']]['stmts'] if st_['k'] == 'assign' and st_['rv']['k'] == 'discr') <= 1:
            arms = dict((v, b_) for v, b_ in tC['targets'])
            if 1 in arms and 0 in arms:
                brk = arms[1]
    # hand-written `?`: `match helper(..) { Ok(v) => .., Err(e) => .. }` / `if let Err(e) = helper(..) { .. }` - the continuation
    # block reads the discriminant of the result and switches on it.  An error exit of the helper can be threaded straight to the
    # edge taken for discriminant 1 (whatever that arm does: the value *is* an Err there)
    mroute = None
    if brk is None and isinstance(target, int) and not dest['p']:
        tb_ = caller['blocks'][target]
        tt_ = tb_['term']
        dl_ = [st['p']['l'] for st in tb_['stmts'] if st['k'] == 'assign' and st['rv']['k'] == 'discr' and st['rv']['p']['l'] == dest['l'] and not st['rv']['p']['p']]
        dty_ = caller['locals'][dest['l']]['ty'].replace('result::Result', 'Result').replace('option::Option', 'Option').replace('std::', '')
        if len(dl_) == 1 and tt_ and tt_['k'] == 'switch' and tt_['discr'].get('k') in ('copy', 'move') and tt_['discr']['p']['l'] == dl_[0] and \
                dty_.startswith(('Result<', 'Option<')):
            # the failure value's discriminant: Err = 1 (Ok = 0), None = 0 (Some = 1)
            fv, sv = (1, 0) if dty_.startswith('Result<') else (0, 1)
            e1 = [b_ for v_, b_ in tt_['targets'] if v_ == fv]
            if e1:
                mroute = e1[0]
            elif any(v_ == sv for v_, _ in tt_['targets']) and isinstance(tt_.get('otherwise'), int):
                mroute = tt_['otherwise']
    nhelper = len(helper['blocks'])
    for hb in helper['blocks']:
        nb = _remap(hb, loff, boff)
        if fwd:
            nb = _forward_refs(nb, fwd)
        ht = nb['term']
        if ht and ht['k'] == 'return':
            nb['stmts'].append({'k': 'assign', 'p': copy.deepcopy(dest), 'rv': {'k': 'use', 'op': {'k': 'move', 'p': {'l': loff, 'p': [], 'ty': helper['locals'][0]['ty']}}},
                                'span': ht.get('span'), 'macros': []})
            if target is None:
                nb['term'] = {'k': 'unreachable', 'span': ht.get('span'), 'macros': []}
            else:
                nb['term'] = {'k': 'goto', 'target': target, 'span': ht.get('span'), 'macros': []}
        elif ht and ht['k'] == 'resume' and isinstance(unwind, int) and not isinstance(unwind, bool):
            nb['term'] = {'k': 'goto', 'target': unwind, 'span': ht.get('span'), 'macros': []}
        caller['blocks'].append(nb)
    # a helper that is handed a function item and calls it (`fn on_old_palette_chunk(&mut self, data, parse: fn(&[u8]) -> ..)`): in this
    # copy the pointer is known, so the indirect call becomes the direct call it is
    fnargs = {k + 1: _const_fn(caller, arg) for k, arg in enumerate(t['args'])}
    if any(fnargs.values()):
        for i in range(boff, boff + nhelper):
            nt = caller['blocks'][i]['term']
            if nt and nt['k'] == 'call' and not nt.get('fn') and isinstance(nt.get('indirect'), dict):
                iop = nt['indirect']
                if iop.get('k') in ('move', 'copy') and not iop['p']['p']:
                    hl = iop['p']['l'] - loff
                    seen_ = set()
                    while 0 <= hl < len(helper['locals']) and hl not in seen_ and not (1 <= hl <= helper['arg_count']):
                        seen_.add(hl)
                        rv = _single_def_rv(helper, hl)
                        if rv is not None and rv['k'] == 'use' and rv['op'].get('k') in ('move', 'copy') and not rv['op']['p']['p']:
                            hl = rv['op']['p']['l']
                        else:
                            break
                    if 1 <= hl <= helper['arg_count'] and fnargs.get(hl):
                        nt['fn'] = copy.deepcopy(fnargs[hl])
                        nt['was_indirect'] = nt.pop('indirect')
    if brk is not None:
        # error exits: blocks of the inlined copy that set the helper's return slot to an error value
        bB = caller['blocks'][brk_block]
        first = boff
        exits = _error_exits(caller, boff, nhelper, loff)
        for i, how in exits:
            n0 = len(caller['blocks'])
            # N: dest = move h0 ; B': _c = Try::branch(move dest) ; C': goto break-arm
            caller['blocks'].append({'stmts': [{'k': 'assign', 'p': copy.deepcopy(brk_dest), 'rv': {'k': 'use', 'op': {'k': 'move', 'p': {'l': loff, 'p': [], 'ty': helper['locals'][0]['ty']}}},
                                                'span': span, 'macros': []}],
                                     'term': {'k': 'goto', 'target': n0 + 1, 'span': span, 'macros': []}, 'cleanup': False, 'err_dup': True})
            bp = copy.deepcopy(bB)
            bp['term']['target'] = n0 + 2
            bp['err_dup'] = True
            caller['blocks'].append(bp)
            caller['blocks'].append({'stmts': copy.deepcopy(caller['blocks'][bB['term']['target']]['stmts']),
                                     'term': {'k': 'goto', 'target': brk, 'span': span, 'macros': []}, 'cleanup': False})
            nb = caller['blocks'][i]
            if how == 'call':
                nb['term']['target'] = n0
            else:
                nb['term'] = {'k': 'goto', 'target': n0, 'span': nb['term'].get('span') if nb['term'] else span, 'macros': []}
    elif caller['locals'][loff].get('err_exit') and not dest['p'] and dest['l'] == 0 and isinstance(target, int):
        # the helper's result is the caller's own result: its error exits leave through a block of their own, so that when the caller is
        # itself inlined under a `?` the error path can still be told from the Ok path (they would otherwise meet in the helper's return block)
        for i, how in _error_exits(caller, boff, nhelper, loff):
            n0 = len(caller['blocks'])
            caller['blocks'].append({'stmts': [{'k': 'assign', 'p': copy.deepcopy(dest), 'rv': {'k': 'use', 'op': {'k': 'move', 'p': {'l': loff, 'p': [], 'ty': helper['locals'][0]['ty']}}},
                                                'span': span, 'macros': []}],
                                     'term': {'k': 'goto', 'target': target, 'span': span, 'macros': []}, 'cleanup': False, 'err_route': True})
            nb = caller['blocks'][i]
            if how == 'call':
                nb['term']['target'] = n0
            else:
                nb['term'] = {'k': 'goto', 'target': n0, 'span': nb['term'].get('span') if nb['term'] else span, 'macros': []}
    elif mroute is not None:
        tb_ = caller['blocks'][target]
        for i, how in _error_exits(caller, boff, nhelper, loff):
            n0 = len(caller['blocks'])
            caller['blocks'].append({'stmts': [{'k': 'assign', 'p': copy.deepcopy(dest), 'rv': {'k': 'use', 'op': {'k': 'move', 'p': {'l': loff, 'p': [], 'ty': helper['locals'][0]['ty']}}},
                                                'span': span, 'macros': []}] + copy.deepcopy(tb_['stmts']),
                                     'term': {'k': 'goto', 'target': mroute, 'span': span, 'macros': []}, 'cleanup': False})
            nb = caller['blocks'][i]
            if how == 'call':
                nb['term']['target'] = n0
            else:
                nb['term'] = {'k': 'goto', 'target': n0, 'span': nb['term'].get('span') if nb['term'] else span, 'macros': []}


def _error_exits(caller, first, nhelper, loff):
    exits = []
    for i in range(first, first + nhelper):
        nb = caller['blocks'][i]
        if nb.get('cleanup'):
            continue
        # (the None of an Option-returning helper is its failure value in the same way: `helper(..)?`, `match helper(..) { None => .. }`)
        st_err = any(st['k'] == 'assign' and st['p']['l'] == loff and not st['p']['p'] and st['rv']['k'] == 'agg' and
                     (st['rv'].get('variant') == 'Err' or (st['rv'].get('variant') == 'None' and 'option::Option' in st['rv'].get('adt', '')))
                     for st in nb['stmts'])
        ht = nb['term']
        call_err = bool(ht) and ht['k'] == 'call' and ht['dest']['l'] == loff and not ht['dest']['p'] and \
            (ht.get('fn') or {}).get('orig', '').endswith('from_residual')
        # .. or hand on the error exit of a helper inlined one level further down (see 'err_route' in _splice)
        route = bool(nb.get('err_route')) and any(st['k'] == 'assign' and st['p']['l'] == loff and not st['p']['p'] for st in nb['stmts'])
        if st_err or call_err or route:
            exits.append((i, 'call' if call_err else 'stmt'))
    return exits


def apply(j):
    """returns (json, report); json is modified in place"""
    known = known_functions()
    report = {'inlined': {}, 'kept': []}
    if known is None:
        return j, report
    bodies = {b['path']: b for b in j['bodies']}
    new = {p for p, b in bodies.items() if b['kind'] == 'fn' and not b.get('exported') and _strip(p) not in known}
    if not new:
        return j, report
    # helpers that call themselves stay
    for p in list(new):
        for blk in bodies[p]['blocks']:
            t = blk['term']
            if t and t['k'] == 'call' and _callee_path(t, bodies) == p:
                new.discard(p)
                report['kept'].append(p + ' (recursive)')
    values = _fn_values(j)
    # innermost first: a helper is spliced only once the helpers it calls have been spliced into it, so that the error exits of the inner
    # one are known (and routed) when the outer one is copied.  Mutually recursive helpers never become ready; the restriction is lifted
    # for whatever is left when a round changes nothing.
    def ready(p):
        return not any(t and t['k'] == 'call' and _callee_path(t, bodies) in new and _callee_path(t, bodies) != p
                       and len(t['args']) == bodies[_callee_path(t, bodies)]['arg_count']
                       for blk in bodies[p]['blocks'] for t in [blk['term']])
    strict = True
    for _ in range(2 * MAX_ROUNDS):
        changed = False
        rdy = {p for p in new if not strict or ready(p)}
        for b in j['bodies']:
            n = len(b['blocks'])
            for bi in range(n):
                t = b['blocks'][bi]['term']
                if not t or t['k'] != 'call':
                    continue
                p = _callee_path(t, bodies)
                if p in rdy and p != b['path'] and len(t['args']) == bodies[p]['arg_count']:
                    _splice(b, bi, bodies[p])
                    report['inlined'][p] = report['inlined'].get(p, 0) + 1
                    changed = True
        if not changed:
            if strict:
                strict = False
                continue
            break
    # closures that a caller hands to an inlined helper are now called in the caller itself: inline those calls too
    for b in j['bodies']:
        if not any(l.get('inlined_from') for l in b['locals']):
            continue
        for _ in range(MAX_ROUNDS):
            n = len(b['blocks'])
            did = False
            for bi in range(n):
                t = b['blocks'][bi]['term']
                if not t or t['k'] != 'call' or not t.get('fn') or len(t['args']) != 2:
                    continue
                if t['fn'].get('orig', '').split('::')[-1] not in ('call_once', 'call', 'call_mut') or 'ops::Fn' not in t['fn'].get('orig', ''):
                    continue
                clo = _closure_of(b, t['args'][0])
                if clo is None or clo not in bodies or bodies[clo]['kind'] != 'closure':
                    continue
                cb = bodies[clo]
                targs = _tuple_ops(b, t['args'][1])
                if targs is None or 1 + len(targs) != cb['arg_count']:
                    continue
                t2 = dict(t)
                t2['args'] = [t['args'][0]] + targs
                b['blocks'][bi]['term'] = t2
                _splice(b, bi, cb)
                report['inlined'][clo] = report['inlined'].get(clo, 0) + 1
                did = True
            if not did:
                break
    drop = set()
    for p in new:
        still_called = any(t and t['k'] == 'call' and _callee_path(t, bodies) == p for b in j['bodies'] if b['path'] not in new
                           for blk in b['blocks'] for t in [blk['term']])
        if p in values or still_called or any(k_ in p for k_ in CALLBACK_TRAITS):
            # (a method of such a trait impl is reached through the trait - `impl Read for Wrapper` is called by std's read_exact, `impl
            # Iterator` by a `for` loop, `impl Drop` by scope exit - so it stays visible to the rules that scan every body; unused derived
            # Clone / PartialEq / Debug impls of a new derive are dropped like any other unused new function)
            report['kept'].append(p)
        else:
            drop.add(p)
    j['bodies'] = [b for b in j['bodies'] if b['path'] not in drop]
    return j, report
