"""Renamed crate-private functions.

The rule tables name functions.  A function of the inventory (tables/known_functions.json) that is gone, while exactly one *new*
function of the same module has exactly its signature, has been renamed (or turned from a free function into an associated one, or
the reverse): the new function is analysed under the old name, so a pure rename is not reported as a missing anchor and the rules
judge the body that is there now.  Anything ambiguous (two candidates, two missing functions with one signature) is left alone and
the missing anchor is reported as before (fail closed).  Exported functions are not considered: renaming one changes the public
API, which the crate's own tests and doc tests pin."""
import json

KNOWN = '/verif/tables/known_functions.json'


def _strip(p):
    from facts import strip_generics
    return strip_generics(p)


def _module(p):
    # asefile::cel::...  /  asefile::<cel::X as Trait>::f
    parts = p.replace('<', ' ').replace('>', ' ').replace('::', ' ').split()
    return parts[1] if len(parts) > 1 else ''


def _sig_of(b):
    s = b.get('sig') or {}
    return {'inputs': list(s.get('inputs') or []), 'output': s.get('output'), 'args': b.get('arg_count')}


def apply(j):
    """-> (json, {old name: new path}); json modified in place"""
    try:
        k = json.load(open(KNOWN))
    except Exception:
        return j, {}
    sigs = k.get('signatures') or {}
    known = set(k.get('functions') or [])
    if not sigs:
        return j, {}
    present = {_strip(b['path']) for b in j['bodies']}
    missing = [m for m in sigs if m not in present]
    if not missing:
        return j, {}
    new = [b for b in j['bodies'] if b['kind'] == 'fn' and not b.get('exported') and '{closure' not in b['path']
           and _strip(b['path']) not in known]
    cands = {}
    for m in missing:
        cs = [b for b in new if _sig_of(b) == sigs[m] and _module(b['path']) == _module(m)]
        if len(cs) == 1:
            cands[m] = cs[0]
    # a new function may stand in for one missing function only
    taken = {}
    for m, b in cands.items():
        taken.setdefault(b['path'], []).append(m)
    pairs = {ms[0]: p for p, ms in taken.items() if len(ms) == 1}
    if not pairs:
        return j, {}
    ren = {p: m for m, p in pairs.items()}

    def fix(o):
        if isinstance(o, list):
            for i, x in enumerate(o):
                if isinstance(x, str):
                    o[i] = fixs(x)
                else:
                    fix(x)
        elif isinstance(o, dict):
            for kk, x in list(o.items()):
                if isinstance(x, str):
                    o[kk] = fixs(x)
                else:
                    fix(x)

    def fixs(s):
        for old, newn in ren.items():
            if s == old:
                return newn
            if s.startswith(old + '::{'):
                return newn + s[len(old):]
        return s
    fix(j['bodies'])
    return j, pairs


def apply_fields(j):
    """renamed struct fields: a field of the recorded data model (tables/known_functions.json "fields": adt -> [[name, type]..]) that
    is gone while the same struct has exactly one new field of the same type at the same position is given its old name back, in
    the ADT table, in aggregates of that ADT and in field projections (by name, only if no other ADT of the crate has a field with
    the new name - otherwise nothing is done and the rules fail closed)"""
    try:
        k = json.load(open(KNOWN))
    except Exception:
        return j, {}
    known = k.get('fields') or {}
    all_names = {}
    for a in j['adts']:
        for v in a.get('variants', []):
            for f in v.get('fields', []):
                all_names.setdefault(f['name'], set()).add(a['path'])
    ren = {}
    for a in j['adts']:
        if a.get('kind') != 'struct' or a['path'] not in known:
            continue
        old = known[a['path']]
        cur = [(f['name'], f['ty']) for f in a['variants'][0]['fields']] if a.get('variants') else []
        if len(old) != len(cur):
            continue
        for (on, ot), (cn, ct) in zip(old, cur):
            # (a named struct turned into a tuple struct has the positions as names: same rule, by position and type)
            if on != cn and ot == ct and on not in [c[0] for c in cur]:
                ren[(a['path'], cn)] = on
    if not ren:
        return j, {}
    for a in j['adts']:
        for v in a.get('variants', []):
            for f in v.get('fields', []):
                if (a['path'], f['name']) in ren:
                    f['name'] = ren[(a['path'], f['name'])]
    short = {}
    for (ap, cn), on in ren.items():
        short.setdefault(_tykey(ap), {})[cn] = on

    def place(o, locals_):
        cur = locals_[o['l']]['ty'] if o['l'] < len(locals_) else ''
        for e in o['p']:
            if e.get('k') == 'field':
                m = short.get(_tykey(cur))
                if m and e.get('n') in m:
                    e['n'] = m[e['n']]
                cur = e.get('ty', '')
            elif e.get('k') in ('deref',):
                cur = cur.lstrip('&').replace('mut ', '', 1) if cur.startswith('&') else cur
            elif 'ty' in e:
                cur = e['ty']

    def fix(o, locals_):
        if isinstance(o, list):
            for x in o:
                fix(x, locals_)
        elif isinstance(o, dict):
            if 'l' in o and isinstance(o.get('p'), list):
                place(o, locals_)
            if o.get('k') == 'agg' and isinstance(o.get('fields'), list) and o.get('adt'):
                m = short.get(_tykey(o['adt']))
                if m:
                    o['fields'] = [m.get(n, n) if isinstance(n, str) else n for n in o['fields']]
            for x in o.values():
                fix(x, locals_)
    for b in j['bodies']:
        fix(b['blocks'], b['locals'])
    return j, {'%s.%s' % (ap.split('::')[-1], cn): on for (ap, cn), on in ren.items()}


def _tykey(t):
    """'&mut parse::ParseInfo' / 'asefile::parse::ParseInfo' / 'cel::CelsData<P>' -> 'parse::ParseInfo' style key"""
    t = t.strip()
    while t.startswith('&'):
        t = t[1:].strip()
        if t.startswith('mut '):
            t = t[4:].strip()
        if t.startswith("'"):
            t = t.split(' ', 1)[1] if ' ' in t else t
    t = t.split('<')[0]
    if t.startswith('asefile::'):
        t = t[len('asefile::'):]
    return t


def field_table(fact_files):
    out = {}
    for fp in fact_files:
        jj = json.load(open(fp))
        for a in jj['adts']:
            if a.get('kind') == 'struct' and a['path'].startswith('asefile::') and a.get('variants'):
                fs = [[f['name'], f['ty']] for f in a['variants'][0]['fields']]
                if fs and not fs[0][0].isdigit():
                    out[a['path']] = fs
    return out


def signatures(fact_files):
    """signature table for the crate-private functions of the given fact files (used once, to extend known_functions.json)"""
    out = {}
    for fp in fact_files:
        jj = json.load(open(fp))
        for b in jj['bodies']:
            if b['kind'] == 'fn' and not b.get('exported') and '{closure' not in b['path']:
                n = _strip(b['path'])
                if n.startswith('asefile::<'):
                    continue            # trait impl methods are named by the trait
                out[n] = _sig_of(b)
    return out
