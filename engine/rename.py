"""Renamed crate-private functions.

The rule tables name functions.  A function of the inventory (tables/known_functions.json) that is gone, while exactly one *new*
function of the same module has exactly its signature, has been renamed (or turned from a free function into an associated one, or
the reverse): the new function is analysed under the old name, so a pure rename is not reported as a missing anchor and the rules
judge the body that is there now.  Anything ambiguous (two candidates, two missing functions with one signature) is left alone and
the missing anchor is reported as before (fail closed).  Exported functions are not considered: renaming one changes the public
API, which the crate's own tests and doc tests pin."""
import json

KNOWN = '/verif/tables/known_functions.json'


def _strip(p):
    from facts import strip_generics
    return strip_generics(p)


def _module(p):
    # asefile::cel::...  /  asefile::<cel::X as Trait>::f
    parts = p.replace('<', ' ').replace('>', ' ').replace('::', ' ').split()
    return parts[1] if len(parts) > 1 else ''


def _sig_of(b):
    s = b.get('sig') or {}
    return {'inputs': list(s.get('inputs') or []), 'output': s.get('output'), 'args': b.get('arg_count')}


def apply(j):
    """-> (json, {old name: new path}); json modified in place"""
    try:
        k = json.load(open(KNOWN))
    except Exception:
        return j, {}
    sigs = k.get('signatures') or {}
    known = set(k.get('functions') or [])
    if not sigs:
        return j, {}
    present = {_strip(b['path']) for b in j['bodies']}
    missing = [m for m in sigs if m not in present]
    if not missing:
        return j, {}
    new = [b for b in j['bodies'] if b['kind'] == 'fn' and not b.get('exported') and '{closure' not in b['path']
           and _strip(b['path']) not in known]
    cands = {}
    for m in missing:
        cs = [b for b in new if _sig_of(b) == sigs[m] and _module(b['path']) == _module(m)]
        if len(cs) == 1:
            cands[m] = cs[0]
    # a new function may stand in for one missing function only
    taken = {}
    for m, b in cands.items():
        taken.setdefault(b['path'], []).append(m)
    pairs = {ms[0]: p for p, ms in taken.items() if len(ms) == 1}
    if not pairs:
        return j, {}
    ren = {p: m for m, p in pairs.items()}

    def fix(o):
        if isinstance(o, list):
            for i, x in enumerate(o):
                if isinstance(x, str):
                    o[i] = fixs(x)
                else:
                    fix(x)
        elif isinstance(o, dict):
            for kk, x in list(o.items()):
                if isinstance(x, str):
                    o[kk] = fixs(x)
                else:
                    fix(x)

    def fixs(s):
        for old, newn in ren.items():
            if s == old:
                return newn
            if s.startswith(old + '::{'):
                return newn + s[len(old):]
        return s
    fix(j['bodies'])
    return j, pairs


def signatures(fact_files):
    """signature table for the crate-private functions of the given fact files (used once, to extend known_functions.json)"""
    out = {}
    for fp in fact_files:
        jj = json.load(open(fp))
        for b in jj['bodies']:
            if b['kind'] == 'fn' and not b.get('exported') and '{closure' not in b['path']:
                n = _strip(b['path'])
                if n.startswith('asefile::<'):
                    continue            # trait impl methods are named by the trait
                out[n] = _sig_of(b)
    return out
