"""A3 - origin (provenance) terms.

A *term* is a hashable tuple describing where a value comes from, computed by following
MIR definitions backwards (flow-insensitive, field-sensitive may-analysis). References,
derefs, pointer coercions and the success wrappers of Result/Option are erased, so that
`let x = reader.word()?` yields the term ('call','asefile::reader::AseReader::word',...).

Term forms
  ('param', i, name)                 ('const', v, ty)          ('fn', path)
  ('call', callee, args, site)       ('field', t, name)        ('variant', t, vname)
  ('cast', t, from, to)              ('bin', op, a, b)         ('un', op, a)
  ('agg', adt, variant, ((f,t),..))  ('tuple', (t,..))         ('array', (t,..))
  ('discr', t)  ('index', base, i)   ('len', t)                ('closure', path, caps)
  ('try', t)    ('residual', t)      ('next', it)              ('any', frozenset(t))
  ('phi', tag)  ('unknown', text)    ('static', path)          ('upvar', i, name)
"""
from facts import strip_generics

INT_TYS = {'u8', 'u16', 'u32', 'u64', 'u128', 'usize', 'i8', 'i16', 'i32', 'i64', 'i128', 'isize'}

# callees whose (first) argument passes through unchanged as far as provenance goes
PASS_FIRST = {
    'std::result::Result::map_err', 'std::option::Option::ok_or_else',
    'std::option::Option::ok_or', 'std::option::Option::as_ref', 'std::option::Option::as_mut',
    'std::option::Option::as_deref', 'std::option::Option::as_deref_mut',
    'std::option::Option::cloned', 'std::option::Option::copied', 'std::result::Result::as_ref',
    'std::result::Result::as_mut', 'std::ops::Deref::deref', 'std::ops::DerefMut::deref_mut',
    'std::convert::AsRef::as_ref', 'std::convert::AsMut::as_mut', 'std::borrow::Borrow::borrow',
    'std::clone::Clone::clone', 'std::borrow::ToOwned::to_owned', 'std::boxed::Box::new',
    'std::sync::Arc::new', 'std::rc::Rc::new', 'std::option::Option::unwrap', 'std::option::Option::expect',
    'std::result::Result::unwrap', 'std::result::Result::expect', 'std::result::Result::ok',
    'std::option::Option::take', 'std::option::Option::unwrap_or_default',
    'std::result::Result::unwrap_or_default', 'std::convert::identity',
    'std::slice::<impl [T]>::as_ref', 'std::vec::Vec::as_slice', 'std::vec::Vec::as_mut_slice',
    'std::string::String::as_str', 'std::borrow::Cow::as_ref', 'std::option::Option::transpose', 'std::result::Result::transpose',
}
MAP_LIKE = {'std::result::Result::map', 'std::option::Option::map',
            'std::result::Result::and_then', 'std::option::Option::and_then'}
SUCCESS_VARIANTS = {'Ok', 'Some', 'Continue'}
FAILURE_VARIANTS = {'Err'}            # (None / Break are also success-carrying values of Result<Option<T>> etc.: keep them)
WRAPPER_ADTS = ('std::result::Result', 'std::option::Option', 'std::ops::ControlFlow')


def show(t, depth=0):
    """compact human-readable rendering of a term"""
    if not isinstance(t, tuple):
        return str(t)
    if depth > 8:
        return '...'
    k = t[0]
    d = depth + 1
    if k == 'param':
        return 'param:%s' % (t[2] or t[1])
    if k == 'upvar':
        return 'upvar:%s' % (t[2] or t[1])
    if k == 'const':
        return 'const(%s:%s)' % (t[1], t[2])
    if k == 'fn':
        return 'fn:%s' % short(t[1])
    if k == 'static':
        return 'static:%s' % short(t[1])
    if k == 'call':
        site = ''
        if t[3]:
            site = '@bb%s' % t[3][1]
        return '%s(%s)%s' % (short(t[1]), ', '.join(show(a, d) for a in t[2]), site)
    if k == 'field':
        return '%s.%s' % (show(t[1], d), t[2])
    if k == 'variant':
        return '(%s as %s)' % (show(t[1], d), t[2])
    if k == 'cast':
        return '(%s as %s<-%s)' % (show(t[1], d), t[3], t[2])
    if k == 'bin':
        return '%s(%s, %s)' % (t[1], show(t[2], d), show(t[3], d))
    if k == 'un':
        return '%s(%s)' % (t[1], show(t[2], d))
    if k == 'agg':
        return '%s::%s{%s}' % (short(t[1] or '?'), t[2], ', '.join('%s: %s' % (f, show(x, d)) for f, x in t[3]))
    if k in ('tuple', 'array'):
        return '%s(%s)' % (k, ', '.join(show(x, d) for x in t[1]))
    if k == 'any':
        return 'any{%s}' % ' | '.join(sorted(show(x, d) for x in t[1]))
    if k in ('discr', 'len', 'try', 'residual', 'next'):
        return '%s(%s)' % (k, show(t[1], d))
    if k == 'index':
        return '%s[%s]' % (show(t[1], d), show(t[2], d))
    if k == 'closure':
        return 'closure:%s' % short(t[1])
    return '%s(%s)' % (k, ', '.join(show(x, d) if isinstance(x, tuple) else str(x) for x in t[1:]))


def short(p):
    if p is None:
        return '?'
    p = p.replace('asefile::', '')
    p = p.replace('std::', '').replace('core::', '')
    return p


def mk_any(ts):
    flat = set()
    for t in ts:
        if isinstance(t, tuple) and t and t[0] == 'any':
            flat |= t[1]
        else:
            flat.add(t)
    if len(flat) == 1:
        return next(iter(flat))
    if not flat:
        return ('unknown', 'no-def')
    return ('any', frozenset(flat))


def alts(t):
    """the alternatives of a term (singleton unless 'any')"""
    if isinstance(t, tuple) and t and t[0] == 'any':
        return list(t[1])
    return [t]


def walk(t):
    """yield all sub-terms (pre-order)"""
    yield t
    if not isinstance(t, tuple):
        return
    k = t[0]
    if k == 'call':
        for a in t[2]:
            yield from walk(a)
    elif k == 'agg':
        for _, x in t[3]:
            yield from walk(x)
    elif k in ('tuple', 'array'):
        for x in t[1]:
            yield from walk(x)
    elif k == 'any':
        for x in t[1]:
            yield from walk(x)
    elif k == 'closure':
        for x in t[2]:
            yield from walk(x[1])
    else:
        for x in t[1:]:
            if isinstance(x, tuple):
                yield from walk(x)


def strip_casts(t):
    while isinstance(t, tuple) and t[0] == 'cast':
        t = t[1]
    return t


def casts_on(t):
    out = []
    while isinstance(t, tuple) and t[0] == 'cast':
        out.append((t[2], t[3]))
        t = t[1]
    return out, t


def subst(t, env):
    """replace ('param', i, _) by env[i] and ('upvar', i, _) by env[('up', i)]"""
    if not isinstance(t, tuple):
        return t
    k = t[0]
    if k == 'param':
        return env.get(t[1], t)
    if k == 'upvar':
        return env.get(('up', t[1]), t)
    if k == 'call':
        return simplify_call(t[1], tuple(subst(a, env) for a in t[2]), t[3], None)
    if k == 'agg':
        return ('agg', t[1], t[2], tuple((f, subst(x, env)) for f, x in t[3]))
    if k in ('tuple', 'array'):
        return (k, tuple(subst(x, env) for x in t[1]))
    if k == 'any':
        return mk_any([subst(x, env) for x in t[1]])
    if k == 'closure':
        return ('closure', t[1], tuple((n, subst(x, env)) for n, x in t[2]))
    if k == 'field':
        return proj_field(subst(t[1], env), t[2])
    if k == 'variant':
        return proj_variant(subst(t[1], env), t[2])
    return tuple(subst(x, env) if isinstance(x, tuple) else x for x in t)


def proj_field(t, name):
    k = t[0]
    if k == 'bin' and t[1].endswith('WithOverflow'):
        if name == '0':
            return ('bin', t[1][:-len('WithOverflow')], t[2], t[3])
        return ('overflowed', t)
    if k == 'any':
        return mk_any([proj_field(x, name) for x in t[1]])
    if k == 'agg':
        for f, x in t[3]:
            if f == name:
                return x
        return ('field', t, name)
    if k == 'closure' and str(name).isdigit() and int(name) < len(t[2]):
        return t[2][int(name)][1]          # captured value i of a closure value (seen when a closure call has been inlined)
    if k == 'tuple':
        try:
            return t[1][int(name)]
        except (ValueError, IndexError):
            return ('field', t, name)
    if k == 'variant' and name == '0' and t[2] in SUCCESS_VARIANTS:
        return payload(t[1])
    if k == 'variant' and t[1][0] == 'agg' and t[1][2] == t[2]:
        return proj_field(t[1], name)
    return ('field', t, name)


def payload(t):
    """success payload of a Result/Option/ControlFlow-typed term (wrappers erased)"""
    k = t[0]
    if k == 'any':
        # the success payload of `Ok(v) | Err(e)` is v: failure alternatives carry no payload (they arise when a helper that
        # returns a Result has been inlined, so that both of its return values are visible)
        xs = [x for x in t[1] if not (x[0] == 'agg' and x[2] in FAILURE_VARIANTS and x[1] and x[1].startswith(WRAPPER_ADTS)) and x[0] != 'residual']
        if not xs:
            xs = list(t[1])
        return mk_any([payload(x) for x in xs])
    if k == 'try':
        return payload(t[1])
    if k == 'agg' and t[2] in SUCCESS_VARIANTS:
        for f, x in t[3]:
            if f == '0':
                return x
    return t


def proj_variant(t, v):
    k = t[0]
    if k == 'any':
        xs = [proj_variant(x, v) for x in t[1]]
        xs = [x for x in xs if x != ('never',)]
        return mk_any(xs) if xs else ('never',)
    if k == 'agg' and t[2] is not None:
        if t[2] == v:
            return t
        if t[1] and (t[1].startswith('std::option::Option') or t[1].startswith('std::result::Result')):
            return ('never',)
        return ('never',)
    if k == 'try':
        if v == 'Continue':
            return ('variant', t[1], 'Continue')
        return ('residual', t[1])
    return ('variant', t, v)


def simplify_call(callee, args, site, resolver):
    """apply the transparent-callee rules"""
    if callee == '<indirect>' and args and args[0][0] in ('closure', 'fn'):
        return apply_fn(args[0], list(args[1:]), site)
    if callee == 'std::ops::Try::branch':
        return ('try', args[0])
    if callee == 'std::ops::FromResidual::from_residual':
        return ('residual', args[0])
    if callee in PASS_FIRST and args:
        return payload(args[0]) if callee.endswith(('unwrap', 'expect', 'ok_or_else', 'ok_or')) else args[0]
    if callee in MAP_LIKE and len(args) == 2:
        return apply_fn(args[1], [payload(args[0])], site)
    if callee == 'std::option::Option::map_or_else' and len(args) == 3:
        return mk_any([apply_fn(args[1], [], site), apply_fn(args[2], [payload(args[0])], site)])
    if callee == 'std::option::Option::map_or' and len(args) == 3:
        return mk_any([args[1], apply_fn(args[2], [payload(args[0])], site)])
    if callee in ('std::option::Option::unwrap_or', 'std::result::Result::unwrap_or') and len(args) == 2:
        return mk_any([payload(args[0]), args[1]])
    if callee in ('core::bool::then', 'std::bool::then') and len(args) == 2:
        # cond.then(|| v)  ==  if cond { Some(v) } else { None }
        return mk_any([('agg', 'std::option::Option', 'None', ()), ('agg', 'std::option::Option', 'Some', (('0', apply_fn(args[1], [], site)),))])
    if callee in ('core::bool::then_some', 'std::bool::then_some') and len(args) == 2:
        return mk_any([('agg', 'std::option::Option', 'None', ()), ('agg', 'std::option::Option', 'Some', (('0', args[1]),))])
    if callee == 'std::iter::Iterator::next':
        return ('next', args[0])
    if callee == 'std::iter::IntoIterator::into_iter' and args:
        return ('call', callee, args, None)
    return ('call', callee, args, site)


def apply_fn(f, args, site):
    """f is a term denoting a callable"""
    outs = []
    for g in alts(f):
        if g[0] == 'fn':
            outs.append(simplify_call(g[1], tuple(args), site, None) if not g[1].startswith('ctor:')
                        else ctor_agg(g[1], args))
        elif g[0] == 'closure':
            outs.append(('call', 'closure:' + g[1], tuple(args) + (('closure', g[1], g[2]),), site))
        else:
            outs.append(('call', '<indirect>', (g,) + tuple(args), site))
    return mk_any(outs)


def ctor_agg(c, args):
    # 'ctor:<adt>|<variant>'
    _, rest = c.split(':', 1)
    adt, variant = rest.split('|')
    return ('agg', adt, variant, tuple((str(i), a) for i, a in enumerate(args)))


class Resolver:
    """per-body backward resolver"""

    def __init__(self, body):
        self.body = body
        self.fx = body.facts
        self.defs = {}      # local -> list of (proj(tuple), kind, payload, bb)
        self.memo = {}
        self.mem_writes = []
        self._collect()

    def _collect(self):
        for bi, b in enumerate(self.body.blocks):
            if bi not in self.body.cfg.reach:
                continue
            if b['cleanup']:
                continue
            for st in b['stmts']:
                if st['k'] == 'assign':
                    p = st['p']
                    if any(e['k'] == 'deref' for e in p['p']):
                        # a write *through* the pointer held in the local, not a definition of the local
                        self.mem_writes.append((p, 'rv', st['rv'], bi))
                        continue
                    self.defs.setdefault(p['l'], []).append((tuple(self._projkey(p)), 'rv', st['rv'], bi))
            t = b['term']
            if t and t['k'] == 'call':
                p = t['dest']
                if any(e['k'] == 'deref' for e in p['p']):
                    self.mem_writes.append((p, 'call', t, bi))
                    continue
                self.defs.setdefault(p['l'], []).append((tuple(self._projkey(p)), 'call', t, bi))

    @staticmethod
    def _projkey(p):
        out = []
        for e in p['p']:
            k = e['k']
            if k == 'deref':
                continue
            if k == 'field':
                out.append(('f', e['n'] if e['n'] is not None else str(e['i'])))
            elif k == 'downcast':
                out.append(('v', e['v']))
            elif k == 'index':
                out.append(('i', e['l']))
            elif k == 'constindex':
                out.append(('ci', e['offset']))
            else:
                out.append(('o', e.get('s', k)))
        return out

    # ---- operands / places
    def operand(self, op, stack=()):
        k = op['k']
        if k in ('copy', 'move'):
            return self.place(op['p'], stack)
        if k == 'const':
            return self.const(op)
        return ('unknown', 'operand:' + k)

    def const(self, op):
        if 'fn' in op:
            fn = op['fn']
            if fn.get('ctor'):
                return ('fn', 'ctor:' + self._ctor_key(fn))
            path = strip_generics(fn.get('res') or fn['orig'])
            # prefer the trait-level name for external trait methods
            if fn.get('trait') and not fn.get('res_local'):
                path = strip_generics(fn['orig'])
            return ('fn', path)
        if 'closure_def' in op:
            return ('closure', op['closure_def'], ())
        if 'static_def' in op:
            return ('static', strip_generics(op['static_def']))
        if 'v' in op:
            return ('const', op['v'], op['ty'])
        if 'promoted' in op:
            pb = self.fx.by_path.get(op['promoted'])
            if pb is not None:
                return get_resolver(pb).ret()
        if 'const_def' in op:
            cb = self.fx.by_path.get(op['const_def'])
            if cb is not None:
                r = get_resolver(cb).ret()
                if r[0] == 'const':
                    return ('const', r[1], r[2], strip_generics(op['const_def']))
                if not any(isinstance(x, tuple) and x[0] in ('param', 'unknown', 'phi') for x in walk(r)):
                    return r
            return ('const', op.get('s'), op['ty'], strip_generics(op['const_def']))
        return ('const', op.get('s'), op['ty'])

    def _ctor_key(self, fn):
        parent = strip_generics(fn['ctor_of'])
        if parent in self.fx.adts or not self._looks_variant(parent):
            return parent + '|' + parent.split('::')[-1]
        adt = '::'.join(parent.split('::')[:-1])
        return adt + '|' + parent.split('::')[-1]

    def _looks_variant(self, parent):
        adt = '::'.join(parent.split('::')[:-1])
        if adt in self.fx.adts:
            return True
        # external enums: Option/Result/...
        return adt.split('::')[-1][:1].isupper()

    def place(self, p, stack=()):
        t = self.local(p['l'], stack)
        proj = p['p']
        for e in proj:
            k = e['k']
            if k == 'deref':
                continue
            if k == 'field':
                t = proj_field(t, e['n'] if e['n'] is not None else str(e['i']))
            elif k == 'downcast':
                t = proj_variant(t, e['v'])
            elif k == 'index':
                it_ = self.local(e['l'], stack)
                iv_ = strip_casts(it_)
                if t[0] == 'array' and iv_[0] == 'const' and isinstance(iv_[1], int) and not isinstance(iv_[1], bool) and 0 <= iv_[1] < len(t[1]):
                    t = t[1][iv_[1]]          # `[r, g, b][0]`: the element itself
                else:
                    t = ('index', t, it_)
            elif k == 'constindex':
                if t[0] == 'array' and not e['from_end'] and e['offset'] < len(t[1]):
                    t = t[1][e['offset']]
                else:
                    t = ('index', t, ('const', e['offset'], 'usize'))
            else:
                t = ('field', t, '<%s>' % k)
        return t

    def local(self, l, stack=()):
        if l in self.memo:
            return self.memo[l]
        if l in stack:
            return ('phi', self.body.local_name(l) or ('_%d' % l))
        if 1 <= l <= self.body.arg_count and l not in self.defs:
            t = ('param', l, self.body.local_name(l))
            self.memo[l] = t
            return t
        ds = self.defs.get(l)
        if not ds:
            if 1 <= l <= self.body.arg_count:
                return ('param', l, self.body.local_name(l))
            return ('unknown', 'undef:_%d' % l)
        st2 = stack + (l,)
        whole = []
        partial = {}
        for proj, kind, pl, bb in ds:
            if kind == 'rv':
                v = self.rvalue(pl, st2, bb)
            else:
                v = self.call_term(pl, st2, bb)
            if not proj:
                whole.append(v)
            else:
                partial.setdefault(proj, []).append(v)
        if 1 <= l <= self.body.arg_count:
            whole.append(('param', l, self.body.local_name(l)))
        if partial and not whole:
            # built field by field
            fields = []
            ok = True
            for proj, vs in partial.items():
                if len(proj) == 1 and proj[0][0] == 'f':
                    fields.append((proj[0][1], mk_any(vs)))
                else:
                    ok = False
            if ok:
                t = ('agg', None, None, tuple(sorted(fields)))
            else:
                t = ('unknown', 'partial-def:_%d' % l)
        else:
            t = mk_any(whole)
            # partial overwrites of a whole value (e.g. x.field = ..): record as alternatives
            if partial and t[0] == 'agg':
                fl = dict(t[3])
                for proj, vs in partial.items():
                    if len(proj) == 1 and proj[0][0] == 'f':
                        fl[proj[0][1]] = mk_any(vs + ([fl[proj[0][1]]] if proj[0][1] in fl else []))
                t = ('agg', t[1], t[2], tuple(fl.items()))
        if not stack and not any(x[0] == 'phi' for x in walk(t)):
            self.memo[l] = t
        return t

    def rvalue(self, rv, stack, bb):
        k = rv['k']
        if k == 'use':
            return self.operand(rv['op'], stack)
        if k in ('ref', 'copyforderef', 'rawptr'):
            return self.place(rv['p'], stack)
        if k == 'cast':
            t = self.operand(rv['op'], stack)
            frm, to = rv['from'], rv['to']
            if frm in INT_TYS | {'bool', 'char', 'f32', 'f64'} or to in INT_TYS | {'f32', 'f64'}:
                return ('cast', t, frm, to)
            return t
        if k == 'bin':
            return ('bin', rv['op'], self.operand(rv['a'], stack), self.operand(rv['b'], stack))
        if k == 'un':
            if rv['op'] == 'PtrMetadata':
                return ('len', self.operand(rv['a'], stack))
            return ('un', rv['op'], self.operand(rv['a'], stack))
        if k == 'discr':
            return ('discr', self.place(rv['p'], stack))
        if k == 'agg':
            ops = [self.operand(o, stack) for o in rv['ops']]
            ak = rv['ak']
            if ak == 'adt':
                return ('agg', strip_generics(rv['adt']), rv['variant'],
                        tuple(zip(rv['fields'], ops)))
            if ak == 'tuple':
                return ('tuple', tuple(ops))
            if ak == 'array':
                return ('array', tuple(ops))
            if ak == 'closure':
                cb = self.fx.by_path.get(rv['closure_def'])
                names = []
                if cb is not None:
                    names = upvar_names(cb)
                caps = tuple((names[i] if i < len(names) else str(i), o) for i, o in enumerate(ops))
                return ('closure', rv['closure_def'], caps)
            return ('unknown', 'agg:' + ak)
        if k == 'repeat':
            return ('call', 'repeat', (self.operand(rv['op'], stack), ('const', rv['n'], 'usize')), None)
        if k == 'other':
            s = rv.get('s', '')
            return ('unknown', 'rv:' + s[:60])
        return ('unknown', 'rv:' + k)

    def call_term(self, t, stack, bb):
        fn = t.get('fn')
        args = tuple(self.operand(a, stack) for a in t['args'])
        site = (self.body.name, bb)
        if not fn:
            f = self.operand(t['indirect'], stack)
            return apply_fn(f, list(args), site)
        if fn.get('ctor'):
            return ctor_agg('ctor:' + self._ctor_key(fn), list(args))
        orig = strip_generics(fn['orig'])
        # closure called through Fn*/FnMut/FnOnce::call*
        if orig in ('std::ops::Fn::call', 'std::ops::FnMut::call_mut', 'std::ops::FnOnce::call_once') and len(args) == 2:
            inner = args[1]
            a = list(inner[1]) if inner[0] == 'tuple' else [inner]
            return apply_fn(args[0], a, site)
        # numeric From/Into
        if orig in ('std::convert::From::from', 'std::convert::Into::into'):
            ga = fn.get('args', [])
            if len(ga) == 2:
                src, dst = (ga[1], ga[0]) if orig.endswith('from') else (ga[0], ga[1])
                if src in INT_TYS and dst in INT_TYS:
                    return ('cast', args[0], src, dst)
            if fn.get('res_local'):
                return ('call', strip_generics(fn['res']), args, site)
            if fn.get('res') and '<T as std::convert::Into<U>>::into' in fn['res'] and len(ga) == 2:
                # blanket Into -> From
                return ('call', 'std::convert::From::from<%s<-%s>' % (ga[1], ga[0]), args, site)
            if fn.get('res') and '<T as std::convert::From<T>>::from' in fn['res']:
                return args[0]
            return ('call', orig + '<%s>' % ','.join(ga), args, site)
        # `opt?` on an Option (seen with both return values of an inlined Option-returning helper): the None next to a Some is this
        # `?`'s own failure value and never reaches the continuation.  Decided here because only here the operand's type is known -
        # under a Result the same None would be a success payload (`Result<Option<T>>`)
        if orig == 'std::ops::Try::branch' and len(args) == 1 and args[0][0] == 'any' and \
                (fn.get('args') or [''])[0].replace('std::', '').replace('option::', '').startswith('Option<'):
            xs = list(args[0][1])
            if any(x[0] == 'agg' and x[2] == 'Some' for x in xs):
                xs = [x for x in xs if not (x[0] == 'agg' and x[2] == 'None')]
                args = (mk_any(xs),)
        # locally implemented trait methods: name the impl body
        if fn.get('res_local') and fn.get('res'):
            callee = strip_generics(fn['res'])
        else:
            callee = orig
        return simplify_call(callee, args, site, self)

    # ---- function-level
    def ret(self):
        return self.local(0)

    def ok_ret(self):
        """return term restricted to non-error alternatives, wrappers erased"""
        outs = []
        for a in alts(self.ret()):
            if a[0] == 'residual':
                continue
            if a[0] == 'agg' and a[2] == 'Err':
                continue
            outs.append(payload(a))
        return mk_any(outs) if outs else ('never',)


def upvar_names(cb):
    names = {}
    for u in cb.j.get('upvars', []):
        p = u['p']
        if p['l'] == 1:
            for e in p['p']:
                if e['k'] == 'field':
                    names[e['i']] = u['name']
                    break
    if not names:
        return []
    return [names.get(i, str(i)) for i in range(max(names) + 1)]


_RES = {}


def get_resolver(body):
    r = _RES.get(id(body))
    if r is None:
        r = Resolver(body)
        _RES[id(body)] = r
    return r


def closure_env_subst(cb, closure_term, args):
    """environment for substituting a closure body's params: _1 = env, _2.. = args"""
    env = {}
    caps = dict((i, x) for i, (n, x) in enumerate(closure_term[2]))
    for i, a in enumerate(args):
        env[2 + i] = a
    return env, caps


def expand(t, fx, depth=3, seen=(), _memo=None):
    """inline local callees (functions and closures) by return-term substitution.  Terms are DAGs with heavy sharing (the same read
    appears under many parents): sub-results are memoised per call, by object identity, or the walk is exponential (seed C16-t kept
    one rule busy for ten minutes)"""
    if not isinstance(t, tuple) or depth < 0:
        return t
    if _memo is None:
        _memo = {}
    key_ = (id(t), depth, seen)
    hit = _memo.get(key_)
    if hit is not None and hit[0] is t:
        return hit[1]
    out_ = _expand(t, fx, depth, seen, _memo)
    _memo[key_] = (t, out_)
    return out_


def _expand(t, fx, depth, seen, _memo):
    k = t[0]
    if k == 'call':
        args = tuple(expand(a, fx, depth, seen, _memo) for a in t[2])
        callee = t[1]
        if callee.startswith('closure:'):
            cpath = callee[len('closure:'):]
            cb = fx.by_path.get(cpath)
            cl = args[-1]
            if cb is not None and depth > 0 and cpath not in seen:
                r = get_resolver(cb).ok_ret()
                env = {}
                for i, a in enumerate(args[:-1]):
                    env[2 + i] = a
                r = subst_closure(r, env, cl)
                return expand(r, fx, depth - 1, seen + (cpath,), _memo)
            return ('call', callee, args, t[3])
        bs = fx.bodies_named(callee)
        if len(bs) == 1 and depth > 0 and callee not in seen:
            cb = bs[0]
            r = get_resolver(cb).ok_ret()
            env = {i + 1: a for i, a in enumerate(args)}
            r = subst(r, env)
            return expand(r, fx, depth - 1, seen + (callee,), _memo)
        return simplify_call(callee, args, t[3], None)
    if k == 'agg':
        return ('agg', t[1], t[2], tuple((f, expand(x, fx, depth, seen, _memo)) for f, x in t[3]))
    if k in ('tuple', 'array'):
        return (k, tuple(expand(x, fx, depth, seen, _memo) for x in t[1]))
    if k == 'any':
        return mk_any([expand(x, fx, depth, seen, _memo) for x in t[1]])
    if k == 'field':
        return proj_field(expand(t[1], fx, depth, seen, _memo), t[2])
    if k == 'variant':
        return proj_variant(expand(t[1], fx, depth, seen, _memo), t[2])
    if k in ('try',):
        return ('try', expand(t[1], fx, depth, seen, _memo))
    if k == 'closure':
        return t
    return tuple(expand(x, fx, depth, seen, _memo) if isinstance(x, tuple) else x for x in t)


def subst_closure(r, env, closure_term):
    """substitute closure params (_2..) and captured upvars (fields of _1)"""
    caps = {n: x for n, x in closure_term[2]} if closure_term[0] == 'closure' else {}
    capl = [x for n, x in closure_term[2]] if closure_term[0] == 'closure' else []

    def go(t):
        if not isinstance(t, tuple):
            return t
        k = t[0]
        if k == 'field' and t[1][0] == 'param' and t[1][1] == 1:
            nm = t[2]
            if nm in caps:
                return caps[nm]
            try:
                return capl[int(nm)]
            except (ValueError, IndexError):
                return t
        if k == 'param':
            return env.get(t[1], t)
        if k == 'call':
            return simplify_call(t[1], tuple(go(a) for a in t[2]), t[3], None)
        if k == 'agg':
            return ('agg', t[1], t[2], tuple((f, go(x)) for f, x in t[3]))
        if k in ('tuple', 'array'):
            return (k, tuple(go(x) for x in t[1]))
        if k == 'any':
            return mk_any([go(x) for x in t[1]])
        if k == 'closure':
            return ('closure', t[1], tuple((n, go(x)) for n, x in t[2]))
        if k == 'field':
            return proj_field(go(t[1]), t[2])
        if k == 'variant':
            return proj_variant(go(t[1]), t[2])
        return tuple(go(x) if isinstance(x, tuple) else x for x in t)
    return go(r)
