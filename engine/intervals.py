"""A7 - width-bound domain: a tiny non-relational interval analysis over integer locals of a MIR body.

Flow-insensitive: bound(local) = join over all definitions; loop-carried values are widened to the type range
immediately. Leaves: constants, type ranges, zero/sign-extending casts, Vec::len (<= isize::MAX), return summaries
of local callees (computed with parameters at their type ranges). usize/isize are 64 bit (explicit assumption).
"""
import q
from facts import strip_generics

TY_RANGE = {
    'u8': (0, 2**8 - 1), 'u16': (0, 2**16 - 1), 'u32': (0, 2**32 - 1), 'u64': (0, 2**64 - 1), 'usize': (0, 2**64 - 1),
    'u128': (0, 2**128 - 1),
    'i8': (-2**7, 2**7 - 1), 'i16': (-2**15, 2**15 - 1), 'i32': (-2**31, 2**31 - 1), 'i64': (-2**63, 2**63 - 1),
    'isize': (-2**63, 2**63 - 1), 'i128': (-2**127, 2**127 - 1), 'bool': (0, 1), 'char': (0, 0x10FFFF),
}
ISIZE_MAX = 2**63 - 1
LEN_CALLEES = ('std::vec::Vec::len', 'core::slice::len', 'std::string::String::len', 'std::collections::HashMap::len',
               'core::str::len', 'std::vec::Vec::capacity', 'std::collections::HashMap::capacity')


def ty_range(ty):
    return TY_RANGE.get(ty)


def fits(rng, ty):
    tr = ty_range(ty)
    return tr is not None and rng is not None and tr[0] <= rng[0] and rng[1] <= tr[1]


def join(a, b):
    if a is None:
        return b
    if b is None:
        return a
    return (min(a[0], b[0]), max(a[1], b[1]))


def arith(op, a, b):
    """result range of a op b computed in Z; None if unknown"""
    if a is None or b is None:
        return None
    op = op.replace('WithOverflow', '').replace('Unchecked', '')
    if op == 'Add':
        return (a[0] + b[0], a[1] + b[1])
    if op == 'Sub':
        return (a[0] - b[1], a[1] - b[0])
    if op == 'Mul':
        c = [a[0] * b[0], a[0] * b[1], a[1] * b[0], a[1] * b[1]]
        return (min(c), max(c))
    if op == 'Div':
        if b[0] <= 0 <= b[1]:
            # divisor may be 0 (separate assert) - bound by |a|
            m = max(abs(a[0]), abs(a[1]))
            return (-m if a[0] < 0 or b[0] < 0 else 0, m)
        c = [int(a[0] / b[0]), int(a[0] / b[1]), int(a[1] / b[0]), int(a[1] / b[1])]
        return (min(c), max(c))
    if op == 'Rem':
        m = max(abs(b[0]), abs(b[1]))
        if m == 0:
            return None
        return (-(m - 1) if a[0] < 0 else 0, m - 1)
    if op == 'Shl':
        if b[0] < 0 or b[1] > 127 or a[0] < 0:
            return None
        return (a[0] << b[0], a[1] << b[1])
    if op == 'Shr':
        if b[0] < 0 or b[1] > 127:
            return None
        if a[0] >= 0:
            return (a[0] >> b[1], a[1] >> b[0])
        return (a[0], a[1])
    if op == 'BitAnd':
        if a[0] >= 0 and b[0] >= 0:
            return (0, min(a[1], b[1]))
        if b[0] >= 0:
            return (0, b[1])
        if a[0] >= 0:
            return (0, a[1])
        return None
    if op in ('BitOr', 'BitXor'):
        if a[0] >= 0 and b[0] >= 0:
            m = max(a[1], b[1])
            bits = m.bit_length()
            return (0, (1 << bits) - 1)
        return None
    if op in ('Eq', 'Ne', 'Lt', 'Le', 'Gt', 'Ge'):
        return (0, 1)
    return None


class Intervals:
    def __init__(self, body, summaries):
        self.body = body
        self.sum = summaries
        self.memo = {}
        self.r = q.res(body)

    def local(self, l, stack=()):
        if l in self.memo:
            return self.memo[l]
        ty = self.body.locals[l]['ty']
        tr = ty_range(ty)
        if l in stack:
            return tr
        ds = self.r.defs.get(l, [])
        out = None
        if 1 <= l <= self.body.arg_count:
            out = tr
        if not ds and out is None:
            out = tr
        for proj, kind, pl, bb in ds:
            if proj:
                out = join(out, tr)
                continue
            if kind == 'rv':
                v = self.rvalue(pl, stack + (l,), ty)
            else:
                v = self.call(pl, stack + (l,), ty)
            if v is None:
                v = tr
            out = join(out, v)
            if out is None:
                break
        if out is not None and tr is not None:
            # a value stored in a typed local always lies in the type range
            out = (max(out[0], tr[0]), min(out[1], tr[1])) if out[0] <= tr[1] and out[1] >= tr[0] else tr
        if not stack:
            self.memo[l] = out
        return out

    def operand(self, op, stack=()):
        if op['k'] == 'const':
            if 'v' in op:
                return (op['v'], op['v'])
            return ty_range(op['ty'])
        p = op['p']
        if not p['p']:
            return self.local(p['l'], stack)
        # projection: tuple field of a checked op -> handled in rvalue users; else type range
        if len(p['p']) == 1 and p['p'][0]['k'] == 'field':
            base_defs = self.r.defs.get(p['l'], [])
            if len(base_defs) == 1 and base_defs[0][1] == 'rv' and base_defs[0][2]['k'] == 'bin' and \
                    base_defs[0][2]['op'].endswith('WithOverflow'):
                rv = base_defs[0][2]
                if p['p'][0]['i'] == 0:
                    v = arith(rv['op'], self.operand(rv['a'], stack), self.operand(rv['b'], stack))
                    tr = ty_range(p['ty'])
                    if v is not None and tr is not None and tr[0] <= v[0] and v[1] <= tr[1]:
                        return v
                    return tr
                return (0, 1)
        return ty_range(p['ty'])

    def rvalue(self, rv, stack, ty):
        k = rv['k']
        if k == 'use':
            return self.operand(rv['op'], stack)
        if k == 'cast':
            src = self.operand(rv['op'], stack)
            to = ty_range(rv['to'])
            if rv['from'] in ('f32', 'f64'):
                return to      # float->int casts saturate
            if src is not None and to is not None and to[0] <= src[0] and src[1] <= to[1]:
                return src
            return to
        if k == 'bin':
            a, b = self.operand(rv['a'], stack), self.operand(rv['b'], stack)
            v = arith(rv['op'], a, b)
            tr = ty_range(ty)
            if rv['op'].endswith('WithOverflow'):
                return None
            if v is None:
                return tr
            if tr is not None and not (tr[0] <= v[0] and v[1] <= tr[1]):
                return tr       # wrapped (or trapped): only the type range is known afterwards
            return v
        if k == 'un':
            if rv['op'] == 'PtrMetadata':
                return (0, ISIZE_MAX)
            if rv['op'] == 'Not':
                return ty_range(ty)
            if rv['op'] == 'Neg':
                a = self.operand(rv['a'], stack)
                return (-a[1], -a[0]) if a else ty_range(ty)
        if k == 'discr':
            return (0, 255)
        return ty_range(ty)

    def call(self, t, stack, ty):
        c = self.body.call_at(self._bb_of(t))
        fn = t.get('fn')
        if not fn:
            return ty_range(ty)
        name = strip_generics(fn.get('res') or fn['orig']) if fn.get('res_local') else strip_generics(fn['orig'])
        args = [self.operand(a, stack) for a in t['args']]
        if name in LEN_CALLEES:
            return (0, ISIZE_MAX)
        if name in ('std::cmp::Ord::min', 'core::cmp::Ord::min') and len(args) == 2 and all(args):
            return (min(args[0][0], args[1][0]), min(args[0][1], args[1][1]))
        if name in ('std::cmp::Ord::max', 'core::cmp::Ord::max') and len(args) == 2 and all(args):
            return (max(args[0][0], args[1][0]), max(args[0][1], args[1][1]))
        if name in ('std::convert::From::from', 'std::convert::Into::into') and args and args[0] is not None:
            tr = ty_range(ty)
            if tr and tr[0] <= args[0][0] and args[0][1] <= tr[1]:
                return args[0]
        s = self.sum.ret(name)
        if s is not None:
            return s
        return ty_range(ty)

    def _bb_of(self, t):
        for i, b in enumerate(self.body.blocks):
            if b['term'] is t:
                return i
        return 0


class Summaries:
    """return-value ranges of local functions, computed with parameters at their type ranges"""

    def __init__(self, fx):
        self.fx = fx
        self.memo = {}
        self.stack = []
        self.iv = {}

    def ret(self, name):
        if name in self.memo:
            return self.memo[name]
        if name in self.stack:
            return None
        bs = self.fx.bodies_named(name)
        if len(bs) != 1 or bs[0].kind not in ('fn',):
            return None
        b = bs[0]
        if ty_range(b.locals[0]['ty']) is None:
            self.memo[name] = None
            return None
        self.stack.append(name)
        try:
            v = self.of(b).local(0)
        finally:
            self.stack.pop()
        self.memo[name] = v
        return v

    def of(self, body):
        k = body.path
        if k not in self.iv:
            self.iv[k] = Intervals(body, self)
        return self.iv[k]


_SUM = {}


def get(fx):
    s = _SUM.get(id(fx))
    if s is None:
        s = Summaries(fx)
        _SUM[id(fx)] = s
    return s
