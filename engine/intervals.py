"""A7 - width-bound domain: a tiny non-relational interval analysis over integer locals of a MIR body.

Flow-insensitive: bound(local) = join over all definitions; loop-carried values are widened to the type range
immediately. Leaves: constants, type ranges, zero/sign-extending casts, Vec::len (<= isize::MAX), return summaries
of local callees (computed with parameters at their type ranges). usize/isize are 64 bit (explicit assumption).
"""
import q
from facts import strip_generics

TY_RANGE = {
    'u8': (0, 2**8 - 1), 'u16': (0, 2**16 - 1), 'u32': (0, 2**32 - 1), 'u64': (0, 2**64 - 1), 'usize': (0, 2**64 - 1),
    'u128': (0, 2**128 - 1),
    'i8': (-2**7, 2**7 - 1), 'i16': (-2**15, 2**15 - 1), 'i32': (-2**31, 2**31 - 1), 'i64': (-2**63, 2**63 - 1),
    'isize': (-2**63, 2**63 - 1), 'i128': (-2**127, 2**127 - 1), 'bool': (0, 1), 'char': (0, 0x10FFFF),
}
ISIZE_MAX = 2**63 - 1
LEN_CALLEES = ('std::vec::Vec::len', 'core::slice::len', 'std::string::String::len', 'std::collections::HashMap::len',
               'core::str::len', 'std::vec::Vec::capacity', 'std::collections::HashMap::capacity')


def ty_range(ty):
    return TY_RANGE.get(ty)


def fits(rng, ty):
    tr = ty_range(ty)
    return tr is not None and rng is not None and tr[0] <= rng[0] and rng[1] <= tr[1]


def join(a, b):
    if a is None:
        return b
    if b is None:
        return a
    return (min(a[0], b[0]), max(a[1], b[1]))


def arith(op, a, b):
    """result range of a op b computed in Z; None if unknown"""
    if a is None or b is None:
        return None
    op = op.replace('WithOverflow', '').replace('Unchecked', '')
    if op == 'Add':
        return (a[0] + b[0], a[1] + b[1])
    if op == 'Sub':
        return (a[0] - b[1], a[1] - b[0])
    if op == 'Mul':
        c = [a[0] * b[0], a[0] * b[1], a[1] * b[0], a[1] * b[1]]
        return (min(c), max(c))
    if op == 'Div':
        if b[0] <= 0 <= b[1]:
            # divisor may be 0 (separate assert) - bound by |a|
            m = max(abs(a[0]), abs(a[1]))
            return (-m if a[0] < 0 or b[0] < 0 else 0, m)
        c = [int(a[0] / b[0]), int(a[0] / b[1]), int(a[1] / b[0]), int(a[1] / b[1])]
        return (min(c), max(c))
    if op == 'Rem':
        m = max(abs(b[0]), abs(b[1]))
        if m == 0:
            return None
        return (-(m - 1) if a[0] < 0 else 0, m - 1)
    if op == 'Shl':
        if b[0] < 0 or b[1] > 127 or a[0] < 0:
            return None
        return (a[0] << b[0], a[1] << b[1])
    if op == 'Shr':
        if b[0] < 0 or b[1] > 127:
            return None
        if a[0] >= 0:
            return (a[0] >> b[1], a[1] >> b[0])
        return (a[0], a[1])
    if op == 'BitAnd':
        if a[0] >= 0 and b[0] >= 0:
            return (0, min(a[1], b[1]))
        if b[0] >= 0:
            return (0, b[1])
        if a[0] >= 0:
            return (0, a[1])
        return None
    if op in ('BitOr', 'BitXor'):
        if a[0] >= 0 and b[0] >= 0:
            m = max(a[1], b[1])
            bits = m.bit_length()
            return (0, (1 << bits) - 1)
        return None
    if op in ('Eq', 'Ne', 'Lt', 'Le', 'Gt', 'Ge'):
        return (0, 1)
    return None


class Intervals:
    def __init__(self, body, summaries):
        self.body = body
        self.sum = summaries
        self.memo = {}
        self.r = q.res(body)

    def local(self, l, stack=()):
        if l in self.memo:
            return self.memo[l]
        ty = self.body.locals[l]['ty']
        tr = ty_range(ty)
        if l in stack:
            return tr
        ds = self.r.defs.get(l, [])
        out = None
        if 1 <= l <= self.body.arg_count:
            out = self.sum.param(self.body, l) if tr is not None else tr
            if out is None:
                out = tr
        if not ds and out is None:
            out = tr
        for proj, kind, pl, bb in ds:
            if proj:
                out = join(out, tr)
                continue
            if kind == 'rv':
                v = self.rvalue(pl, stack + (l,), ty, bb)
            else:
                v = self.call(pl, stack + (l,), ty)
            if v is None:
                v = tr
            out = join(out, v)
            if out is None:
                break
        if out is not None and tr is not None:
            # a value stored in a typed local always lies in the type range
            out = (max(out[0], tr[0]), min(out[1], tr[1])) if out[0] <= tr[1] and out[1] >= tr[0] else tr
        if not stack:
            self.memo[l] = out
        return out

    def root(self, l):
        """follow plain single-definition copies"""
        seen = set()
        while l not in seen:
            seen.add(l)
            ds = self.r.defs.get(l, [])
            if len(ds) == 1 and ds[0][1] == 'rv' and not ds[0][0] and ds[0][2]['k'] == 'use' and ds[0][2]['op']['k'] in ('copy', 'move') \
                    and not ds[0][2]['op']['p']['p'] and not (1 <= l <= self.body.arg_count):
                l = ds[0][2]['op']['p']['l']
            else:
                break
        return l

    def refine(self, l, rng, bb):
        """intersect with dominating comparisons `local <op> const` (the P2 guard shape for scalars)"""
        if rng is None or bb is None:
            return rng
        rl = self.root(l)
        lo, hi = rng
        body = self.body
        for a, s in body.cfg.switches_dominating(bb):
            t = body.blocks[a]['term']
            d = t['discr']
            if d['k'] not in ('copy', 'move') or d['p']['p']:
                continue
            ds = self.r.defs.get(d['p']['l'], [])
            if len(ds) != 1 or ds[0][1] != 'rv' or ds[0][2]['k'] != 'bin':
                continue
            rv = ds[0][2]
            op = rv['op']
            if op not in ('Lt', 'Le', 'Gt', 'Ge', 'Eq', 'Ne'):
                continue
            A, B = rv['a'], rv['b']

            def single(o):
                if o['k'] == 'const':
                    return o.get('v')
                if o['k'] in ('copy', 'move') and not o['p']['p'] and self.root(o['p']['l']) != rl:
                    v = self.local(o['p']['l'], (rl, l))
                    if v is not None and v[0] == v[1]:
                        return v[0]
                return None
            crange = None
            if A['k'] in ('copy', 'move') and not A['p']['p'] and self.root(A['p']['l']) == rl and single(B) is not None:
                c = single(B)
            elif B['k'] in ('copy', 'move') and not B['p']['p'] and self.root(B['p']['l']) == rl and single(A) is not None:
                c = single(A)
                op = {'Lt': 'Gt', 'Le': 'Ge', 'Gt': 'Lt', 'Ge': 'Le', 'Eq': 'Eq', 'Ne': 'Ne'}[op]
            elif A['k'] in ('copy', 'move') and not A['p']['p'] and self.root(A['p']['l']) == rl and B['k'] in ('copy', 'move') \
                    and not B['p']['p'] and self.root(B['p']['l']) != rl:
                crange = self.local(B['p']['l'], (rl, l))
                c = None
            elif B['k'] in ('copy', 'move') and not B['p']['p'] and self.root(B['p']['l']) == rl and A['k'] in ('copy', 'move') \
                    and not A['p']['p'] and self.root(A['p']['l']) != rl:
                crange = self.local(A['p']['l'], (rl, l))
                c = None
                op = {'Lt': 'Gt', 'Le': 'Ge', 'Gt': 'Lt', 'Ge': 'Le', 'Eq': 'Eq', 'Ne': 'Ne'}[op]
            else:
                continue
            if c is None:
                if crange is None:
                    continue
                # relational guard against a value known only by its range: x < y implies x <= hi(y) - 1, etc.
                vals = q.edge_value(body, a, s)
                truth = q.bool_outcome(body, a, vals)
                if truth is None:
                    continue
                if not truth:
                    op = {'Lt': 'Ge', 'Le': 'Gt', 'Gt': 'Le', 'Ge': 'Lt', 'Eq': 'Ne', 'Ne': 'Eq'}[op]
                if op == 'Lt':
                    hi = min(hi, crange[1] - 1)
                elif op == 'Le':
                    hi = min(hi, crange[1])
                elif op == 'Gt':
                    lo = max(lo, crange[0] + 1)
                elif op == 'Ge':
                    lo = max(lo, crange[0])
                elif op == 'Eq':
                    lo, hi = max(lo, crange[0]), min(hi, crange[1])
                continue
            vals = q.edge_value(body, a, s)
            truth = q.bool_outcome(body, a, vals)
            if truth is None:
                continue
            if not truth:
                op = {'Lt': 'Ge', 'Le': 'Gt', 'Gt': 'Le', 'Ge': 'Lt', 'Eq': 'Ne', 'Ne': 'Eq'}[op]
            if op == 'Lt':
                hi = min(hi, c - 1)
            elif op == 'Le':
                hi = min(hi, c)
            elif op == 'Gt':
                lo = max(lo, c + 1)
            elif op == 'Ge':
                lo = max(lo, c)
            elif op == 'Eq':
                lo, hi = max(lo, c), min(hi, c)
            elif op == 'Ne':
                if lo == c:
                    lo = c + 1
                if hi == c:
                    hi = c - 1
        if lo > hi:
            return rng
        return (lo, hi)

    def operand(self, op, stack=(), bb=None):
        if op['k'] == 'const':
            if 'v' in op:
                return (op['v'], op['v'])
            return ty_range(op['ty'])
        p = op['p']
        if not p['p']:
            return self.refine(p['l'], self.local(p['l'], stack), bb)
        lv = self.loop_var(op, stack)
        if lv is not None:
            return self.refine_term(op, lv, bb)
        ev = self.enumerate_item(op, stack)
        if ev is not None:
            return ev
        # success payload of a Result/Option/ControlFlow-typed local:  (x as Ok|Some|Continue).0
        if len(p['p']) == 2 and p['p'][0]['k'] == 'downcast' and p['p'][0].get('v') in ('Ok', 'Some', 'Continue') and \
                p['p'][1]['k'] == 'field' and p['p'][1]['i'] == 0:
            v = self.payload(p['l'], stack)
            tr = ty_range(p['ty'])
            if v is not None and tr is not None and tr[0] <= v[0] and v[1] <= tr[1]:
                return v
            return tr
        # projection: tuple field of a checked op -> handled in rvalue users; else type range
        if len(p['p']) == 1 and p['p'][0]['k'] == 'field':
            base_defs = self.r.defs.get(p['l'], [])
            if len(base_defs) == 1 and base_defs[0][1] == 'rv' and base_defs[0][2]['k'] == 'bin' and \
                    base_defs[0][2]['op'].endswith('WithOverflow'):
                rv = base_defs[0][2]
                if p['p'][0]['i'] == 0:
                    dbb = base_defs[0][3]
                    v = arith(rv['op'], self.operand(rv['a'], stack, dbb), self.operand(rv['b'], stack, dbb))
                    if rv['op'].startswith('Sub') and v is not None:
                        rs = self.relational_sub(rv, stack, dbb)
                        if rs is not None:
                            v = (max(v[0], rs[0]), min(v[1], rs[1]))
                    tr = ty_range(p['ty'])
                    if v is not None and tr is not None and tr[0] <= v[0] and v[1] <= tr[1]:
                        return v
                    return tr
                return (0, 1)
        return ty_range(p['ty'])

    def payload(self, l, stack=(), depth=0):
        """range of the success payload carried by a wrapper-typed local (Ok(v) / Some(v) / Continue(v)), following moves and
        Try::branch; None when unknown.  Failure variants carry no payload and are skipped."""
        if depth > 6 or ('pay', l) in stack:
            return None
        ds = self.r.defs.get(l, [])
        if not ds or (1 <= l <= self.body.arg_count):
            return None
        out = None
        for proj, kind, pl, bb in ds:
            if proj:
                return None
            v = None
            if kind == 'rv':
                if pl['k'] == 'agg' and pl.get('ak') == 'adt' and pl.get('variant') in ('Ok', 'Some', 'Continue') and len(pl.get('ops', [])) == 1:
                    v = self.operand(pl['ops'][0], stack + (('pay', l),), bb)
                    if v is None:
                        return None
                elif pl['k'] == 'agg' and pl.get('ak') == 'adt' and pl.get('variant') in ('Err', 'None', 'Break'):
                    continue
                elif pl['k'] == 'use' and pl['op']['k'] in ('move', 'copy') and not pl['op']['p']['p']:
                    v = self.payload(pl['op']['p']['l'], stack + (('pay', l),), depth + 1)
                    if v is None:
                        return None
                else:
                    return None
            else:
                fn = pl.get('fn') or {}
                nm = fn.get('orig', '')
                if nm.endswith('Try::branch') and len(pl['args']) == 1 and pl['args'][0]['k'] in ('move', 'copy') and not pl['args'][0]['p']['p']:
                    v = self.payload(pl['args'][0]['p']['l'], stack + (('pay', l),), depth + 1)
                    if v is None:
                        return None
                elif nm.endswith('from_residual'):
                    continue
                else:
                    return None
            out = join(out, v)
        return out

    def range_of_loopvar(self, term, stack):
        """(lo, hi, start_term, end_term) for a term next(into_iter(Range{start,end}))"""
        from terms import strip_casts
        t = strip_casts(term)
        if not (isinstance(t, tuple) and t[0] == 'next'):
            return None
        src = q.unwrap_into_iter(t[1])
        if not (src[0] == 'agg' and src[1] == 'std::ops::Range'):
            return None
        # locate the aggregate statement to get typed operands
        for bi, blk in enumerate(self.body.blocks):
            for st in blk['stmts']:
                if st['k'] == 'assign' and st['rv']['k'] == 'agg' and st['rv'].get('adt', '').endswith('ops::Range'):
                    if self.r.rvalue(st['rv'], (), bi) == src:
                        a = self.operand(st['rv']['ops'][0], stack, bi)
                        b = self.operand(st['rv']['ops'][1], stack, bi)
                        if a is None or b is None:
                            return None
                        f = dict(src[3])
                        return (a[0], max(a[0], b[1] - 1), f['start'], f['end'])
        return None

    def loop_var(self, op, stack):
        p = op['p']
        if not p['p']:
            return None
        if [e['k'] for e in p['p']] not in (['downcast', 'field'],):
            return None
        t = self.r.operand(op)
        r_ = self.range_of_loopvar(t, stack)
        if r_ is None:
            return None
        return (r_[0], r_[1])

    def enumerate_item(self, op, stack):
        """`for (i, v) in (S..E).enumerate()`: v ranges like the loop variable of S..E; the position i lies in [0, E-S-1], and
        with E = S + X (X widened from a narrower type) in [0, max(X)-1] - the same relational step as relational_sub"""
        from terms import strip_casts, casts_on
        p = op['p']
        if [e['k'] for e in p['p']] != ['downcast', 'field', 'field']:
            return None
        t = self.r.operand(op)
        if not (isinstance(t, tuple) and t[0] == 'field' and t[2] in ('0', '1') and t[1][0] == 'next'):
            return None
        en = q.unwrap_into_iter(t[1][1])
        if not (en[0] == 'call' and en[1] == 'std::iter::Iterator::enumerate' and len(en[2]) == 1):
            return None
        r_ = self.range_of_loopvar(('next', en[2][0]), stack)
        if r_ is None:
            return None
        lo, hi, S, E = r_
        tr = ty_range(p['ty'])
        if t[2] == '1':
            v = (lo, hi)
        else:
            v = (0, max(0, hi - lo))
            Es, Ss = strip_casts(E), strip_casts(S)
            if Es[0] == 'bin' and Es[1] == 'Add':
                for x, y in ((Es[2], Es[3]), (Es[3], Es[2])):
                    if strip_casts(x) == Ss:
                        cs, inner = casts_on(y)
                        xr = ty_range(cs[-1][0]) if cs else None
                        if xr is not None:
                            v = (0, max(0, xr[1] - 1))
        if tr is not None and tr[0] <= v[0] and v[1] <= tr[1]:
            return v
        return tr

    def refine_term(self, op, rng, bb):
        return rng

    def relational_sub(self, rv, stack, bb):
        """Sub(loop variable of S..E, S) lies in [0, E-S-1]; with E = S + X that is [0, hi(X)-1]"""
        from terms import strip_casts, casts_on
        ta = strip_casts(self.r.operand(rv['a']))
        tb = strip_casts(self.r.operand(rv['b']))
        r_ = self.range_of_loopvar(ta, stack)
        if r_ is None:
            return None
        lo, hi, S, E = r_

        def args_of(t, fn):
            t = strip_casts(t)
            if t[0] == 'call' and t[1].split('::')[-1] == fn and t[1].startswith(('std::cmp::', 'core::cmp::')) and len(t[2]) == 2:
                return [strip_casts(a) for a in t[2]]
            return [t]
        # the range may have been clipped: v in max(S0, _) .. min(S0 + X, _) still gives 0 <= v - S0 < X
        starts = args_of(S, 'max')
        ends = args_of(E, 'min')
        if tb not in starts:
            return None
        clipped = len(starts) > 1 or len(ends) > 1
        for Es in ends:
            if Es[0] == 'bin' and Es[1] == 'Add':
                for x, y in ((Es[2], Es[3]), (Es[3], Es[2])):
                    if strip_casts(x) == tb:
                        cs, inner = casts_on(y)
                        if cs:
                            tr = ty_range(cs[-1][0])
                            if tr is not None:
                                return (0, max(0, tr[1] - 1))
        if clipped:
            return None
        return (0, max(0, hi - lo)) if hi >= lo else None

    def rvalue(self, rv, stack, ty, bb=None):
        k = rv['k']
        if k == 'use':
            return self.operand(rv['op'], stack, bb)
        if k == 'cast':
            src = self.operand(rv['op'], stack, bb)
            to = ty_range(rv['to'])
            if rv['from'] in ('f32', 'f64'):
                return to      # float->int casts saturate
            if src is not None and to is not None and to[0] <= src[0] and src[1] <= to[1]:
                return src
            return to
        if k == 'bin':
            a, b = self.operand(rv['a'], stack, bb), self.operand(rv['b'], stack, bb)
            v = arith(rv['op'], a, b)
            if rv['op'].startswith('Sub'):
                rs = self.relational_sub(rv, stack, bb)
                if rs is not None and v is not None:
                    v = (max(v[0], rs[0]), min(v[1], rs[1]))
            tr = ty_range(ty)
            if rv['op'].endswith('WithOverflow'):
                return None
            if v is None:
                return tr
            if tr is not None and not (tr[0] <= v[0] and v[1] <= tr[1]):
                return tr       # wrapped (or trapped): only the type range is known afterwards
            return v
        if k == 'un':
            if rv['op'] == 'PtrMetadata':
                return (0, ISIZE_MAX)
            if rv['op'] == 'Not':
                return ty_range(ty)
            if rv['op'] == 'Neg':
                a = self.operand(rv['a'], stack)
                return (-a[1], -a[0]) if a else ty_range(ty)
        if k == 'discr':
            return (0, 255)
        return ty_range(ty)

    def call(self, t, stack, ty):
        c = self.body.call_at(self._bb_of(t))
        fn = t.get('fn')
        if not fn:
            return ty_range(ty)
        name = strip_generics(fn.get('res') or fn['orig']) if fn.get('res_local') else strip_generics(fn['orig'])
        cbb = self._bb_of(t)
        args = [self.operand(a, stack, cbb) for a in t['args']]
        if name in LEN_CALLEES:
            return (0, ISIZE_MAX)
        if name in ('std::cmp::Ord::min', 'core::cmp::Ord::min', 'std::cmp::min', 'core::cmp::min') and len(args) == 2 and all(args):
            return (min(args[0][0], args[1][0]), min(args[0][1], args[1][1]))
        if name in ('std::cmp::Ord::max', 'core::cmp::Ord::max', 'std::cmp::max', 'core::cmp::max') and len(args) == 2 and all(args):
            return (max(args[0][0], args[1][0]), max(args[0][1], args[1][1]))
        if name in ('std::cmp::Ord::clamp', 'core::cmp::Ord::clamp') and len(args) == 3 and args[1] is not None and args[2] is not None:
            return (args[1][0], max(args[1][0], args[2][1]))
        if name in ('std::convert::From::from', 'std::convert::Into::into') and args and args[0] is not None:
            tr = ty_range(ty)
            if tr and tr[0] <= args[0][0] and args[0][1] <= tr[1]:
                return args[0]
        s = self.sum.ret(name)
        if s is not None:
            return s
        return ty_range(ty)

    def _bb_of(self, t):
        for i, b in enumerate(self.body.blocks):
            if b['term'] is t:
                return i
        return 0


class Summaries:
    """return-value ranges of local functions, computed with parameters at their type ranges"""

    def __init__(self, fx):
        self.fx = fx
        self.memo = {}
        self.stack = []
        self.iv = {}
        self.pmemo = {}
        self.pstack = set()
        self.asvalue = {}

    def ret(self, name):
        if name in self.memo:
            return self.memo[name]
        if name in self.stack:
            return None
        bs = self.fx.bodies_named(name)
        if len(bs) != 1 or bs[0].kind not in ('fn',):
            return None
        b = bs[0]
        if ty_range(b.locals[0]['ty']) is None:
            self.memo[name] = None
            return None
        self.stack.append(name)
        try:
            v = self.of(b).local(0)
        finally:
            self.stack.pop()
        self.memo[name] = v
        return v

    def param(self, body, idx):
        """range of parameter idx of a crate-internal function = join over its call sites (type range if exported,
        a closure, or without known callers)"""
        key = (body.path, idx)
        if key in self.pmemo:
            return self.pmemo[key]
        tr = ty_range(body.locals[idx]['ty'])
        if tr is None or body.kind != 'fn' or body.exported or key in self.pstack:
            return tr
        self.pstack.add(key)
        try:
            out = None
            n = 0
            for cb in self.fx.bodies:
                if cb.kind == 'promoted':
                    continue
                for c in q.calls(cb):
                    lb = c.local_body()
                    if lb is not body:
                        continue
                    n += 1
                    if idx - 1 >= len(c.args):
                        out = tr
                        continue
                    v = self.of(cb).operand(c.args[idx - 1], (), c.bb)
                    out = join(out, v if v is not None else tr)
            # a function used as a value (fn item) may be called from anywhere
            if n == 0 or self._used_as_value(body):
                out = tr
        finally:
            self.pstack.discard(key)
        if out is None:
            out = tr
        self.pmemo[key] = out
        return out

    def _used_as_value(self, body):
        if body.path in self.asvalue:
            return self.asvalue[body.path]
        used = False
        for cb in self.fx.bodies:
            for bi, blk in enumerate(cb.blocks):
                ops = []
                for st in blk['stmts']:
                    if st['k'] == 'assign':
                        ops += q.rv_operands(st['rv'])
                t = blk['term']
                if t and t['k'] == 'call':
                    ops += t['args']
                for op in ops:
                    if op.get('k') == 'const' and op.get('fn') and (op['fn'].get('res') == body.path or op['fn'].get('orig') == body.path):
                        used = True
        self.asvalue[body.path] = used
        return used

    def of(self, body):
        k = body.path
        if k not in self.iv:
            self.iv[k] = Intervals(body, self)
        return self.iv[k]


_SUM = {}


def get(fx):
    s = _SUM.get(id(fx))
    if s is None:
        s = Summaries(fx)
        _SUM[id(fx)] = s
    return s
