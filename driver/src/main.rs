// asemir: a rustc_private driver that serialises the type-checked program (MIR, ADTs,
// HIR-level facts) of the crate being compiled to one JSON file. It judges nothing.
//
// Use as RUSTC_WORKSPACE_WRAPPER: argv = [asemir, /path/to/rustc, rustc-args...].
// Output: $ASEMIR_OUT/<crate_name>.json  (single write per process).
#![feature(rustc_private)]
#![allow(clippy::all)]

extern crate rustc_abi;
extern crate rustc_driver;
extern crate rustc_hir;
extern crate rustc_interface;
extern crate rustc_middle;
extern crate rustc_session;
extern crate rustc_span;

mod json;
mod mirdump;
mod items;

use rustc_driver::Compilation;
use rustc_interface::interface::Compiler;
use rustc_middle::ty::TyCtxt;

struct Cb;

impl rustc_driver::Callbacks for Cb {
    fn after_analysis<'tcx>(&mut self, _c: &Compiler, tcx: TyCtxt<'tcx>) -> Compilation {
        let out_dir = match std::env::var("ASEMIR_OUT") {
            Ok(d) => d,
            Err(_) => return Compilation::Continue,
        };
        let krate = tcx.crate_name(rustc_hir::def_id::LOCAL_CRATE).to_string();
        if let Ok(only) = std::env::var("ASEMIR_ONLY") {
            if !only.split(',').any(|c| c == krate) {
                return Compilation::Continue;
            }
        }
        let j = items::dump_crate(tcx, &krate);
        let mut s = String::with_capacity(8 << 20);
        j.write(&mut s);
        let path = format!("{}/{}.json", out_dir, krate);
        std::fs::write(&path, s).expect("asemir: cannot write fact file");
        Compilation::Continue
    }
}

fn main() {
    let mut args: Vec<String> = std::env::args().collect();
    // wrapper mode: argv[1] is the real rustc path
    if args.len() > 1 && (args[1].ends_with("rustc") || args[1].contains("/rustc")) {
        args.remove(1);
    }
    let mut cb = Cb;
    rustc_driver::run_compiler(&args, &mut cb);
}
