// Serialise one MIR body.
use crate::json::J;
use rustc_hir::def::DefKind;
use rustc_hir::def_id::DefId;
use rustc_middle::mir::*;
use rustc_middle::ty::{self, GenericArgsRef, Instance, Ty, TyCtxt, TypeVisitableExt, TypingEnv};
use rustc_span::{ExpnKind, Span};

pub struct Cx<'tcx> {
    pub tcx: TyCtxt<'tcx>,
    pub env: TypingEnv<'tcx>,
    pub body: &'tcx Body<'tcx>,
}

pub fn span_str(tcx: TyCtxt<'_>, sp: Span) -> String {
    let sm = tcx.sess.source_map();
    // the user-code position: outermost call site of any expansion
    let sp = sp.source_callsite();
    let lo = sm.lookup_char_pos(sp.lo());
    let file = match &lo.file.name {
        rustc_span::FileName::Real(r) => match r.local_path() {
            Some(p) => p.to_string_lossy().to_string(),
            None => format!("{:?}", r),
        },
        other => format!("{:?}", other),
    };
    format!("{}:{}:{}", file, lo.line, lo.col.0 + 1)
}

pub fn span_lines(tcx: TyCtxt<'_>, sp: Span) -> J {
    let sm = tcx.sess.source_map();
    let sp = sp.source_callsite();
    let lo = sm.lookup_char_pos(sp.lo());
    let hi = sm.lookup_char_pos(sp.hi());
    J::Arr(vec![J::Int(lo.line as i128), J::Int(hi.line as i128)])
}

pub fn macro_chain(sp: Span) -> J {
    let mut v = Vec::new();
    let mut cur = sp;
    let mut n = 0;
    while cur.from_expansion() && n < 16 {
        let ed = cur.ctxt().outer_expn_data();
        match ed.kind {
            ExpnKind::Macro(_, name) => v.push(J::s(name.to_string())),
            ExpnKind::Desugaring(k) => v.push(J::s(format!("desugar:{:?}", k))),
            ExpnKind::AstPass(k) => v.push(J::s(format!("astpass:{:?}", k))),
            ExpnKind::Root => {}
        }
        cur = ed.call_site;
        n += 1;
    }
    J::Arr(v)
}

pub fn path_of(tcx: TyCtxt<'_>, did: DefId) -> String {
    let krate = tcx.crate_name(did.krate).to_string();
    let p = tcx.def_path_str(did);
    if did.is_local() {
        format!("{}::{}", krate, p)
    } else {
        p
    }
}

impl<'tcx> Cx<'tcx> {
    fn ty_s(&self, t: Ty<'tcx>) -> J {
        J::s(t.to_string())
    }

    fn size_of(&self, t: Ty<'tcx>) -> J {
        if t.has_non_region_param() {
            return J::Null;
        }
        match self.tcx.layout_of(self.env.as_query_input(t)) {
            Ok(l) => J::Int(l.size.bytes() as i128),
            Err(_) => J::Null,
        }
    }

    fn place(&self, p: &Place<'tcx>) -> J {
        let mut pty = PlaceTy::from_ty(self.body.local_decls[p.local].ty);
        let mut proj = Vec::new();
        for elem in p.projection.iter() {
            let mut e = J::obj();
            match elem {
                ProjectionElem::Deref => e.set("k", J::s("deref")),
                ProjectionElem::Field(f, fty) => {
                    e.set("k", J::s("field"));
                    e.set("i", J::Int(f.as_usize() as i128));
                    e.set("ty", self.ty_s(fty));
                    let name = match pty.ty.kind() {
                        ty::Adt(adt, _) => {
                            let v = match pty.variant_index {
                                Some(vi) => adt.variant(vi),
                                None => adt.non_enum_variant(),
                            };
                            Some(v.fields[f].name.to_string())
                        }
                        _ => None,
                    };
                    e.set("n", J::opt_s(name));
                }
                ProjectionElem::Downcast(name, vi) => {
                    e.set("k", J::s("downcast"));
                    e.set("vi", J::Int(vi.as_usize() as i128));
                    let nm = match pty.ty.kind() {
                        ty::Adt(adt, _) => Some(adt.variant(vi).name.to_string()),
                        _ => name.map(|s| s.to_string()),
                    };
                    e.set("v", J::opt_s(nm));
                }
                ProjectionElem::Index(l) => {
                    e.set("k", J::s("index"));
                    e.set("l", J::Int(l.as_usize() as i128));
                }
                ProjectionElem::ConstantIndex { offset, min_length, from_end } => {
                    e.set("k", J::s("constindex"));
                    e.set("offset", J::Int(offset as i128));
                    e.set("min_length", J::Int(min_length as i128));
                    e.set("from_end", J::Bool(from_end));
                }
                ProjectionElem::Subslice { from, to, from_end } => {
                    e.set("k", J::s("subslice"));
                    e.set("from", J::Int(from as i128));
                    e.set("to", J::Int(to as i128));
                    e.set("from_end", J::Bool(from_end));
                }
                other => {
                    e.set("k", J::s("other"));
                    e.set("s", J::s(format!("{:?}", other)));
                }
            }
            pty = pty.projection_ty(self.tcx, elem);
            proj.push(e);
        }
        J::obj()
            .put("l", J::Int(p.local.as_usize() as i128))
            .put("p", J::Arr(proj))
            .put("ty", self.ty_s(pty.ty))
    }

    fn fn_ref(&self, did: DefId, args: GenericArgsRef<'tcx>) -> J {
        let tcx = self.tcx;
        let mut o = J::obj();
        o.set("orig", J::s(path_of(tcx, did)));
        o.set("orig_local", J::Bool(did.is_local()));
        let mut ga = Vec::new();
        let mut gsz = Vec::new();
        for a in args.iter() {
            ga.push(J::s(a.to_string()));
            match a.as_type() {
                Some(t) => gsz.push(self.size_of(t)),
                None => gsz.push(J::Null),
            }
        }
        o.set("args", J::Arr(ga));
        o.set("arg_sizes", J::Arr(gsz));
        // trait method?
        if let Some(tr) = tcx.trait_of_assoc(did) {
            o.set("trait", J::s(path_of(tcx, tr)));
            o.set("method", J::s(tcx.item_name(did).to_string()));
        }
        let is_fn_like = matches!(tcx.def_kind(did), DefKind::Fn | DefKind::AssocFn);
        if is_fn_like {
            if let Ok(Some(inst)) = Instance::try_resolve(tcx, self.env, did, args) {
                let rd = inst.def_id();
                o.set("res", J::s(path_of(tcx, rd)));
                o.set("res_local", J::Bool(rd.is_local()));
                o.set("res_kind", J::s(format!("{:?}", inst.def).split('(').next().unwrap_or("").to_string()));
                let mut ra = Vec::new();
                for a in inst.args.iter() {
                    ra.push(J::s(a.to_string()));
                }
                o.set("res_args", J::Arr(ra));
            }
        }
        if matches!(tcx.def_kind(did), DefKind::Closure) {
            o.set("closure", J::Bool(true));
        }
        if matches!(tcx.def_kind(did), DefKind::Ctor(..)) {
            o.set("ctor", J::Bool(true));
            // constructor of which variant / adt
            let parent = tcx.parent(did);
            o.set("ctor_of", J::s(path_of(tcx, parent)));
        }
        o
    }

    fn const_(&self, c: &ConstOperand<'tcx>) -> J {
        let tcx = self.tcx;
        let ty = c.const_.ty();
        let mut o = J::obj().put("k", J::s("const")).put("ty", self.ty_s(ty));
        match ty.kind() {
            ty::FnDef(did, args) => {
                o.set("fn", self.fn_ref(*did, args));
            }
            ty::Closure(did, _) => {
                o.set("closure_def", J::s(path_of(tcx, *did)));
            }
            _ => {
                if ty.is_integral() || ty.is_bool() || ty.is_char() {
                    if let Some(si) = c.const_.try_eval_scalar_int(tcx, self.env) {
                        let size = si.size();
                        let v: i128 = if ty.is_signed() {
                            si.to_int(size)
                        } else {
                            si.to_uint(size) as i128
                        };
                        o.set("v", J::Int(v));
                    }
                }
                o.set("s", J::s(format!("{}", c.const_)));
                // named constant / static referenced?
                if let Const::Unevaluated(uv, _) = c.const_ {
                    match uv.promoted {
                        Some(p) => o.set(
                            "promoted",
                            J::s(format!("{}::promoted[{}]", path_of(tcx, uv.def), p.as_usize())),
                        ),
                        None => o.set("const_def", J::s(path_of(tcx, uv.def))),
                    }
                }
                if let Some(did) = c.check_static_ptr(tcx) {
                    o.set("static_def", J::s(path_of(tcx, did)));
                }
            }
        }
        o
    }

    fn operand(&self, op: &Operand<'tcx>) -> J {
        match op {
            Operand::Copy(p) => J::obj().put("k", J::s("copy")).put("p", self.place(p)),
            Operand::Move(p) => J::obj().put("k", J::s("move")).put("p", self.place(p)),
            Operand::Constant(c) => self.const_(c),
            #[allow(unreachable_patterns)]
            other => J::obj().put("k", J::s("otherop")).put("s", J::s(format!("{:?}", other))),
        }
    }

    fn rvalue(&self, rv: &Rvalue<'tcx>) -> J {
        let tcx = self.tcx;
        match rv {
            Rvalue::Use(op, ..) => J::obj().put("k", J::s("use")).put("op", self.operand(op)),
            Rvalue::Repeat(op, n) => J::obj()
                .put("k", J::s("repeat"))
                .put("op", self.operand(op))
                .put("n", J::s(n.to_string())),
            Rvalue::Ref(_, bk, p) => J::obj()
                .put("k", J::s("ref"))
                .put("mut", J::Bool(matches!(bk, BorrowKind::Mut { .. })))
                .put("p", self.place(p)),
            Rvalue::RawPtr(_, p) => J::obj().put("k", J::s("rawptr")).put("p", self.place(p)),
            Rvalue::Cast(ck, op, to) => J::obj()
                .put("k", J::s("cast"))
                .put("ck", J::s(format!("{:?}", ck)))
                .put("op", self.operand(op))
                .put("from", self.ty_s(op.ty(&self.body.local_decls, tcx)))
                .put("to", self.ty_s(*to)),
            Rvalue::BinaryOp(bop, ab) => J::obj()
                .put("k", J::s("bin"))
                .put("op", J::s(format!("{:?}", bop)))
                .put("a", self.operand(&ab.0))
                .put("b", self.operand(&ab.1))
                .put("aty", self.ty_s(ab.0.ty(&self.body.local_decls, tcx))),
            Rvalue::UnaryOp(uop, op) => J::obj()
                .put("k", J::s("un"))
                .put("op", J::s(format!("{:?}", uop)))
                .put("a", self.operand(op))
                .put("aty", self.ty_s(op.ty(&self.body.local_decls, tcx))),
            Rvalue::Discriminant(p) => {
                let pty = p.ty(&self.body.local_decls, tcx).ty;
                let mut vars = Vec::new();
                if let ty::Adt(adt, _) = pty.kind() {
                    if adt.is_enum() {
                        for (vi, d) in adt.discriminants(tcx) {
                            vars.push(J::Arr(vec![
                                J::s(adt.variant(vi).name.to_string()),
                                J::Int(d.val as i128),
                            ]));
                        }
                    }
                }
                J::obj()
                    .put("k", J::s("discr"))
                    .put("p", self.place(p))
                    .put("variants", J::Arr(vars))
            }
            Rvalue::Aggregate(kind, ops) => {
                let mut o = J::obj().put("k", J::s("agg"));
                match &**kind {
                    AggregateKind::Array(t) => {
                        o.set("ak", J::s("array"));
                        o.set("elem", self.ty_s(*t));
                    }
                    AggregateKind::Tuple => o.set("ak", J::s("tuple")),
                    AggregateKind::Adt(did, vi, _args, _, _) => {
                        o.set("ak", J::s("adt"));
                        let adt = tcx.adt_def(*did);
                        o.set("adt", J::s(path_of(tcx, *did)));
                        let v = adt.variant(*vi);
                        o.set("variant", J::s(v.name.to_string()));
                        o.set(
                            "fields",
                            J::Arr(v.fields.iter().map(|f| J::s(f.name.to_string())).collect()),
                        );
                    }
                    AggregateKind::Closure(did, _) => {
                        o.set("ak", J::s("closure"));
                        o.set("closure_def", J::s(path_of(tcx, *did)));
                    }
                    other => {
                        o.set("ak", J::s("other"));
                        o.set("s", J::s(format!("{:?}", other)));
                    }
                }
                o.set("ops", J::Arr(ops.iter().map(|x| self.operand(x)).collect()));
                o
            }
            Rvalue::CopyForDeref(p) => J::obj().put("k", J::s("copyforderef")).put("p", self.place(p)),
            other => J::obj().put("k", J::s("other")).put("s", J::s(format!("{:?}", other))),
        }
    }

    fn assert_msg(&self, m: &AssertMessage<'tcx>) -> J {
        match m {
            AssertKind::BoundsCheck { len, index } => J::obj()
                .put("k", J::s("BoundsCheck"))
                .put("len", self.operand(len))
                .put("index", self.operand(index)),
            AssertKind::Overflow(op, a, b) => J::obj()
                .put("k", J::s("Overflow"))
                .put("op", J::s(format!("{:?}", op)))
                .put("a", self.operand(a))
                .put("b", self.operand(b)),
            AssertKind::OverflowNeg(a) => J::obj().put("k", J::s("OverflowNeg")).put("a", self.operand(a)),
            AssertKind::DivisionByZero(a) => J::obj().put("k", J::s("DivisionByZero")).put("a", self.operand(a)),
            AssertKind::RemainderByZero(a) => J::obj().put("k", J::s("RemainderByZero")).put("a", self.operand(a)),
            other => J::obj().put("k", J::s("Other")).put("s", J::s(format!("{:?}", other))),
        }
    }

    fn unwind(&self, u: &UnwindAction) -> J {
        match u {
            UnwindAction::Cleanup(bb) => J::Int(bb.as_usize() as i128),
            _ => J::Null,
        }
    }

    fn terminator(&self, t: &Terminator<'tcx>) -> J {
        let tcx = self.tcx;
        let mut o = match &t.kind {
            TerminatorKind::Goto { target } => J::obj()
                .put("k", J::s("goto"))
                .put("target", J::Int(target.as_usize() as i128)),
            TerminatorKind::SwitchInt { discr, targets } => {
                let dty = discr.ty(&self.body.local_decls, tcx);
                let mut tv = Vec::new();
                for (v, bb) in targets.iter() {
                    // interpret as signed if the discriminant type is signed
                    let val: i128 = if dty.is_signed() {
                        let bits = dty.primitive_size(tcx).bits();
                        let sh = 128 - bits;
                        ((v << sh) as i128) >> sh
                    } else {
                        v as i128
                    };
                    tv.push(J::Arr(vec![J::Int(val), J::Int(bb.as_usize() as i128)]));
                }
                J::obj()
                    .put("k", J::s("switch"))
                    .put("discr", self.operand(discr))
                    .put("ty", self.ty_s(dty))
                    .put("targets", J::Arr(tv))
                    .put("otherwise", J::Int(targets.otherwise().as_usize() as i128))
            }
            TerminatorKind::Return => J::obj().put("k", J::s("return")),
            TerminatorKind::Unreachable => J::obj().put("k", J::s("unreachable")),
            TerminatorKind::UnwindResume => J::obj().put("k", J::s("resume")),
            TerminatorKind::UnwindTerminate(_) => J::obj().put("k", J::s("terminate")),
            TerminatorKind::Drop { place, target, unwind, .. } => J::obj()
                .put("k", J::s("drop"))
                .put("p", self.place(place))
                .put("target", J::Int(target.as_usize() as i128))
                .put("unwind", self.unwind(unwind)),
            TerminatorKind::Call { func, args, destination, target, unwind, .. } => {
                let mut c = J::obj().put("k", J::s("call"));
                let fty = func.ty(&self.body.local_decls, tcx);
                match fty.kind() {
                    ty::FnDef(did, ga) => c.set("fn", self.fn_ref(*did, ga)),
                    _ => {
                        c.set("fn", J::Null);
                        c.set("indirect", self.operand(func));
                        c.set("fnty", self.ty_s(fty));
                    }
                }
                c.set("args", J::Arr(args.iter().map(|a| self.operand(&a.node)).collect()));
                c.set("dest", self.place(destination));
                c.set(
                    "target",
                    match target {
                        Some(bb) => J::Int(bb.as_usize() as i128),
                        None => J::Null,
                    },
                );
                c.set("unwind", self.unwind(unwind));
                c
            }
            TerminatorKind::Assert { cond, expected, msg, target, unwind } => J::obj()
                .put("k", J::s("assert"))
                .put("cond", self.operand(cond))
                .put("expected", J::Bool(*expected))
                .put("msg", self.assert_msg(msg))
                .put("target", J::Int(target.as_usize() as i128))
                .put("unwind", self.unwind(unwind)),
            other => J::obj().put("k", J::s("otherterm")).put("s", J::s(format!("{:?}", other))),
        };
        o.set("span", J::s(span_str(tcx, t.source_info.span)));
        o.set("macros", macro_chain(t.source_info.span));
        o
    }

    pub fn dump(&self) -> J {
        let tcx = self.tcx;
        let body = self.body;
        let mut names: Vec<Option<String>> = vec![None; body.local_decls.len()];
        for vdi in body.var_debug_info.iter() {
            if let VarDebugInfoContents::Place(p) = &vdi.value {
                if p.projection.is_empty() {
                    names[p.local.as_usize()] = Some(vdi.name.to_string());
                }
            }
        }
        let mut locals = Vec::new();
        for (l, d) in body.local_decls.iter_enumerated() {
            locals.push(
                J::obj()
                    .put("ty", self.ty_s(d.ty))
                    .put("name", J::opt_s(names[l.as_usize()].clone()))
                    .put("mut", J::Bool(d.mutability.is_mut()))
                    .put("size", self.size_of(d.ty)),
            );
        }
        // upvar debug names (closures): var_debug_info with projections on _1
        let mut upvars = Vec::new();
        for vdi in body.var_debug_info.iter() {
            if let VarDebugInfoContents::Place(p) = &vdi.value {
                if !p.projection.is_empty() {
                    upvars.push(J::obj().put("name", J::s(vdi.name.to_string())).put("p", self.place(p)));
                }
            }
        }
        let mut blocks = Vec::new();
        for (_bb, data) in body.basic_blocks.iter_enumerated() {
            let mut stmts = Vec::new();
            for st in data.statements.iter() {
                match &st.kind {
                    StatementKind::Assign(b) => {
                        let (p, rv) = &**b;
                        stmts.push(
                            J::obj()
                                .put("k", J::s("assign"))
                                .put("p", self.place(p))
                                .put("rv", self.rvalue(rv))
                                .put("span", J::s(span_str(tcx, st.source_info.span)))
                                .put("macros", macro_chain(st.source_info.span)),
                        );
                    }
                    StatementKind::SetDiscriminant { place, variant_index } => {
                        stmts.push(
                            J::obj()
                                .put("k", J::s("setdiscr"))
                                .put("p", self.place(place))
                                .put("vi", J::Int(variant_index.as_usize() as i128)),
                        );
                    }
                    StatementKind::StorageLive(_)
                    | StatementKind::StorageDead(_)
                    | StatementKind::Nop => {}
                    other => {
                        let s = format!("{:?}", other);
                        // keep only short markers for rare kinds
                        stmts.push(J::obj().put("k", J::s("otherstmt")).put("s", J::s(s)));
                    }
                }
            }
            let term = match &data.terminator {
                Some(t) => self.terminator(t),
                None => J::Null,
            };
            blocks.push(
                J::obj()
                    .put("stmts", J::Arr(stmts))
                    .put("term", term)
                    .put("cleanup", J::Bool(data.is_cleanup)),
            );
        }
        J::obj()
            .put("arg_count", J::Int(body.arg_count as i128))
            .put("locals", J::Arr(locals))
            .put("upvars", J::Arr(upvars))
            .put("blocks", J::Arr(blocks))
            .put("span", J::s(span_str(tcx, body.span)))
            .put("lines", span_lines(tcx, body.span))
    }
}
