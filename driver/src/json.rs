// Minimal JSON value + serialiser (the driver has zero cargo dependencies).
use std::fmt::Write;

#[derive(Clone, Debug)]
pub enum J {
    Null,
    Bool(bool),
    Int(i128),
    Str(String),
    Arr(Vec<J>),
    Obj(Vec<(String, J)>),
}

impl J {
    pub fn s<S: Into<String>>(s: S) -> J {
        J::Str(s.into())
    }
    pub fn obj() -> J {
        J::Obj(Vec::new())
    }
    pub fn put<S: Into<String>>(mut self, k: S, v: J) -> J {
        if let J::Obj(ref mut m) = self {
            m.push((k.into(), v));
        }
        self
    }
    pub fn set<S: Into<String>>(&mut self, k: S, v: J) {
        if let J::Obj(ref mut m) = self {
            m.push((k.into(), v));
        }
    }
    pub fn opt_s(o: Option<String>) -> J {
        match o {
            Some(s) => J::Str(s),
            None => J::Null,
        }
    }
    pub fn write(&self, out: &mut String) {
        match self {
            J::Null => out.push_str("null"),
            J::Bool(b) => out.push_str(if *b { "true" } else { "false" }),
            J::Int(i) => {
                // keep within what python reads exactly: arbitrary ints are fine in python json
                let _ = write!(out, "{}", i);
            }
            J::Str(s) => write_str(s, out),
            J::Arr(v) => {
                out.push('[');
                for (i, x) in v.iter().enumerate() {
                    if i > 0 {
                        out.push(',');
                    }
                    x.write(out);
                }
                out.push(']');
            }
            J::Obj(m) => {
                out.push('{');
                for (i, (k, v)) in m.iter().enumerate() {
                    if i > 0 {
                        out.push(',');
                    }
                    write_str(k, out);
                    out.push(':');
                    v.write(out);
                }
                out.push('}');
            }
        }
    }
}

fn write_str(s: &str, out: &mut String) {
    out.push('"');
    for c in s.chars() {
        match c {
            '"' => out.push_str("\\\""),
            '\\' => out.push_str("\\\\"),
            '\n' => out.push_str("\\n"),
            '\r' => out.push_str("\\r"),
            '\t' => out.push_str("\\t"),
            c if (c as u32) < 0x20 => {
                let _ = write!(out, "\\u{:04x}", c as u32);
            }
            c => out.push(c),
        }
    }
    out.push('"');
}
