// Crate-level facts: bodies, ADTs, fn signatures, statics, unsafe, impls, type closure.
use crate::json::J;
use crate::mirdump::{path_of, span_str, Cx};
use rustc_hir as hir;
use rustc_hir::def::DefKind;
use rustc_hir::def_id::{DefId, LocalDefId};
use rustc_middle::ty::{self, Ty, TyCtxt, TypeVisitableExt, TypingEnv};
use std::collections::BTreeSet;

fn vis_str(tcx: TyCtxt<'_>, did: DefId) -> String {
    let v = tcx.visibility(did);
    if v.is_public() {
        "pub".to_string()
    } else {
        match v {
            ty::Visibility::Restricted(m) => {
                if m.is_crate_root() {
                    "crate".to_string()
                } else {
                    format!("in:{}", tcx.def_path_str(m))
                }
            }
            ty::Visibility::Public => "pub".to_string(),
        }
    }
}

// Walk the transitive field-type closure of a type. std containers are treated as
// transparent over their generic arguments (their own raw pointers / atomics are
// container internals).
const TRANSPARENT: &[&str] = &[
    "std::vec::Vec",
    "std::boxed::Box",
    "std::string::String",
    "std::collections::HashMap",
    "std::collections::HashSet",
    "std::collections::BTreeMap",
    "std::sync::Arc",
    "std::option::Option",
    "std::result::Result",
    "std::marker::PhantomData",
    "std::hash::BuildHasherDefault",
    "std::num::NonZero",
    "std::io::Error",
    "std::string::FromUtf8Error",
];

fn strip_generics(s: &str) -> String {
    let mut out = String::new();
    let mut depth = 0i32;
    let b: Vec<char> = s.chars().collect();
    let mut i = 0;
    while i < b.len() {
        let c = b[i];
        if c == '<' {
            // drop a preceding "::" (turbofish form)
            if depth == 0 && out.ends_with("::") {
                out.truncate(out.len() - 2);
            }
            depth += 1;
        } else if c == '>' {
            depth -= 1;
        } else if depth == 0 {
            out.push(c);
        }
        i += 1;
    }
    out
}

fn walk_ty<'tcx>(
    tcx: TyCtxt<'tcx>,
    t: Ty<'tcx>,
    seen: &mut BTreeSet<String>,
    adts: &mut BTreeSet<String>,
    flags: &mut BTreeSet<String>,
    depth: usize,
) {
    // resolve associated-type projections such as <Flags as PublicFlags>::Internal
    let t = if t.has_non_region_param() {
        t
    } else {
        let env = TypingEnv::fully_monomorphized();
        tcx.try_normalize_erasing_regions(env, rustc_middle::ty::Unnormalized::new_wip(t)).unwrap_or(t)
    };
    let key = t.to_string();
    if !seen.insert(key) || depth > 40 {
        return;
    }
    match t.kind() {
        ty::Bool | ty::Char | ty::Int(_) | ty::Uint(_) | ty::Float(_) | ty::Str | ty::Never => {}
        ty::Adt(adt, args) => {
            let p = strip_generics(&path_of(tcx, adt.did()));
            adts.insert(p.clone());
            if TRANSPARENT.iter().any(|x| *x == p) {
                for a in args.iter() {
                    if let Some(at) = a.as_type() {
                        walk_ty(tcx, at, seen, adts, flags, depth + 1);
                    }
                }
            } else {
                for a in args.iter() {
                    if let Some(at) = a.as_type() {
                        walk_ty(tcx, at, seen, adts, flags, depth + 1);
                    }
                }
                for v in adt.variants().iter() {
                    for f in v.fields.iter() {
                        let ft = f.ty(tcx, args);
                        walk_ty(tcx, ft, seen, adts, flags, depth + 1);
                    }
                }
            }
        }
        ty::Array(e, _) | ty::Slice(e) => walk_ty(tcx, *e, seen, adts, flags, depth + 1),
        ty::Ref(_, e, m) => {
            if m.is_mut() {
                flags.insert(format!("mut-ref:{}", t));
            }
            walk_ty(tcx, *e, seen, adts, flags, depth + 1)
        }
        ty::RawPtr(e, _) => {
            flags.insert(format!("raw-ptr:{}", t));
            walk_ty(tcx, *e, seen, adts, flags, depth + 1)
        }
        ty::Tuple(ts) => {
            for e in ts.iter() {
                walk_ty(tcx, e, seen, adts, flags, depth + 1);
            }
        }
        ty::Dynamic(..) => {
            flags.insert(format!("dyn:{}", t));
        }
        ty::FnPtr(..) | ty::FnDef(..) => {}
        ty::Param(_) => {
            flags.insert(format!("param:{}", t));
        }
        _ => {
            flags.insert(format!("other:{}", t));
        }
    }
}

fn type_closure<'tcx>(tcx: TyCtxt<'tcx>, t: Ty<'tcx>) -> J {
    let mut seen = BTreeSet::new();
    let mut adts = BTreeSet::new();
    let mut flags = BTreeSet::new();
    walk_ty(tcx, t, &mut seen, &mut adts, &mut flags, 0);
    J::obj()
        .put("adts", J::Arr(adts.into_iter().map(J::s).collect()))
        .put("flags", J::Arr(flags.into_iter().map(J::s).collect()))
        .put("types_visited", J::Int(seen.len() as i128))
}

fn dump_adt<'tcx>(tcx: TyCtxt<'tcx>, did: DefId) -> J {
    let adt = tcx.adt_def(did);
    let mut vars = Vec::new();
    for v in adt.variants().iter() {
        let mut fs = Vec::new();
        for f in v.fields.iter() {
            let fty = tcx.type_of(f.did).instantiate_identity().skip_norm_wip();
            fs.push(
                J::obj()
                    .put("name", J::s(f.name.to_string()))
                    .put("ty", J::s(fty.to_string()))
                    .put("vis", J::s(vis_str(tcx, f.did))),
            );
        }
        vars.push(J::obj().put("name", J::s(v.name.to_string())).put("fields", J::Arr(fs)));
    }
    let self_ty = tcx.type_of(did).instantiate_identity().skip_norm_wip();
    let env = TypingEnv::post_analysis(tcx, did);
    let size = if self_ty.has_non_region_param() {
        J::Null
    } else {
        match tcx.layout_of(env.as_query_input(self_ty)) {
            Ok(l) => J::Int(l.size.bytes() as i128),
            Err(_) => J::Null,
        }
    };
    J::obj()
        .put("path", J::s(path_of(tcx, did)))
        .put("kind", J::s(if adt.is_enum() { "enum" } else if adt.is_union() { "union" } else { "struct" }))
        .put("vis", J::s(vis_str(tcx, did)))
        .put("variants", J::Arr(vars))
        .put("size", size)
        .put("span", J::s(span_str(tcx, tcx.def_span(did))))
        .put("closure", type_closure(tcx, self_ty))
}

fn dump_sig<'tcx>(tcx: TyCtxt<'tcx>, ldid: LocalDefId) -> J {
    let did = ldid.to_def_id();
    let sig = tcx.fn_sig(did).instantiate_identity().skip_norm_wip().skip_binder();
    let mut ins = Vec::new();
    for t in sig.inputs().iter() {
        ins.push(J::s(t.to_string()));
    }
    let mut o = J::obj()
        .put("inputs", J::Arr(ins))
        .put("output", J::s(sig.output().to_string()))
        .put("unsafe", J::Bool(!sig.safety().is_safe()));
    // self kind
    if matches!(tcx.def_kind(did), DefKind::AssocFn) {
        let ai = tcx.associated_item(did);
        o.set("has_self", J::Bool(ai.is_method()));
        let parent = tcx.parent(did);
        o.set("impl", J::s(path_of(tcx, parent)));
        if matches!(tcx.def_kind(parent), DefKind::Impl { .. }) {
            let st = tcx.type_of(parent).instantiate_identity().skip_norm_wip();
            o.set("self_ty", J::s(st.to_string()));
            if let ty::Adt(a, _) = st.kind() {
                o.set("self_adt", J::s(path_of(tcx, a.did())));
            }
            if let Some(tr) = tcx.impl_opt_trait_ref(parent) {
                let tr = tr.instantiate_identity().skip_norm_wip();
                o.set("trait", J::s(path_of(tcx, tr.def_id)));
                o.set("trait_ref", J::s(tr.to_string()));
            }
        }
    }
    o
}

pub fn dump_crate<'tcx>(tcx: TyCtxt<'tcx>, krate: &str) -> J {
    let mut bodies = Vec::new();
    for ldid in tcx.hir_body_owners() {
        let did = ldid.to_def_id();
        let kind = tcx.def_kind(did);
        let (body, kind_s) = match kind {
            DefKind::Fn | DefKind::AssocFn => (tcx.optimized_mir(did), "fn"),
            DefKind::Closure => (tcx.optimized_mir(did), "closure"),
            DefKind::Const { .. } | DefKind::AssocConst { .. } | DefKind::Static { .. } => {
                (tcx.mir_for_ctfe(did), "const")
            }
            _ => continue,
        };
        let env = TypingEnv::post_analysis(tcx, did);
        let cx = Cx { tcx, env, body };
        let mut b = cx.dump();
        b.set("path", J::s(path_of(tcx, did)));
        b.set("kind", J::s(kind_s));
        b.set("def_kind", J::s(format!("{:?}", kind)));
        if matches!(kind, DefKind::Fn | DefKind::AssocFn) {
            b.set("vis", J::s(vis_str(tcx, did)));
            b.set("sig", dump_sig(tcx, ldid));
            b.set("name", J::s(tcx.item_name(did).to_string()));
        }
        if matches!(kind, DefKind::Closure) {
            let parent = tcx.typeck_root_def_id(did);
            b.set("closure_of", J::s(path_of(tcx, parent)));
        }
        // effective (re-export aware) public reachability
        if matches!(kind, DefKind::Fn | DefKind::AssocFn) {
            let ev = tcx.effective_visibilities(());
            b.set("exported", J::Bool(ev.is_reachable(ldid)));
        }
        bodies.push(b);
        if matches!(kind, DefKind::Fn | DefKind::AssocFn | DefKind::Closure) {
            for (pi, pb) in tcx.promoted_mir(did).iter_enumerated() {
                let pcx = Cx { tcx, env, body: pb };
                let mut pj = pcx.dump();
                pj.set("path", J::s(format!("{}::promoted[{}]", path_of(tcx, did), pi.as_usize())));
                pj.set("kind", J::s("promoted"));
                pj.set("def_kind", J::s("Promoted"));
                bodies.push(pj);
            }
        }
    }

    // ADTs, statics, impls, unsafe from HIR items
    let mut adts = Vec::new();
    let mut statics = Vec::new();
    let mut impls = Vec::new();
    let mut unsafe_items = Vec::new();
    let mut mods = Vec::new();
    let items = tcx.hir_crate_items(());
    for id in items.free_items() {
        let item = tcx.hir_item(id);
        let did = item.owner_id.to_def_id();
        match &item.kind {
            hir::ItemKind::Struct(..) | hir::ItemKind::Enum(..) | hir::ItemKind::Union(..) => {
                let mut a = dump_adt(tcx, did);
                let ev = tcx.effective_visibilities(());
                a.set("exported", J::Bool(ev.is_reachable(item.owner_id.def_id)));
                adts.push(a);
            }
            hir::ItemKind::Static(..) => {
                let t = tcx.type_of(did).instantiate_identity().skip_norm_wip();
                let mutable = matches!(tcx.def_kind(did), DefKind::Static { mutability: hir::Mutability::Mut, .. });
                let mut attrs = Vec::new();
                if tcx.is_thread_local_static(did) {
                    attrs.push(J::s("thread_local"));
                }
                statics.push(
                    J::obj()
                        .put("path", J::s(path_of(tcx, did)))
                        .put("ty", J::s(t.to_string()))
                        .put("mut", J::Bool(mutable))
                        .put("attrs", J::Arr(attrs))
                        .put("span", J::s(span_str(tcx, item.span)))
                        .put("closure", type_closure(tcx, t)),
                );
            }
            hir::ItemKind::Impl(imp) => {
                let st = tcx.type_of(did).instantiate_identity().skip_norm_wip();
                let mut o = J::obj()
                    .put("path", J::s(path_of(tcx, did)))
                    .put("self_ty", J::s(st.to_string()))
                    .put("span", J::s(span_str(tcx, item.span)))
                    .put("from_expansion", J::Bool(item.span.from_expansion()));
                if let Some(tr) = tcx.impl_opt_trait_ref(did) {
                    let tr = tr.instantiate_identity().skip_norm_wip();
                    o.set("trait", J::s(path_of(tcx, tr.def_id)));
                    let th = tcx.impl_trait_header(did);
                    let uns = !th.safety.is_safe();
                    o.set("unsafe", J::Bool(uns));
                    o.set("negative", J::Bool(matches!(th.polarity, ty::ImplPolarity::Negative)));
                    if uns {
                        unsafe_items.push(
                            J::obj()
                                .put("what", J::s("unsafe impl"))
                                .put("path", J::s(path_of(tcx, did)))
                                .put("span", J::s(span_str(tcx, item.span)))
                                .put("from_expansion", J::Bool(item.span.from_expansion())),
                        );
                    }
                }
                let _ = imp;
                impls.push(o);
            }
            hir::ItemKind::Mod(..) => {
                mods.push(J::s(path_of(tcx, did)));
            }
            hir::ItemKind::Fn { sig, .. } => {
                if !sig.header.safety().is_safe() {
                    unsafe_items.push(
                        J::obj()
                            .put("what", J::s("unsafe fn"))
                            .put("path", J::s(path_of(tcx, did)))
                            .put("span", J::s(span_str(tcx, item.span)))
                            .put("from_expansion", J::Bool(item.span.from_expansion())),
                    );
                }
            }
            _ => {}
        }
    }
    for id in items.impl_items() {
        let item = tcx.hir_impl_item(id);
        if let hir::ImplItemKind::Fn(sig, _) = &item.kind {
            if !sig.header.safety().is_safe() {
                unsafe_items.push(
                    J::obj()
                        .put("what", J::s("unsafe fn"))
                        .put("path", J::s(path_of(tcx, item.owner_id.to_def_id())))
                        .put("span", J::s(span_str(tcx, item.span)))
                        .put("from_expansion", J::Bool(item.span.from_expansion())),
                );
            }
        }
    }
    // unsafe blocks: walk every body's HIR
    for ldid in tcx.hir_body_owners() {
        let mut v = UnsafeFinder { tcx, found: Vec::new() };
        let body = tcx.hir_body_owned_by(ldid);
        hir::intravisit::Visitor::visit_body(&mut v, body);
        for (sp, exp) in v.found {
            unsafe_items.push(
                J::obj()
                    .put("what", J::s("unsafe block"))
                    .put("path", J::s(path_of(tcx, ldid.to_def_id())))
                    .put("span", J::s(span_str(tcx, sp)))
                    .put("from_expansion", J::Bool(exp)),
            );
        }
    }

    J::obj()
        .put("crate", J::s(krate))
        .put("rustc", J::s(option_env!("CFG_VERSION").unwrap_or("nightly").to_string()))
        .put("bodies", J::Arr(bodies))
        .put("adts", J::Arr(adts))
        .put("statics", J::Arr(statics))
        .put("impls", J::Arr(impls))
        .put("unsafe", J::Arr(unsafe_items))
        .put("mods", J::Arr(mods))
}

struct UnsafeFinder<'tcx> {
    #[allow(dead_code)]
    tcx: TyCtxt<'tcx>,
    found: Vec<(rustc_span::Span, bool)>,
}

impl<'tcx> hir::intravisit::Visitor<'tcx> for UnsafeFinder<'tcx> {
    fn visit_block(&mut self, b: &'tcx hir::Block<'tcx>) {
        if let hir::BlockCheckMode::UnsafeBlock(src) = b.rules {
            let user = matches!(src, hir::UnsafeSource::UserProvided);
            self.found.push((b.span, !user || b.span.from_expansion()));
        }
        hir::intravisit::walk_block(self, b);
    }
}
